"""C19 - fluid and standard-type libraries return what their data and documentation say
(DESIGN.md 4/C19, design_notes/C19.md).

T-tie : Gen/FluidData.v, Gen/StdTypeData.v (every library file as exact rationals) and Gen/KFluidFns.v
        (scalar expressions of the property classes and of PumpStdType.get_pressure) regenerated from
        the tree under test on every run (tools/translate/fluidlib.py, fail-closed).
H-tie : coq/C19/Model.v + Classes.v (interp1d contract, argument dispatch, polynomials, masked update,
        mixture rules) against the running classes on dyadic data: Fraction(result) must equal the Q
        model exactly; compared inside Coq.
Monitors: library fluids / pumps / pipe types (decimal data: 1e-12 relative, evaluated in Coq against
        the regenerated tables), the conclusions of the integral / compressibility / pump / mixture
        theorems on the real objects (search for a concrete failing input).
"""
import os
import sys
from fractions import Fraction as Fr

sys.path.insert(0, os.path.dirname(os.path.dirname(os.path.abspath(__file__))))
from vlib import cq, clist  # noqa: E402
from translate import fluidlib as tf  # noqa: E402

CLAIM = {
    "text": "23 theorems over Q (every float is a rational), all closed under the global context. Unbounded: the "
            "piecewise-linear table of interp1d hits its knots, is affine between consecutive knots, continues the end "
            "segments, adjacent pieces meet; results are shaped like the query for every property class and the pump; "
            "constant / linear / polynomial integrals are antisymmetric, additive and consistent (trapezoid = midpoint "
            "exactness, formal derivative of polyint); the interpolated property's integral F(upper)-F(lower) with the exact "
            "antiderivative is antisymmetric, additive for ALL limits and equal to the exact integral inside every piece "
            "incl. both extrapolated ends; Sutherland value law and reference point, polynomial value = regression "
            "polynomial; mass fractions sum to one, mass<->molar conversion is inverse, both molar-mass forms agree, "
            "mixture density / heat capacity / molar mass / viscosity lie within component bounds (any number of "
            "components); pump lift >= 0, 0 for reverse flow, polynomial otherwise, array branch = map scalar. Finite, by "
            "vm_compute over data regenerated from the library files each run: tables strictly increasing, knot values "
            "reproduced, compressibility slope = stored derivative for every fluid, heating values / pump / pipe tables "
            "well-formed, and std_type_reaches_pipe_unchanged for every row of Pipe.csv through the create_pipe column "
            "mapping regenerated from create.py. The scalar formulas come from the source (T-tie); the hand model is tied "
            "to the running classes by tolerance-free correspondences inside Coq: dyadic data in every argument form and "
            "dtype (float / int / bool scalars, lists, tuples, int32/int64/float arrays, Series), the numbers held by the "
            "call_lib property objects = nearest doubles of the decimal file text, created pipe cells = nearest doubles of "
            "Pipe.csv.",
    "note": "No axioms. Oracles (inputs of the model, not proved): scipy interp1d (its linear/extrapolate contract IS the "
            "model `interp`, exercised exactly), np.polyfit (regression coefficients are inputs; library pumps are compared "
            "with an exact rational least-squares fit at 1e-9), np.sqrt and x**1.5 (function arguments). H-modelled array "
            "code pinned statement by statement by the translator: _antiderivative, PumpStdType array branch. Monitors "
            "only (not theorems): interpolated library values between / at knots through the public getters (1e-12 "
            "relative, decimal data), mixtures of real library gases (18*2^-53 relative = derived rounding bound), "
            "u_w_per_m2k derived from u_w_per_mk (pi), user-defined pipe types with per-pipe overrides (library dict not "
            "mutated), integral laws on the running objects. interp_continuous is 'pieces meet + each piece Lipschitz', "
            "not an epsilon-delta statement.",
    "technique": "Coq proof over generated kernels and generated library data + hand model tied by exact correspondence",
    "design": "DESIGN.md 4/C19 + design_notes/C19.md",
}
GEN = [("FluidData", tf.generate_fluid_data), ("StdTypeData", tf.generate_stdtype_data),
       ("KFluidFns", tf.generate_kfluidfns)]

HEAD = ("From Coq Require Import String QArith Qminmax Qabs List Bool ZArith.\n"
        "From PP Require Import C19.Model Gen.KFluidFns C19.Classes Gen.FluidData Gen.StdTypeData.\n"
        "Import ListNotations.\nOpen Scope Q_scope.\n")


# --------------------------------------------------------------------------- Coq literals
def q(x):
    return cq(Fr(x)).replace("%Q", "")


def qlist(xs):
    return clist([q(x) for x in xs])


def cquery(a):
    """python-side canonical query: ('s', x) or ('v', [x...])"""
    return "(QScalar %s)" % q(a[1]) if a[0] == "s" else "(QVec %s)" % qlist(a[1])


def cresult(r):
    if r[0] == "s":
        return "(RScalar %s)" % q(r[1])
    if r[0] == "v":
        return "(RVec %s)" % qlist(r[1])
    return "RErr"


def ctab(t):
    return clist(["(%s, %s)" % (q(a), q(b)) for a, b in t])


def norm(res):
    """implementation result -> ('s', Fraction) | ('v', [Fraction]) | ('e', text)"""
    import numpy as np
    try:
        a = np.asarray(res, dtype=float)
        if a.ndim == 0:
            return ("s", Fr(float(a)))
        if a.ndim == 1:
            return ("v", [Fr(float(v)) for v in a])
        return ("e", "ndim %d" % a.ndim)
    except Exception as e:  # NaN / inf / objects
        return ("e", repr(e)[:80])


def call(f, *a):
    try:
        return norm(f(*a))
    except Exception as e:
        return ("e", "%s: %s" % (type(e).__name__, str(e)[:80]))


def forms(rng, query, allow_bool=False):
    """the same query in every argument form AND dtype the documentation names -> [(form name, python object)]
    integer-valued queries are additionally given with integer types (Python int, np.int32/int64 scalars and arrays,
    lists of ints, integer Series) and, where asked for, 0/1 queries as bool"""
    import numpy as np
    import pandas as pd
    if query[0] == "s":
        x = float(query[1])
        out = [("float", x), ("np.float64", np.float64(x))]
        if query[1].denominator == 1:
            out += [("int", int(query[1])), ("np.int64", np.int64(int(query[1]))), ("np.int32", np.int32(int(query[1])))]
        return out
    xs = [float(v) for v in query[1]]
    idx = list(range(100, 100 + len(xs)))
    rng.shuffle(idx)
    out = [("list", list(xs)), ("ndarray", np.array(xs)), ("Series", pd.Series(xs, index=idx, dtype=float))]
    if xs and all(v.denominator == 1 for v in query[1]):
        ints = [int(v) for v in query[1]]
        out += [("list[int]", list(ints)), ("ndarray[int64]", np.array(ints, dtype=np.int64)),
                ("ndarray[int32]", np.array(ints, dtype=np.int32)), ("Series[int64]", pd.Series(ints, index=idx, dtype="int64")),
                ("tuple[int]", tuple(ints))]
        if allow_bool and all(v in (0, 1) for v in ints):
            out += [("ndarray[bool]", np.array(ints, dtype=bool)), ("list[bool]", [bool(v) for v in ints])]
    return out


def intify(rng, qu, p=0.4, lo=None, hi=None):
    """with probability p round the query to integers (kept inside [lo, hi] when given)"""
    from math import floor
    if rng.random() >= p:
        return qu

    def r(v):
        w = Fr(floor(v + Fr(1, 2)))
        if lo is not None:
            w = max(w, Fr(floor(lo)))
        if hi is not None:
            w = min(w, Fr(floor(hi)))
        return w
    return ("s", r(qu[1])) if qu[0] == "s" else ("v", [r(v) for v in qu[1]])


def dy(rng, lo, hi, den):
    """dyadic rational k/den in [lo, hi]"""
    return Fr(rng.randint(int(lo * den), int(hi * den)), den)


# --------------------------------------------------------------------------- case generation (exact tie)
class Cases:
    def __init__(self):
        self.items = []      # (model coq expr, observed result, description dict)

    def add(self, model, observed, desc):
        self.items.append((model, observed, desc))


def gen_table(rng):
    n = rng.randint(2, 7)
    x = dy(rng, -8, 300, 4)
    t = []
    for _ in range(n):
        t.append((x, dy(rng, -64, 64, 8)))
        x += Fr(rng.choice([1, 1, 2, 4, 8, 16]), 4)
    if rng.random() < 0.3:           # flat and steep pieces
        t[-1] = (t[-1][0], t[-2][1])
    return t


def gen_query(rng, t, vec):
    lo, hi = t[0][0], t[-1][0]

    def one():
        r = rng.random()
        if r < 0.3:
            return rng.choice(t)[0]                       # a knot
        if r < 0.45:
            return lo - dy(rng, 0, 12, 16)                # below the table
        if r < 0.6:
            return hi + dy(rng, 0, 12, 16)                # above
        return lo + dy(rng, 0, float(hi - lo), 16)        # inside
    if vec:
        return ("v", [one() for _ in range(rng.randint(0 if rng.random() < 0.1 else 1, 6))])
    return ("s", one())


def cases_interextra(ctx, cs, n):
    from pandapipes.properties.fluids import FluidPropertyInterExtra
    rng = ctx.rng
    for _ in range(n):
        t = gen_table(rng)
        order = list(range(len(t)))
        if rng.random() < 0.3:
            rng.shuffle(order)       # interp1d sorts (assume_sorted=False): the table is a set of points
        prop = FluidPropertyInterExtra([float(t[i][0]) for i in order], [float(t[i][1]) for i in order])
        for vec in (False, True):
            qu = intify(rng, gen_query(rng, t, vec))
            for fname, arg in forms(rng, qu):
                obs = call(prop.get_at_value, arg)
                cs.add("interextra_get %s %s" % (ctab(t), cquery(qu)), obs,
                       {"fn": "FluidPropertyInterExtra.get_at_value", "table": [[str(a), str(b)] for a, b in t],
                        "arg_form": fname, "arg": [str(v) for v in (qu[1] if vec else [qu[1]])]})
                ctx.count("interextra_value_" + fname)
        # integrals: scalar/scalar, vector/scalar, vector/vector (same length)
        for shape in ("ss", "vs", "sv", "vv"):
            u = intify(rng, gen_query(rng, t, shape[0] == "v"))
            lq = intify(rng, gen_query(rng, t, shape[1] == "v"))
            if shape == "vv":
                m = min(len(u[1]), len(lq[1]))
                u, lq = ("v", u[1][:m]), ("v", lq[1][:m])
            fu, fl = forms(rng, u), forms(rng, lq)
            if len(fu) * len(fl) > 12:
                pairs_ = rng.sample([(x, y) for x in fu for y in fl], 12)
            else:
                pairs_ = [(x, y) for x in fu for y in fl]
            for ((na, a), (nb, b)) in pairs_:
                if True:
                    if na.startswith("Series") and nb.startswith("Series"):
                        b = b.copy()
                        b.index = a.index          # pandas aligns on the index; same labels = element-wise
                    obs = call(prop.get_at_integral_value, a, b)
                    cs.add("interextra_int %s %s %s" % (ctab(t), cquery(u), cquery(lq)), obs,
                           {"fn": "FluidPropertyInterExtra.get_at_integral_value", "table": [[str(x), str(y)] for x, y in t],
                            "arg_form": na + "/" + nb, "upper": str(u[1]), "lower": str(lq[1])})
                    ctx.count("interextra_integral")


def gen_plain_query(rng, vec, den=8, span=32):
    if vec:
        return ("v", [dy(rng, -span, span, den) for _ in range(rng.randint(0 if rng.random() < 0.1 else 1, 5))])
    return ("s", dy(rng, -span, span, den))


def cases_linear_constant(ctx, cs, n):
    from pandapipes.properties.fluids import FluidPropertyLinear, FluidPropertyConstant
    rng = ctx.rng
    for _ in range(n):
        slope, offset, value = dy(rng, -8, 8, 16), dy(rng, -32, 32, 8), dy(rng, -64, 64, 16)
        lin = FluidPropertyLinear(float(slope), float(offset))
        con = FluidPropertyConstant(float(value))
        obs = call(con.get_at_value)
        cs.add("constant_get %s None" % q(value), obs, {"fn": "FluidPropertyConstant.get_at_value", "arg_form": "none"})
        for vec in (False, True):
            qu = intify(rng, gen_plain_query(rng, vec), 0.5)
            if rng.random() < 0.15:
                qu = ("s", Fr(rng.randint(0, 1))) if qu[0] == "s" else ("v", [Fr(rng.randint(0, 1)) for _ in qu[1]])
            for fname, arg in forms(rng, qu, allow_bool=True):
                cs.add("linear_get %s %s %s" % (q(offset), q(slope), cquery(qu)), call(lin.get_at_value, arg),
                       {"fn": "FluidPropertyLinear.get_at_value", "slope": str(slope), "offset": str(offset),
                        "arg_form": fname, "arg": str(qu[1])})
                cs.add("constant_get %s (Some %s)" % (q(value), cquery(qu)), call(con.get_at_value, arg),
                       {"fn": "FluidPropertyConstant.get_at_value", "value": str(value), "arg_form": fname,
                        "arg": str(qu[1])})
                ctx.count("linear_constant_value_" + fname)
        for shape in ("ss", "vs", "sv", "vv"):
            u = intify(rng, gen_plain_query(rng, shape[0] == "v"))
            lq = intify(rng, gen_plain_query(rng, shape[1] == "v"))
            if shape == "vv":
                m = min(len(u[1]), len(lq[1]))
                u, lq = ("v", u[1][:m]), ("v", lq[1][:m])
            allp = [(x, y) for x in forms(rng, u) for y in forms(rng, lq)]
            for ((na, a), (nb, b)) in (rng.sample(allp, 12) if len(allp) > 12 else allp):
                if True:
                    cs.add("linear_int %s %s %s %s" % (q(offset), q(slope), cquery(u), cquery(lq)),
                           call(lin.get_at_integral_value, a, b),
                           {"fn": "FluidPropertyLinear.get_at_integral_value", "slope": str(slope), "offset": str(offset),
                            "arg_form": na + "/" + nb, "upper": str(u[1]), "lower": str(lq[1])})
                    cs.add("constant_int %s %s %s" % (q(value), cquery(u), cquery(lq)),
                           call(con.get_at_integral_value, a, b),
                           {"fn": "FluidPropertyConstant.get_at_integral_value", "value": str(value),
                            "arg_form": na + "/" + nb, "upper": str(u[1]), "lower": str(lq[1])})
                    ctx.count("linear_constant_integral")


def cases_polynomial(ctx, cs, n):
    """regression coefficients are an oracle (np.polyfit): the property is built through __init__, then its
    two getters are rebuilt the way __init__ builds them from *dyadic* coefficients"""
    import numpy as np
    from pandapipes.properties.fluids import FluidPropertyPolynominal
    rng = ctx.rng
    for _ in range(n):
        deg = rng.randint(1, 3)
        integ = [dy(rng, -4, 4, 4) for _ in range(deg + 1)]          # antiderivative coefficients (no constant)
        while integ[0] == 0:
            integ[0] = dy(rng, -4, 4, 4)
        coeffs = [integ[i] * (deg + 1 - i) for i in range(deg + 1)]   # its derivative, highest degree first
        xs = [Fr(i) for i in range(deg + 2)]
        prop = FluidPropertyPolynominal([float(x) for x in xs],
                                        [float(sum(c * x ** (deg - i) for i, c in enumerate(coeffs))) for x in xs], deg)
        fitted = [Fr(float(c)) for c in prop.prop_getter.coeffs]
        err = max(abs(a - b) for a, b in zip(fitted, coeffs)) if len(fitted) == len(coeffs) else 1
        if err > Fr(1, 10 ** 8):
            ctx.violation({"fn": "FluidPropertyPolynominal.__init__", "clause": "regression"},
                          "polyfit through exact polynomial data does not return its coefficients",
                          {"coeffs": [str(c) for c in coeffs], "fitted": [str(float(c)) for c in fitted]})
        prop.prop_getter = np.poly1d([float(c) for c in coeffs])
        prop.prop_int_getter = np.polyint(prop.prop_getter)
        for vec in (False, True):
            qu = intify(rng, gen_plain_query(rng, vec, den=4, span=6))
            for fname, arg in forms(rng, qu):
                if fname.startswith("Series"):
                    continue      # poly1d(Series) is numpy/pandas dispatch, not pandapipes code
                cs.add("polynomial_get %s %s" % (qlist(coeffs), cquery(qu)), call(prop.get_at_value, arg),
                       {"fn": "FluidPropertyPolynominal.get_at_value", "coeffs": [str(c) for c in coeffs],
                        "arg_form": fname, "arg": str(qu[1])})
        u, lq = gen_plain_query(rng, True, 4, 6), gen_plain_query(rng, False, 4, 6)
        import numpy as np  # noqa: F811
        cs.add("polynomial_int %s %s %s" % (qlist(coeffs), cquery(u), cquery(lq)),
               call(prop.get_at_integral_value, np.array([float(v) for v in u[1]]), float(lq[1])),
               {"fn": "FluidPropertyPolynominal.get_at_integral_value", "coeffs": [str(c) for c in coeffs],
                "upper": str(u[1]), "lower": str(lq[1])})
        ctx.count("polynomial")


def cases_pump(ctx, cs, n):
    import numpy as np
    from pandapipes.std_types.std_type_class import PumpStdType
    rng = ctx.rng
    for _ in range(n):
        deg = rng.choice([1, 2, 2, 2, 3])
        reg = [dy(rng, -2, 2, 16) if i < deg - 1 else dy(rng, -8, 8, 16) for i in range(deg + 1)]
        if deg >= 2:
            reg[0] = Fr(rng.randint(-8, 8), 2 ** 20)       # realistic: small leading coefficient
        pump = PumpStdType("p", np.array([float(c) for c in reg]))

        int_flows = rng.random() < 0.3

        def flow():
            if int_flows:
                return Fr(rng.randint(-2, 2))             # integer-typed volume flows
            return Fr(rng.randint(-16, 16), 16 * 3600) * rng.choice([1, 1, 16, 225])
        qs = ("s", flow())
        qv = ("v", [flow() for _ in range(rng.randint(0 if rng.random() < 0.1 else 1, 6))])
        if rng.random() < 0.3 and qv[1]:
            qv = ("v", [abs(v) for v in qv[1]])             # no reverse flow in the array
        for qu in (qs, qv):
            for fname, arg in forms(rng, qu):
                cs.add("pump_get %s %s" % (qlist(reg), cquery(qu)), call(pump.get_pressure, arg),
                       {"fn": "PumpStdType.get_pressure", "branch": "scalar" if qu[0] == "s" else "array",
                        "reg_par": [str(c) for c in reg], "arg_form": fname,
                        "vdot_m3_per_s": [str(v) for v in (qu[1] if qu[0] == "v" else [qu[1]])]})
                ctx.count("pump_" + fname)


POW15 = "(fun r => if Qeq_bool r 1 then 1 else if Qeq_bool r 4 then 8 else if Qeq_bool r (1 # 4) then (1 # 8) else 0)"


def cases_sutherland(ctx, cs, n):
    """FluidPropertySutherland on data where every float operation is exact: T/t0 in {1, 4, 1/4} (x**1.5 = 1, 8, 1/8
    exactly), t_sutherland + T a power of two; x**1.5 is an oracle of the model (table POW15)"""
    from pandapipes.properties.fluids import FluidPropertySutherland
    rng = ctx.rng
    for _ in range(n):
        t0 = Fr(rng.choice([64, 128, 256]))
        x = t0 * rng.choice([1, 4, Fr(1, 4)])
        p2 = Fr(2) ** rng.randint(int(x).bit_length(), int(x).bit_length() + 2)
        ts = p2 - x
        eta0 = Fr(rng.randint(1, 4096), 2 ** 22)
        prop = FluidPropertySutherland(float(eta0), float(t0), float(ts))
        for qu in (("s", x), ("v", [x] * rng.randint(1, 4))):
            for fname, arg in forms(rng, qu):
                if fname.startswith(("list", "tuple")):
                    continue      # args[0] / self.t0 on a Python list is not pandapipes' documented use (arrays, Series)
                cs.add("elementwise (sutherland_value %s %s %s %s) %s" % (POW15, q(eta0), q(t0), q(ts), cquery(qu)),
                       call(prop.get_at_value, arg),
                       {"fn": "FluidPropertySutherland.get_at_value", "eta0": str(eta0), "t0": str(t0), "t_sutherland": str(ts),
                        "arg_form": fname, "arg": str(qu[1])})
        r = call(prop.get_at_integral_value, 300., 280.)
        if r[0] != "e" or "UserWarning" not in r[1]:
            ctx.violation({"fn": "FluidPropertySutherland.get_at_integral_value", "clause": "documented_not_implemented"},
                          "the Sutherland integral is documented as not implemented (raises UserWarning); got %r" % (r,), {})
        ctx.count("sutherland")


def pow2_split(rng, n, exp):
    """n positive dyadic terms summing to 2**exp"""
    total = Fr(2) ** exp
    parts, rest = [], total
    for i in range(n - 1):
        p = rest * Fr(rng.randint(1, 12), 16)
        parts.append(p)
        rest -= p
    return parts + [rest]


def cases_mixture(ctx, cs, n):
    import numpy as np
    from pandapipes.properties import properties_toolbox as tb
    rng = ctx.rng

    def pairs(a, b):
        return clist(["(%s, %s)" % (q(x), q(y)) for x, y in zip(a, b)])
    for _ in range(n):
        k = rng.randint(1, 6)
        # arithmetic rules: any dyadic numbers
        w = [dy(rng, 0, 4, 16) for _ in range(k)]
        c = [dy(rng, 0, 64, 8) for _ in range(k)]
        fa = np.array([float(v) for v in w])
        ca = np.array([float(v) for v in c])
        cs.add("RScalar (mix_arith %s)" % pairs(w, c), call(tb.calculate_mixture_heat_capacity, ca, fa),
               {"fn": "calculate_mixture_heat_capacity", "capacity": str(c), "mass_fractions": str(w)})
        cs.add("RScalar (mix_arith %s)" % pairs(w, c), call(tb.calculate_mixture_molar_mass, ca, fa),
               {"fn": "calculate_mixture_molar_mass", "form": "molar", "molar_mass": str(c), "molar_fractions": str(w)})
        # harmonic rules: value_i = 2^e_i, terms fraction_i / value_i sum to a power of two
        terms = pow2_split(rng, k, rng.randint(-3, 2))
        vals = [Fr(2) ** rng.randint(-2, 5) for _ in range(k)]
        fr = [t * v for t, v in zip(terms, vals)]
        va, fra = np.array([float(v) for v in vals]), np.array([float(v) for v in fr])
        cs.add("RScalar (mix_harmonic %s)" % pairs(fr, vals), call(tb.calculate_mixture_density, va, fra),
               {"fn": "calculate_mixture_density", "density": str(vals), "mass_fractions": str(fr)})
        cs.add("RScalar (mix_harmonic %s)" % pairs(fr, vals),
               call(lambda: tb.calculate_mixture_molar_mass(va, components_mass_proportions=fra)),
               {"fn": "calculate_mixture_molar_mass", "form": "mass", "molar_mass": str(vals), "mass_fractions": str(fr)})
        # mass fractions from molar fractions: sum x_i M_i a power of two
        prod = pow2_split(rng, k, rng.randint(0, 5))
        mm = [Fr(2) ** rng.randint(0, 5) * rng.choice([1, 1, 3]) for _ in range(k)]
        mm = [m if (p / m).denominator & ((p / m).denominator - 1) == 0 else Fr(2) ** rng.randint(0, 5)
              for p, m in zip(prod, mm)]
        x = [p / m for p, m in zip(prod, mm)]
        cs.add("RVec (mass_from_molar %s)" % pairs(x, mm),
               call(tb.calculate_mass_fraction_from_molar_fraction, np.array([float(v) for v in x]),
                    np.array([float(v) for v in mm])),
               {"fn": "calculate_mass_fraction_from_molar_fraction", "molar_fractions": str(x), "molar_mass": str(mm)})
        # viscosity: molar masses are perfect squares (np.sqrt exact), sum x_i sqrt(M_i) a power of two
        sq = [Fr(rng.choice([1, 2, 3, 4, 5, 6, 3]), rng.choice([1, 2])) for _ in range(k)]
        den = pow2_split(rng, k, rng.randint(-2, 3))
        xs = [d / s for d, s in zip(den, sq)]
        ok = all(v.denominator & (v.denominator - 1) == 0 for v in xs)
        if not ok:
            sq = [Fr(2) ** rng.randint(-1, 3) for _ in range(k)]
            xs = [d / s for d, s in zip(den, sq)]
        eta = [dy(rng, 0, 16, 16) for _ in range(k)]
        cs.add("RScalar (mix_weighted %s)" % pairs([a * b for a, b in zip(xs, sq)], eta),
               call(tb.calculate_mixture_viscosity, np.array([float(v) for v in eta]),
                    np.array([float(v) for v in xs]), np.array([float(s * s) for s in sq])),
               {"fn": "calculate_mixture_viscosity", "viscosity": str(eta), "molar_fractions": str(xs),
                "molar_mass": str([s * s for s in sq])})
        # two-dimensional forms (components x temperatures): column j scales the component values by 2^e_j
        nt = rng.randint(1, 4)
        sc = [Fr(2) ** rng.randint(-2, 2) for _ in range(nt)]
        cols_h = [[v * s for v in vals] for s in sc]
        cols_a = [[dy(rng, 0, 64, 8) for _ in range(k)] for _ in sc]
        cs.add("RVec (columnwise mix_harmonic %s)" % clist([pairs(fr, col) for col in cols_h]),
               call(tb.calculate_mixture_density, np.array([[float(col[i]) for col in cols_h] for i in range(k)]), fra),
               {"fn": "calculate_mixture_density", "form": "2d", "density_columns": str(cols_h), "mass_fractions": str(fr)})
        cs.add("RVec (columnwise mix_arith %s)" % clist([pairs(w, col) for col in cols_a]),
               call(tb.calculate_mixture_heat_capacity, np.array([[float(col[i]) for col in cols_a] for i in range(k)]), fa),
               {"fn": "calculate_mixture_heat_capacity", "form": "2d", "capacity_columns": str(cols_a),
                "mass_fractions": str(w)})
        cols_e = [[dy(rng, 0, 16, 16) for _ in range(k)] for _ in sc]
        cs.add("RVec (columnwise mix_weighted %s)" % clist([pairs([a * b for a, b in zip(xs, sq)], col) for col in cols_e]),
               call(tb.calculate_mixture_viscosity, np.array([[float(col[i]) for col in cols_e] for i in range(k)]),
                    np.array([float(v) for v in xs]), np.array([float(s * s) for s in sq])),
               {"fn": "calculate_mixture_viscosity", "form": "2d", "viscosity_columns": str(cols_e),
                "molar_fractions": str(xs), "molar_mass": str([s * s for s in sq])})
        ctx.count("mixture_component_count_%d" % k)


# --------------------------------------------------------------------------- evaluation inside Coq
def evaluate(ctx, name, items, mode="exact", tol=None, chunk=400):
    """items: (model expr, observed, desc[, scale]) -> list of indices that mismatch (None if coqc failed)"""
    bad = []
    total = 0
    for s in range(0, len(items), chunk):
        part = items[s:s + chunk]
        if mode == "exact":
            body = ";\n".join("(%s, %s)" % (it[0], cresult(it[1])) for it in part)
            txt = HEAD + "Definition cs : list (result * result) := [\n%s\n].\nEval vm_compute in (summary_exact cs).\n" % body
        else:
            body = ";\n".join("(%s, (%s, %s))" % (q(it[3]), it[0], cresult(it[1])) for it in part)
            txt = HEAD + ("Definition cs : list (Q * (result * result)) := [\n%s\n].\n"
                          "Eval vm_compute in (summary_close %s cs).\n" % (body, q(tol)))
        trip, out = ctx.coq_counts(txt, "%s_%d" % (name, s // chunk))
        if not trip:
            ctx.broken("correspondence", name + " (coqc failed)", out[-1200:])
            return None
        n, m, first = trip[0]
        total += n
        if m:
            # locate all mismatches of this chunk by bisection-free re-evaluation: one boolean per case
            txt2 = txt.rsplit("Eval vm_compute", 1)[0] + (
                "Eval vm_compute in (map (fun c => result_eqb (fst c) (snd c)) cs).\n" if mode == "exact" else
                "Eval vm_compute in (map (fun c => result_close %s (fst c) (fst (snd c)) (snd (snd c))) cs).\n" % q(tol))
            rc, out2 = ctx.coq_eval(txt2, "%s_%d_detail" % (name, s // chunk))
            flags = [w == "true" for w in __import__("re").findall(r"\b(true|false)\b", out2.split("=", 1)[-1])]
            idxs = [i for i, f in enumerate(flags) if not f] if len(flags) == len(part) else [first]
            # the model's value for the first few, for the report
            for i in idxs[:3]:
                rc, out3 = ctx.coq_eval(txt.rsplit("Eval vm_compute", 1)[0] +
                                        "Eval vm_compute in (%s).\n" % part[i][0], "%s_model" % name)
                part[i][2]["model_value"] = " ".join(out3.split())[:400]
            bad += [s + i for i in idxs]
    return bad, total


def describe(it):
    d = dict(it[2])
    d["observed"] = [str(v) for v in it[1][1]] if it[1][0] == "v" else str(it[1][1])
    return d


def report_mismatches(ctx, items, bad, kind):
    seen = set()
    for i in bad:
        it = items[i]
        d = it[2]
        sig = {"fn": d["fn"], "kind": kind}
        for k in ("branch", "form", "arg_form", "fluid", "clause"):
            if k in d:
                sig[k] = d[k]
        if it[1][0] == "e":
            sig["raises"] = it[1][1].split(":")[0]
        key = tuple(sorted((k, str(v)) for k, v in sig.items()))
        if key in seen:
            continue
        seen.add(key)
        ctx.violation(sig, "%s: implementation returns %s, the documented law (Coq model %s) gives %s"
                      % (d["fn"], describe(it)["observed"], it[0][:160], d.get("model_value", "?")), describe(it))
        if len(seen) >= 6:
            break


# --------------------------------------------------------------------------- monitors on the library
def library_items(ctx):
    """queries on every call_lib fluid against the regenerated tables (1e-12 relative)"""
    import numpy as np
    import pandapipes
    nl, table, data = tf.read_fluid_library()
    rng = ctx.rng
    items = []
    for fl in nl["_LIQUIDS"] + nl["_GASES"]:
        fluid = pandapipes.call_lib(fl)
        rec = "fluid_" + fl
        for prop, getter, model in (("density", fluid.get_density, "lib_density"),
                                    ("viscosity", fluid.get_viscosity, "lib_viscosity"),
                                    ("heat_capacity", fluid.get_heat_capacity, "lib_heat_capacity")):
            rows = data[fl][prop]
            xs = [r[0] for r in rows]
            scale = max(abs(r[1]) for r in rows)
            knots = ("v", xs)
            step = max(1, len(xs) // (4 if ctx.quick else 40))
            pts = []
            for a, b in list(zip(xs, xs[1:]))[::step]:
                pts += [(a + b) / 2, a + (b - a) * Fr(rng.randint(1, 63), 64)]
            span = xs[-1] - xs[0]
            pts += [xs[0] - span / 8, xs[0] - 3 * span, xs[-1] + span / 4, xs[-1] + 2 * span]
            pts = [Fr(float(p)) for p in pts]             # the query itself is a float: exact rational
            for qu in [knots, ("v", pts)] + [("s", x) for x in rng.sample(xs, min(len(xs), 2))] + \
                      [("s", p) for p in rng.sample(pts, 2)]:
                for fname, arg in forms(rng, (qu[0], [Fr(float(v)) for v in qu[1]] if qu[0] == "v" else Fr(float(qu[1])))):
                    if ctx.quick and rng.random() > (0.45 if qu[0] == "v" else 0.3):
                        continue
                    qq = (qu[0], [Fr(float(v)) for v in qu[1]]) if qu[0] == "v" else ("s", Fr(float(qu[1])))
                    items.append(["%s %s %s" % (model, rec, cquery(qq)), call(getter, arg),
                                  {"fn": "Fluid.get_" + prop, "fluid": fl, "arg_form": fname, "clause": "library_values",
                                   "arg": [str(float(v)) for v in (qq[1] if qq[0] == "v" else [qq[1]])][:12]}, scale])
                    ctx.count("library_" + prop)
        ps = ("v", [Fr(0), Fr(1), Fr(float(16.5)), Fr(80), Fr(float(rng.uniform(0, 100)))])
        for fname, arg in forms(rng, ps) + forms(rng, ("s", Fr(float(rng.uniform(0, 100))))):
            qq = ps if fname in ("list", "ndarray", "Series") else ("s", Fr(float(arg)))
            items.append(["lib_compressibility %s %s" % (rec, cquery(qq)), call(fluid.get_compressibility, arg),
                          {"fn": "Fluid.get_compressibility", "fluid": fl, "arg_form": fname, "clause": "library_values"},
                          Fr(1)])
        for key, field, getter in (("molar_mass", "f_molar_mass", fluid.get_molar_mass),
                                   ("der_compressibility", "f_der_compressibility", fluid.get_der_compressibility)):
            items.append(["constant_get (%s %s) None" % (field, rec), call(getter),
                          {"fn": "Fluid.get_" + key, "fluid": fl, "clause": "library_values"}, Fr(0)])
        for key, field in (("lhv", "f_lhv"), ("hhv", "f_hhv")):
            if data[fl][key] is not None:
                items.append(["match %s %s with Some v => constant_get v None | None => RErr end" % (field, rec),
                              call(fluid.get_property, key),
                              {"fn": "Fluid.get_property(%s)" % key, "fluid": fl, "clause": "library_values"}, Fr(0)])
            elif key in fluid.all_properties:
                ctx.violation({"fn": "call_lib", "fluid": fl, "clause": "library_values", "prop": key},
                              "call_lib(%r) has a %s property but the library has no file for it" % (fl, key), {})
        ctx.case({"library_fluid": fl, "tables": {p: len(data[fl][p]) for p in ("density", "viscosity", "heat_capacity")}},
                 True, key="lib:" + fl)
    return items


def corr_library_loaded(ctx):
    """what np.loadtxt put into the property objects of every call_lib fluid is, number by number, the double
    nearest to the decimal literal of the data file (|float - decimal| <= |decimal| 2^-53), decided in Coq against
    the regenerated tables.  This ties Gen/FluidData.v to the loader exactly; interpolated values stay a monitor."""
    import numpy as np
    import pandapipes
    nl, table, data = tf.read_fluid_library()
    lines, descr = [], []
    for fl in nl["_LIQUIDS"] + nl["_GASES"]:
        fluid = pandapipes.call_lib(fl)
        rec = "fluid_" + fl
        for prop, field in (("density", "f_density"), ("viscosity", "f_viscosity"), ("heat_capacity", "f_heat_capacity")):
            g = fluid.all_properties[prop].prop_getter
            obs = ctab([(Fr(float(a)), Fr(float(b))) for a, b in zip(np.asarray(g.x), np.asarray(g.y))])
            lines.append("table_loaded_ok (%s %s) %s" % (field, rec, obs))
            descr.append({"fn": "call_lib", "fluid": fl, "prop": prop, "clause": "library_data_loaded"})
        lin = fluid.all_properties["compressibility"]
        consts = [("f_compr_slope", lin.slope), ("f_compr_offset", lin.offset),
                  ("f_molar_mass", fluid.all_properties["molar_mass"].value),
                  ("f_der_compressibility", fluid.all_properties["der_compressibility"].value)]
        for field, val in consts:
            lines.append("nearest_double_b (%s %s) %s" % (field, rec, q(Fr(float(val)))))
            descr.append({"fn": "call_lib", "fluid": fl, "prop": field, "clause": "library_data_loaded", "value": float(val)})
        for key, field in (("lhv", "f_lhv"), ("hhv", "f_hhv")):
            if key in fluid.all_properties:
                lines.append("match %s %s with Some v => nearest_double_b v %s | None => false end"
                             % (field, rec, q(Fr(float(fluid.all_properties[key].value)))))
                descr.append({"fn": "call_lib", "fluid": fl, "prop": key, "clause": "library_data_loaded"})
    txt = HEAD.replace("Gen.StdTypeData.", "Gen.StdTypeData C19.Proofs.") + \
        "Definition oks : list bool := [\n%s\n].\nEval vm_compute in (summary oks).\nEval vm_compute in oks.\n" % ";\n".join(lines)
    trip, out = ctx.coq_counts(txt, "library_loaded")
    if not trip:
        ctx.broken("correspondence", "library data vs loader (coqc failed)", out[-1000:])
        return
    n, m, first = trip[0]
    ctx.corr("Gen/FluidData.v (decimal text) == numbers held by the call_lib property objects (nearest-double criterion, exact)",
             n, m)
    if m:
        import re
        flags = re.findall(r"\b(true|false)\b", out.split("=", 2)[-1])
        bad = [i for i, f in enumerate(flags) if f == "false"] if len(flags) == len(lines) else [first]
        for i in bad[:3]:
            d = descr[i]
            ctx.violation({"fn": "call_lib", "clause": "library_data_loaded", "fluid": d["fluid"], "prop": d["prop"]},
                          "call_lib(%r): the numbers of property %s differ from the data file (not the nearest doubles of "
                          "its decimal text, or a different number of rows)" % (d["fluid"], d["prop"]), d)


def real_gas_mixture_items(ctx):
    """calculate_mixture_* on REAL library gases (component values read through the property objects) with dyadic
    fractions: the observed component values are shipped as exact rationals, the Q model is evaluated on them and the
    result must agree within the rounding of the float operations: (2k + 6) 2^-53 relative for k <= 6 components
    (k products / quotients, a pairwise sum, one division; all terms positive)"""
    import numpy as np
    from pandapipes.properties import properties_toolbox as tb
    from pandapipes.properties.fluids import FluidPropertyInterExtra, FluidPropertyConstant
    root = os.path.join(tf.src_root(), "properties")
    comps = [d for d in sorted(os.listdir(root)) if os.path.isdir(os.path.join(root, d)) and
             all(os.path.exists(os.path.join(root, d, f + ".txt")) for f in ("density", "heat_capacity", "molar_mass", "viscosity"))]
    props = {c: {"density": FluidPropertyInterExtra.from_path(os.path.join(root, c, "density.txt")),
                 "heat_capacity": FluidPropertyInterExtra.from_path(os.path.join(root, c, "heat_capacity.txt")),
                 "viscosity": FluidPropertyInterExtra.from_path(os.path.join(root, c, "viscosity.txt")),
                 "molar_mass": FluidPropertyConstant.from_path(os.path.join(root, c, "molar_mass.txt"))} for c in comps}
    rng = ctx.rng
    items = []

    def pairs(a, b):
        return clist(["(%s, %s)" % (q(Fr(float(x))), q(Fr(float(y)))) for x, y in zip(a, b)])
    for _ in range(6 if ctx.quick else 150):
        k = rng.randint(2, min(6, len(comps)))
        sel = rng.sample(comps, k)
        parts = [rng.randint(1, 32) for _ in sel]
        tot = sum(parts)
        scale_to = 64
        x = [Fr(p_, 1) for p_ in parts]
        x = [v / tot for v in x]
        x = [Fr(round(v * scale_to), scale_to) for v in x]
        x[-1] = 1 - sum(x[:-1])
        if min(x) <= 0:
            continue
        xa = np.array([float(v) for v in x])
        M = np.array([float(props[c]["molar_mass"].value) for c in sel])
        d = {"components": sel, "molar_fractions": [str(v) for v in x]}
        w = tb.calculate_mass_fraction_from_molar_fraction(xa, M)
        items.append(["RVec (mass_from_molar %s)" % pairs(xa, M), norm(w),
                      dict(d, fn="calculate_mass_fraction_from_molar_fraction"), Fr(0)])
        items.append(["RScalar (mix_arith %s)" % pairs(xa, M),
                      call(lambda: tb.calculate_mixture_molar_mass(M, components_molar_proportions=xa)),
                      dict(d, fn="calculate_mixture_molar_mass", form="molar"), Fr(0)])
        items.append(["RScalar (mix_harmonic %s)" % pairs(w, M),
                      call(lambda: tb.calculate_mixture_molar_mass(M, components_mass_proportions=w)),
                      dict(d, fn="calculate_mixture_molar_mass", form="mass"), Fr(0)])
        temps = np.array([273.15 + rng.randint(0, 60) for _ in range(rng.randint(1, 3))])
        rho = np.array([[float(v) for v in props[c]["density"].get_at_value(temps)] for c in sel])
        cp = np.array([[float(v) for v in props[c]["heat_capacity"].get_at_value(temps)] for c in sel])
        items.append(["RVec (columnwise mix_harmonic %s)" % clist([pairs(w, rho[:, j]) for j in range(len(temps))]),
                      call(tb.calculate_mixture_density, rho, np.asarray(w)),
                      dict(d, fn="calculate_mixture_density", form="2d", temperatures=[float(t) for t in temps]), Fr(0)])
        items.append(["RVec (columnwise mix_arith %s)" % clist([pairs(w, cp[:, j]) for j in range(len(temps))]),
                      call(tb.calculate_mixture_heat_capacity, cp, np.asarray(w)),
                      dict(d, fn="calculate_mixture_heat_capacity", form="2d", temperatures=[float(t) for t in temps]), Fr(0)])
        items.append(["RScalar (mix_harmonic %s)" % pairs(w, rho[:, 0]), call(tb.calculate_mixture_density, rho[:, 0], np.asarray(w)),
                      dict(d, fn="calculate_mixture_density", form="1d"), Fr(0)])
        ctx.case(d, True)
        ctx.count("real_gas_mixture_components_%d" % k)
    return items


def exact_lsq(points, degree):
    """least-squares polynomial through points in exact rationals (normal equations, Gauss)"""
    n = degree + 1
    A = [[sum(x ** (2 * degree - i - j) for x, _ in points) for j in range(n)] for i in range(n)]
    b = [sum(y * x ** (degree - i) for x, y in points) for i in range(n)]
    for c in range(n):
        piv = next(r for r in range(c, n) if A[r][c] != 0)
        A[c], A[piv], b[c], b[piv] = A[piv], A[c], b[piv], b[c]
        for r in range(n):
            if r != c and A[r][c] != 0:
                f = A[r][c] / A[c][c]
                A[r] = [a - f * p for a, p in zip(A[r], A[c])]
                b[r] -= f * b[c]
    return [b[i] / A[i][i] for i in range(n)]


def monitor_pumps(ctx):
    """library pump types: regression = exact least squares; scalar = array; lift >= 0; reverse flow -> 0;
    values against the Q model with the float coefficients taken as rationals (1e-12 of the term magnitudes)"""
    import numpy as np
    import pandapipes as pp
    pumps = tf.read_pump_library()
    net = pp.create_empty_network(fluid="water")
    items = []
    rng = ctx.rng
    for name, pd_ in pumps.items():
        if name not in net.std_types["pump"]:
            ctx.violation({"fn": "add_basic_std_types", "pump": name, "clause": "library_pump_available"},
                          "library pump type %s is not in net.std_types['pump'] of a water net" % name, {})
            continue
        st = net.std_types["pump"][name]
        exact = exact_lsq(pd_["points"], pd_["degree"])
        reg = [Fr(float(c)) for c in st.reg_par]
        scale = max(abs(c) for c in exact)
        if len(reg) != len(exact) or any(abs(a - b) > Fr(1, 10 ** 9) * max(scale, 1) for a, b in zip(reg, exact)):
            ctx.violation({"fn": "PumpStdType.from_path", "pump": name, "clause": "regression"},
                          "regression parameters of library pump %s differ from the least-squares polynomial of its table"
                          % name, {"reg_par": [float(c) for c in reg], "exact": [float(c) for c in exact]})
        vmax = float(max(p[0] for p in pd_["points"])) / 3600.0
        flows = [0.0, vmax, vmax * 1.5, vmax * 4, -vmax, -1e-9, 1e-9] + [rng.uniform(-vmax, 2 * vmax) for _ in range(12 if ctx.quick else 200)]
        arr = np.array(flows)
        res_arr = call(st.get_pressure, arr)
        res_sc = [call(st.get_pressure, float(v)) for v in flows]
        for v, r in zip(flows, res_sc):
            ctx.case({"pump": name, "vdot": v}, True)
            if r[0] != "s":
                ctx.violation({"fn": "PumpStdType.get_pressure", "branch": "scalar", "pump": name},
                              "scalar query raises / is not scalar: %r" % (r,), {"pump": name, "vdot_m3_per_s": v})
            elif r[1] < 0 or (v < 0 and r[1] != 0):
                ctx.violation({"fn": "PumpStdType.get_pressure", "branch": "scalar", "pump": name, "clause": "pump_lift"},
                              "lift %s for flow %s (must be >= 0, and 0 for reverse flow)" % (float(r[1]), v),
                              {"pump": name, "vdot_m3_per_s": v})
        if res_arr[0] != "v" or any(a[0] != "s" or a[1] != b for a, b in zip(res_sc, res_arr[1] if res_arr[0] == "v" else [])):
            bad = None
            if res_arr[0] == "v":
                bad = next((i for i, (a, b) in enumerate(zip(res_sc, res_arr[1])) if a[0] != "s" or a[1] != b), None)
            ctx.violation({"fn": "PumpStdType.get_pressure", "branch": "array", "pump": name},
                          "array query differs from the scalar queries: array -> %s, scalar -> %s"
                          % ("raises " + res_arr[1] if res_arr[0] == "e" else float(res_arr[1][bad]) if bad is not None else res_arr,
                             [float(r[1]) if r[0] == "s" else r for r in res_sc][:8] if bad is None else float(res_sc[bad][1])),
                          {"pump": name, "vdot_m3_per_s": flows if bad is None else [flows[bad]], "all_flows": flows})
        mag = max(sum(abs(c) * abs(Fr(v) * 3600) ** (len(reg) - 1 - i) for i, c in enumerate(reg)) for v in flows)
        for form, arg, qq, obs in [("ndarray", arr, ("v", [Fr(v) for v in flows]), res_arr)]:
            items.append(["pump_get %s %s" % (qlist(reg), cquery(qq)), obs,
                          {"fn": "PumpStdType.get_pressure", "branch": "array", "pump": name, "arg_form": form,
                           "clause": "library_pump"}, mag])
        for v, r in list(zip(flows, res_sc))[:10]:
            items.append(["pump_get %s %s" % (qlist(reg), cquery(("s", Fr(v)))), r,
                          {"fn": "PumpStdType.get_pressure", "branch": "scalar", "pump": name, "clause": "library_pump",
                           "vdot_m3_per_s": v}, mag])
    return items


def monitor_pipe_types(ctx):
    """std_type_reaches_pipe_unchanged, tie of the theorem: every library pipe type available in a water and in a
    gas net is created through create_pipe; the four cells are shipped to Coq and compared with
    created_cell(create_pipe_std_columns, retrieve_u_writes) over the regenerated Pipe.csv: the float cell must be
    the double nearest to the decimal library number (|cell - lib| <= |lib| 2^-53), NaN where the library has no
    number.  u_w_per_m2k derived from u_w_per_mk (pi) is checked here in floats."""
    import math
    import pandapipes as pp
    head, pipes = tf.read_pipe_library()
    by_name = {p["name"]: p for p in pipes}
    cases, descr = [], []
    for fluid in ("water", "lgas"):
        net = pp.create_empty_network(fluid=fluid)
        j1 = pp.create_junction(net, pn_bar=5, tfluid_k=300)
        j2 = pp.create_junction(net, pn_bar=5, tfluid_k=300)
        for name in sorted(net.std_types["pipe"]):
            if name not in by_name:
                ctx.violation({"fn": "add_basic_std_types", "clause": "std_type_reaches_pipe_unchanged", "std_type": name},
                              "net.std_types['pipe'] has %r which is not a row of Pipe.csv" % name, {"std_type": name})
                continue
            p = by_name[name]
            try:
                idx = pp.create_pipe(net, j1, j2, std_type=name, length_km=0.1)
            except Exception as e:
                ctx.violation({"fn": "create_pipe", "clause": "std_type_reaches_pipe_unchanged", "raises": type(e).__name__},
                              "create_pipe(std_type=%r) raises %r" % (name, e), {"std_type": name, "fluid": fluid})
                continue
            row = net.pipe.loc[idx]
            obs = []
            for col in ("inner_diameter_mm", "outer_diameter_mm", "k_mm", "u_w_per_m2k"):
                cell = row[col] if col in net.pipe.columns else float("nan")
                try:
                    cell = float(cell)
                except Exception:
                    cell = float("inf")
                obs.append(None if math.isnan(cell) else Fr(cell) if math.isfinite(cell) else Fr(-1))
            if p["u_w_per_mk"] is not None and p["u_w_per_m2k"] is None and obs[3] is not None:
                exp = float(p["u_w_per_mk"]) / (float(p["outer_diameter_mm"]) * math.pi) * 1000.
                if not math.isclose(float(obs[3]), exp, rel_tol=1e-12):
                    ctx.violation({"fn": "retrieve_u", "clause": "std_type_reaches_pipe_unchanged", "column": "u_w_per_m2k"},
                                  "%s: u_w_per_m2k = %r, u_w_per_mk / (pi d_o) * 1000 = %r" % (name, float(obs[3]), exp),
                                  {"std_type": name})
            if row["std_type"] != name:
                ctx.violation({"fn": "create_pipe", "clause": "std_type_reaches_pipe_unchanged", "column": "std_type"},
                              "std_type column %r != %r" % (row["std_type"], name), {"std_type": name})
            cases.append("(%s, %s)" % ('"%s"%%string' % name, clist(["None" if o is None else "(Some %s)" % q(o) for o in obs])))
            descr.append({"fn": "create_pipe", "std_type": name, "fluid": fluid,
                          "cells": [None if o is None else float(o) for o in obs]})
            ctx.count("pipe_std_type_" + fluid)
    txt = HEAD + (
        "Definition cs : list (string * list (option Q)) := [\n%s\n].\n"
        "Definition ok (c : string * list (option Q)) : bool :=\n"
        "  match find (fun s => String.eqb (s_name s) (fst c)) pipe_library with\n"
        "  | None => false\n"
        "  | Some s => Nat.eqb (length (snd c)) 4 && forallb (fun p => cell_matches (created_cell create_pipe_std_columns "
        "retrieve_u_writes retrieve_u_default (fst p) s) (snd p)) (combine std_columns (snd c)) end.\n"
        "Eval vm_compute in (summary (map ok cs)).\nEval vm_compute in (map ok cs).\n" % ";\n".join(cases))
    trip, out = ctx.coq_counts(txt, "pipe_types")
    if not trip:
        ctx.broken("correspondence", "create_pipe vs C19.Model.created_cell (coqc failed)", out[-1000:])
        return
    n, m, first = trip[0]
    ctx.corr("C19.Model.created_cell == net.pipe row written by create_pipe(std_type) for every library pipe type "
             "(nearest-double criterion)", n, m)
    ctx.case({"pipe_types_checked": n}, n > 50, key="pipes")
    if m:
        import re
        flags = re.findall(r"\b(true|false)\b", out.split("=", 2)[-1])
        bad = [i for i, f in enumerate(flags) if f == "false"] if len(flags) == len(cases) else [first]
        for i in bad[:3]:
            d = descr[i]
            p = by_name[d["std_type"]]
            lib = {c: (None if p[c] is None else float(p[c])) for c in ("inner_diameter_mm", "outer_diameter_mm", "k_mm",
                                                                        "u_w_per_m2k", "u_w_per_mk")}
            ctx.violation({"fn": "create_pipe", "clause": "std_type_reaches_pipe_unchanged"},
                          "pipe created from std type %s in a %s net has (inner, outer, k, u) = %s; Pipe.csv says %s"
                          % (d["std_type"], d["fluid"], d["cells"], lib), dict(d, library=lib))


def monitor_user_pipe_types(ctx):
    """user-defined pipe types of every shape (u_w_per_m2k given / u_w_per_mk given / neither), sequences of pipes
    created through create_pipe and create_pipes with and without per-pipe overrides (k_mm=, u_w_per_m2k=); after
    every call: the stored types are unchanged (deep snapshot of net.std_types) and the new rows carry the override
    or else the type's own numbers"""
    import copy
    import math
    import pandapipes as pp

    def canon(d):
        return {k: {kk: repr(vv) for kk, vv in sorted(v.items())} if isinstance(v, dict) else repr(v)
                for k, v in sorted(d.items())}
    try:
        udef = tf.create_pipe_mapping()[2]
        udef = float("nan") if udef is None else float(udef)
    except Exception:
        udef = 0.0
    rng = ctx.rng
    for it in range(8 if ctx.quick else 150):
        net = pp.create_empty_network(fluid="water")
        js = [pp.create_junction(net, 5, 300) for _ in range(4)]
        types = {}
        for shape in ("u_m2k", "u_mk", "none"):
            inner = float(dy(rng, 20, 400, 4))
            data = {"inner_diameter_mm": inner, "outer_diameter_mm": inner + float(dy(rng, 1, 40, 4)),
                    "k_mm": float(dy(rng, 0, 1, 64))}
            if shape == "u_m2k":
                data["u_w_per_m2k"] = float(dy(rng, 0.25, 30, 16))
            if shape == "u_mk":
                data["u_w_per_mk"] = float(dy(rng, 0.125, 2, 64))
            name = "user_%s_%d" % (shape, it)
            pp.create_std_type(net, "pipe", name, dict(data))
            types[name] = data
        history = []
        for step in range(rng.randint(4, 8)):
            name = rng.choice(sorted(types))
            over = {}
            r = rng.random()
            if r < 0.25:
                over["k_mm"] = float(dy(rng, 1, 4, 16))
            elif r < 0.5:
                over["u_w_per_m2k"] = float(dy(rng, 40, 80, 8))
            elif r < 0.6:
                over = {"k_mm": float(dy(rng, 1, 4, 16)), "u_w_per_m2k": float(dy(rng, 40, 80, 8))}
            fn = rng.choice(["create_pipe", "create_pipes", "create_pipes[list]"])
            if fn == "create_pipes[list]":
                over = {}     # with a list of types the deprecated override kwargs are popped by the first pipe only (noted)
            before = canon(copy.deepcopy(net.std_types["pipe"]))
            try:
                if fn == "create_pipe":
                    idx = [pp.create_pipe(net, js[0], js[1], std_type=name, length_km=0.5, **dict(over))]
                    used = [name]
                elif fn == "create_pipes":
                    idx = list(pp.create_pipes(net, [js[0], js[1]], [js[2], js[3]], std_type=name, length_km=0.5, **dict(over)))
                    used = [name, name]
                else:
                    other = rng.choice(sorted(types))
                    idx = list(pp.create_pipes(net, [js[0], js[1]], [js[2], js[3]], std_type=[name, other], length_km=0.5,
                                               **dict(over)))
                    used = [name, other]
            except Exception as e:
                ctx.violation({"fn": fn, "clause": "std_type_reaches_pipe_unchanged", "raises": type(e).__name__},
                              "%s(std_type=%r, %r) raises %r" % (fn, name, over, e), {"types": types, "history": history})
                break
            history.append({"fn": fn, "std_type": used, "override": over})
            ctx.case({"fn": fn, "shape": name.split("_")[1], "override": sorted(over)}, bool(over) or step > 0)
            ctx.count("user_pipe_type_" + fn)
            after = canon(copy.deepcopy(net.std_types["pipe"]))
            bad = None
            if after != before:
                changed = [t for t in after if after.get(t) != before.get(t)]
                bad = "the stored standard type(s) %s changed: %s -> %s" % (
                    changed, {t: before.get(t) for t in changed}, {t: after.get(t) for t in changed})
            for i, tname in zip(idx, used):
                d = types[tname]
                exp_u = over.get("u_w_per_m2k", d.get("u_w_per_m2k", d["u_w_per_mk"] / (d["outer_diameter_mm"] * math.pi) * 1000.
                                 if "u_w_per_mk" in d else udef))
                exp = {"inner_diameter_mm": d["inner_diameter_mm"], "outer_diameter_mm": d["outer_diameter_mm"],
                       "k_mm": over.get("k_mm", d["k_mm"]), "u_w_per_m2k": exp_u}
                for col, val in exp.items():
                    cell = float(net.pipe.at[i, col])
                    ok = (math.isnan(cell) and math.isnan(val)) or cell == val or \
                        (col == "u_w_per_m2k" and "u_w_per_mk" in d and "u_w_per_m2k" not in over
                         and math.isclose(cell, val, rel_tol=1e-12))
                    if not ok and bad is None:
                        bad = "pipe %s created from type %s %s has %s = %r; type data%s give %r" % (
                            i, tname, d, col, cell, " with override %r" % over if over else "", val)
            if bad:
                ctx.violation({"fn": "create_pipe(s)", "clause": "std_type_reaches_pipe_unchanged", "needs": "user-defined type"},
                              bad + " (after the call sequence %s)" % history, {"types": types, "history": history})
                break
        else:
            for tname, d in types.items():
                got = pp.load_std_type(net, tname, "pipe")
                if canon({"x": dict(got)}) != canon({"x": d}):
                    ctx.violation({"fn": "load_std_type", "clause": "std_type_reaches_pipe_unchanged", "needs": "user-defined type"},
                                  "load_std_type(%r) = %r, created as %r (after %s)" % (tname, dict(got), d, history),
                                  {"types": types, "history": history})


def monitor_laws(ctx):
    """the conclusions of the integral / compressibility theorems on the running objects"""
    import numpy as np
    import pandapipes
    from pandapipes.properties.fluids import FluidPropertyInterExtra
    nl, table, data = tf.read_fluid_library()
    rng = ctx.rng
    # the former counterexample of additivity (limits 2, 1, 0 across the knot 1), exact
    p = FluidPropertyInterExtra([0., 1., 2.], [0., 0., 2.])
    got = [float(p.get_at_integral_value(2., 1.)), float(p.get_at_integral_value(1., 0.)), float(p.get_at_integral_value(2., 0.)),
           float(p.get_at_integral_value(4., -2.))]
    if got != [1.0, 0.0, 1.0, 9.0]:
        ctx.violation({"fn": "FluidPropertyInterExtra.get_at_integral_value", "clause": "additive", "needs": "limits straddle a knot"},
                      "table (0,0),(1,0),(2,2): I(2,1), I(1,0), I(2,0), I(4,-2) = %s; the integral of the piecewise-linear "
                      "property is 1, 0, 1, 9" % got, {"table": [[0, 0], [1, 0], [2, 2]], "limits": [2, 1, 0]})

    def exact_integral(rows, a, b):
        """integral from b to a of the piecewise-linear, linearly extrapolated table, in exact rationals
        (independent of the generated formulas and of the Coq model)"""
        xs = [r[0] for r in rows]

        def f(x):
            i = max(1, min(len(xs) - 1, next((k for k, v in enumerate(xs) if x <= v), len(xs))))
            (x0, y0), (x1, y1) = rows[i - 1], rows[i]
            return y0 + (y1 - y0) / (x1 - x0) * (x - x0)
        lo, hi = min(a, b), max(a, b)
        pts = [lo] + [x for x in xs if lo < x < hi] + [hi]
        tot = sum((f(u) + f(v)) / 2 * (v - u) for u, v in zip(pts, pts[1:]))
        return tot if a >= b else -tot
    for fl in nl["_LIQUIDS"] + nl["_GASES"]:
        fluid = pandapipes.call_lib(fl)
        for prop in ("heat_capacity", "density", "viscosity"):
            obj = fluid.all_properties[prop]
            xs = [float(r[0]) for r in data[fl][prop]]
            scale = max(abs(float(r[1])) for r in data[fl][prop]) * (xs[-1] - xs[0])
            for _ in range(3 if ctx.quick else 40):
                a, b = sorted(rng.uniform(xs[0] - 20, xs[-1] + 20) for _ in range(2))
                iab, iba = float(obj.get_at_integral_value(a, b)), float(obj.get_at_integral_value(b, a))
                ctx.case({"fluid": fl, "prop": prop, "limits": [a, b]}, True)
                if abs(iab + iba) > 1e-12 * scale:
                    ctx.violation({"fn": "FluidPropertyInterExtra.get_at_integral_value", "clause": "antisymmetric", "fluid": fl},
                                  "%s.%s: I(%r, %r) = %r but I(%r, %r) = %r (sum %r, must be 0)"
                                  % (fl, prop, a, b, iab, b, a, iba, iab + iba), {"fluid": fl, "prop": prop, "limits": [a, b]})
                # consistent with the property values: exact integral of the tabulated piecewise-linear function
                ref = float(exact_integral(data[fl][prop], Fr(a), Fr(b)))
                if abs(iab - ref) > 1e-11 * scale:
                    ctx.violation({"fn": "FluidPropertyInterExtra.get_at_integral_value", "clause": "consistent", "fluid": fl},
                                  "%s.%s: I(%r, %r) = %r, exact integral of the tabulated property %r" % (fl, prop, a, b, iab, ref),
                                  {"fluid": fl, "prop": prop, "limits": [a, b]})
                # vector limits = element-wise
                vec = obj.get_at_integral_value(np.array([a, b]), np.array([b, a]))
                if np.shape(vec) != (2,) or float(vec[0]) != iab or float(vec[1]) != iba:
                    ctx.violation({"fn": "FluidPropertyInterExtra.get_at_integral_value", "clause": "shape", "fluid": fl},
                                  "%s.%s: vector limits give %r, scalar limits %r" % (fl, prop, vec, [iab, iba]),
                                  {"fluid": fl, "prop": prop, "limits": [a, b]})
            # additivity across a knot on library data (same law as the Coq witness)
            k = rng.randrange(1, len(xs) - 1)
            a, m, b = rng.choice([(xs[k + 1], xs[k], xs[k - 1]), (xs[-1] + 7.5, xs[k] + 0.25, xs[0] - 3.0),
                                  (xs[0] - 1.0, xs[-1] + 2.0, xs[k])])
            lhs = float(obj.get_at_integral_value(a, m)) + float(obj.get_at_integral_value(m, b))
            rhs = float(obj.get_at_integral_value(a, b))
            if abs(lhs - rhs) > 1e-12 * scale:
                ctx.violation({"fn": "FluidPropertyInterExtra.get_at_integral_value", "clause": "additive",
                               "needs": "limits straddle a knot", "fluid": fl, "prop": prop},
                              "%s.%s: I(%r,%r) + I(%r,%r) = %r but I(%r,%r) = %r" % (fl, prop, a, m, m, b, lhs, a, b, rhs),
                              {"fluid": fl, "prop": prop, "limits": [a, m, b]})
        # compressibility slope = stored derivative
        p1, p2 = 1.0, 65.0
        slope = (float(fluid.get_compressibility(p2)) - float(fluid.get_compressibility(p1))) / (p2 - p1)
        der = float(np.asarray(fluid.get_der_compressibility()).ravel()[0])
        ctx.case({"fluid": fl, "slope": slope, "der": der}, True, key="compr:" + fl)
        if abs(slope - der) > 1e-12 * max(abs(der), 1e-6):
            ctx.violation({"fn": "Fluid.get_der_compressibility", "clause": "compressibility_files_consistent", "fluid": fl},
                          "%s: (Z(%s bar) - Z(%s bar)) / %s = %r but get_der_compressibility() = %r (compressibility.txt "
                          "vs der_compressibility.txt)" % (fl, p2, p1, p2 - p1, slope, der),
                          {"fluid": fl, "p_bar": [p1, p2], "slope": slope, "der_compressibility": der})


def monitor_class_laws(ctx):
    """conclusions of the integral / pump theorems on the running classes with dyadic data, evaluated with
    exact rationals in Python from the property text (independent of the generated formulas)"""
    import numpy as np
    from pandapipes.properties.fluids import FluidPropertyLinear, FluidPropertyConstant
    from pandapipes.std_types.std_type_class import PumpStdType
    rng = ctx.rng
    for _ in range(20 if ctx.quick else 400):
        slope, offset, value = dy(rng, -8, 8, 16), dy(rng, -32, 32, 8), dy(rng, -64, 64, 16)
        a, b, c = (dy(rng, -16, 16, 8) for _ in range(3))
        lin, con = FluidPropertyLinear(float(slope), float(offset)), FluidPropertyConstant(float(value))
        f = lambda x: offset + slope * x  # noqa: E731
        for name, obj, exact, val in (("FluidPropertyLinear", lin, lambda u, l: (f(u) + f(l)) / 2 * (u - l), f),
                                      ("FluidPropertyConstant", con, lambda u, l: value * (u - l), lambda x: value)):
            got = {}
            for (u, l) in ((a, b), (b, a), (b, c), (a, c)):
                r = call(obj.get_at_integral_value, float(u), float(l))
                got[(u, l)] = r
                ctx.case({"fn": name + ".get_at_integral_value", "limits": [str(u), str(l)]}, True)
                if r != ("s", exact(u, l)):
                    ctx.violation({"fn": name + ".get_at_integral_value", "clause": "consistent"},
                                  "%s(slope=%s, offset=%s, value=%s): integral(%s, %s) = %s, the property values give %s"
                                  % (name, slope, offset, value, u, l, r[1], exact(u, l)),
                                  {"slope": str(slope), "offset": str(offset), "value": str(value), "limits": [str(u), str(l)]})
                    break
            v = call(obj.get_at_value, float(a))
            if v != ("s", val(a)):
                ctx.violation({"fn": name + ".get_at_value", "clause": "value"},
                              "%s.get_at_value(%s) = %s, documented %s" % (name, a, v[1], val(a)),
                              {"slope": str(slope), "offset": str(offset), "value": str(value), "arg": str(a)})
        # pump: documented law max(0, sum c_i (3600 q)^(deg-i)), 0 for q < 0
        deg = rng.choice([1, 2, 2, 3])
        reg = [dy(rng, -4, 4, 16) for _ in range(deg + 1)]
        pump = PumpStdType("p", np.array([float(x) for x in reg]))
        for _k in range(3):
            qf = Fr(rng.randint(-16, 16), 16 * 3600)
            doc = Fr(0) if qf < 0 else max(Fr(0), sum(cf * (qf * 3600) ** (deg - i) for i, cf in enumerate(reg)))
            for branch, r in (("scalar", call(pump.get_pressure, float(qf))),
                              ("array", call(pump.get_pressure, np.array([float(qf)])))):
                exp = ("s", doc) if branch == "scalar" else ("v", [doc])
                if r != exp:
                    ctx.violation({"fn": "PumpStdType.get_pressure", "branch": branch, "clause": "pump_lift"},
                                  "reg_par %s, vdot %s m3/s: lift %s, regression polynomial clipped at 0 gives %s"
                                  % ([str(x) for x in reg], qf, r[1], doc),
                                  {"reg_par": [str(x) for x in reg], "vdot_m3_per_s": str(qf), "branch": branch})


def monitor_list_limits(ctx):
    """documented argument kind 'float or list-like objects' for the integral limits"""
    from pandapipes.properties.fluids import FluidPropertyInterExtra
    p = FluidPropertyInterExtra([0., 1., 2.], [0., 1., 4.])
    r = call(p.get_at_integral_value, [2.0, 1.5], [1.0, 0.5])
    exp = ("v", [Fr(5, 2), Fr(5, 4)])
    if r != exp:
        ctx.violation({"fn": "FluidPropertyInterExtra.get_at_integral_value", "clause": "shape", "arg_form": "list/list"},
                      "limits given as lists (documented: 'float or list-like objects'): %s; expected [2.5, 1.25]"
                      % (r[1] if r[0] == "e" else [float(v) for v in r[1]]),
                      {"table": [[0, 0], [1, 1], [2, 4]], "upper": [2.0, 1.5], "lower": [1.0, 0.5]})


def monitor_real_mixtures(ctx):
    """bounds / conservation conclusions on mixtures of the library component gases"""
    import numpy as np
    from pandapipes.properties import properties_toolbox as tb
    nl, table, data = tf.read_fluid_library()
    root = os.path.join(tf.src_root(), "properties")
    comps = [d for d in sorted(os.listdir(root)) if os.path.isdir(os.path.join(root, d)) and
             os.path.exists(os.path.join(root, d, "molar_mass.txt")) and not d.startswith("_")]
    mm = {c: float(tf.parse_txt(os.path.join(root, c, "molar_mass.txt"))[0][0]) for c in comps}
    rho = {c: float(tf.parse_txt(os.path.join(root, c, "density.txt"))[0][1]) for c in comps}
    rng = ctx.rng
    for _ in range(20 if ctx.quick else 500):
        sel = rng.sample(comps, rng.randint(1, min(6, len(comps))))
        raw = [rng.random() + 1e-3 for _ in sel]
        x = np.array(raw) / sum(raw)
        M = np.array([mm[c] for c in sel])
        w = tb.calculate_mass_fraction_from_molar_fraction(x, M)
        mix_m = tb.calculate_mixture_molar_mass(M, components_molar_proportions=x)
        mix_m2 = tb.calculate_mixture_molar_mass(M, components_mass_proportions=w)
        d = tb.calculate_mixture_density(np.array([rho[c] for c in sel]), w)
        back = (w / M) / (w / M).sum()
        ok = abs(w.sum() - 1) < 1e-12 and abs(mix_m - mix_m2) < 1e-12 * mix_m and np.all(abs(back - x) < 1e-12) and \
            min(M) * (1 - 1e-12) <= mix_m <= max(M) * (1 + 1e-12) and \
            min(rho[c] for c in sel) * (1 - 1e-12) <= d <= max(rho[c] for c in sel) * (1 + 1e-12) and len(w) == len(sel)
        ctx.case({"components": sel, "x": list(map(float, x))}, len(sel) > 1)
        if not ok:
            ctx.violation({"fn": "calculate_mixture_*", "clause": "mixture_laws"},
                          "mixture of %s with molar fractions %s breaks conservation / bounds: sum w = %r, M = %r / %r, rho = %r"
                          % (sel, list(x), w.sum(), mix_m, mix_m2, d), {"components": sel, "molar_fractions": list(map(float, x))})


# --------------------------------------------------------------------------- run
def run(ctx):
    ctx.extra["rule"] = ("exact tie: seeded random dyadic tables / coefficients / mixtures, each query in every argument "
                         "form (float, np.float64, list, ndarray, Series) inside, at the knots of and outside the table; "
                         "library: every knot of every table of every call_lib fluid plus points between and beyond; "
                         "distinct = canonical JSON of (function, data, argument form, argument); non-trivial = vector "
                         "query, a query outside the table or at a knot, reverse flow, or >= 2 mixture components")
    gen_ok = True
    for name, fn in GEN:
        try:
            ctx.gen(name, fn())
        except Exception as e:
            gen_ok = False
            ctx.broken("translator", "tools/translate/fluidlib.py:%s" % name, repr(e))
    proved = ctx.prove("C19")
    if not proved:
        # the cases files need Model/Classes/Gen compiled even when a proof broke
        ctx.make(["C19/Classes.vo", "Gen/FluidData.vo", "Gen/StdTypeData.vo"])
    ctx.assumptions.append("interp1d(kind=linear, fill_value=extrapolate) computes the piecewise-linear function of "
                           "C19.Model.interp (exercised exactly by the correspondence, not proved); np.polyfit returns "
                           "the least-squares polynomial (checked against an exact rational fit for the library pumps)")
    # ---- exact correspondence
    import pandapipes  # noqa: F401
    n = 6 if ctx.quick else 120
    groups = [("interextra", cases_interextra, n), ("linear_constant", cases_linear_constant, n),
              ("polynomial", cases_polynomial, n), ("sutherland", cases_sutherland, n), ("pump", cases_pump, 3 * n),
              ("mixture", cases_mixture, n)]
    for gname, fn, cnt in groups:
        cs = Cases()
        try:
            fn(ctx, cs, cnt)
        except Exception:
            import traceback
            ctx.broken("harness", "case generation %s" % gname, traceback.format_exc()[-1200:])
            continue
        for model, obs, d in cs.items:
            nontriv = ("arg_form" in d and d["arg_form"] not in ("float", "np.float64", "none")) or \
                d.get("branch") == "array" or "form" in d or "mixture" in d["fn"] or "molar" in d["fn"]
            ctx.case({k: v for k, v in d.items()}, bool(nontriv))
        t1 = __import__("time").time()
        r = evaluate(ctx, gname, cs.items)
        ctx.extra.setdefault("timing", {})[gname] = round(__import__("time").time() - t1, 1)
        if r is None:
            continue
        bad, total = r
        ctx.corr("C19.Classes (%s) == running pandapipes classes, exact on dyadic data" % gname, total, len(bad))
        if bad:
            report_mismatches(ctx, cs.items, bad, "exact")
    # ---- library monitors, evaluated in Coq against the regenerated tables
    try:
        corr_library_loaded(ctx)
    except Exception:
        import traceback
        ctx.broken("harness", "library loaded correspondence", traceback.format_exc()[-1200:])
    for mname, fn, tol in (("library_fluids", library_items, Fr(1, 10 ** 12)), ("library_pumps", monitor_pumps, Fr(1, 10 ** 11)),
                           ("real_gas_mixtures", real_gas_mixture_items, Fr(18, 2 ** 53))):
        try:
            items = fn(ctx)
        except Exception:
            import traceback
            ctx.broken("harness", "monitor %s" % mname, traceback.format_exc()[-1200:])
            continue
        t1 = __import__("time").time()
        r = evaluate(ctx, mname, items, mode="close", tol=tol, chunk=150)
        ctx.extra.setdefault("timing", {})[mname] = (len(items), round(__import__("time").time() - t1, 1))
        if r is None:
            continue
        bad, total = r
        ctx.extra.setdefault("monitors", []).append({"name": mname, "cases": total, "failures": len(bad),
                                                     "tolerance": "18 * 2^-53 relative (derived rounding bound of the float operations)"
                                                     if mname == "real_gas_mixtures" else "1e-12 relative (decimal data read as floats)"})
        if bad:
            report_mismatches(ctx, items, bad, "library")
    for mon in (monitor_laws, monitor_class_laws, monitor_list_limits, monitor_pipe_types, monitor_user_pipe_types,
                monitor_real_mixtures):
        try:
            mon(ctx)
        except Exception:
            import traceback
            ctx.broken("harness", "monitor %s" % mon.__name__, traceback.format_exc()[-1200:])
    # 0-d ndarray argument of a constant property (what interp1d returns for a scalar): documented as a note
    try:
        import numpy as np
        from pandapipes.properties.fluids import FluidPropertyConstant
        r = call(FluidPropertyConstant(2.5).get_at_value, np.array(3.0))
        if r[0] == "e":
            ctx.note("FluidPropertyConstant.get_at_value(np.array(3.0)) (0-d array, e.g. the result of an interpolated "
                     "property) raises %s" % r[1])
    except Exception:
        pass
    _ = gen_ok


def replay(ctx, path):
    import json
    obj = json.load(open(path))
    print("replay of %s: re-running the full check (cases are regenerated from seed %s)" % (path, obj.get("seed")))
    ctx.seed = obj.get("seed", ctx.seed)
    run(ctx)
