"""C13 - each time-series step equals a stand-alone calculation with that step's inputs (DESIGN.md 4/C13).

Model + theorems: coq/C13 (step list induction, generic in the run function `spec`, which is a pure function of
the description by C12).  T-tie: Gen/TsWiring.v (registered run function, error tuples, shape of run_loop).
Monitor / failing-input search: the real run_timeseries (pandapower DFData + ConstControl + OutputWriter) on
generated nets with profiles on sinks / sources / ext-grid pressure (/ heat-consumer duty), shuffled and subset
step lists, rows that make the net infeasible, with and without continue_on_divergence; every logged row is
compared BIT-identically with a stand-alone pipeflow on a fresh copy carrying that row's values.
"""
import copy
import json
import math
import os
import sys
import time

sys.path.insert(0, os.path.dirname(os.path.dirname(os.path.abspath(__file__))))
from translate import tswiring  # noqa: E402

CLAIM = {
    "text": "Machine-checked (Coq): the time-series loop modelled as a fold over an arbitrary list of steps (any order, "
            "subset, repetitions): a later write to a controlled cell overwrites an earlier one, so the description at "
            "step t is U_0 with row t; by induction over the step list every logged row equals spec(U_0[cells := row "
            "t]); with continue_on_divergence every step is logged in order (diverged = flagged) and later steps are "
            "unaffected, without it the loop raises at the first failing step; the registered run function is pipeflow "
            "and PipeflowNotConverged is the first recognised error in all four wiring sites (table regenerated from "
            "the sources). `spec` is the stand-alone pipeflow, a function of the description by C12. Tied to the "
            "running code by a bit-identical comparison of every row logged by the real run_timeseries.",
    "note": "All theorems closed under the global context. pandapower's run_time_step / run_control / ConstControl / "
            "OutputWriter are oracles with the behaviour written in coq/C13/Model.v (exercised, not proved). pandapower's "
            "OutputWriter leaves the result matrix row of a failed step at its initial 0.0 and reports the failure in "
            "Parameters.powerflow_failed; the monitor checks the flag. Multinet time series: wiring facts only.",
    "technique": "Coq proof over hand-written step model + generated wiring table + bit-identical differential",
    "design": "DESIGN.md 4/C13 + design_notes/C13.md",
}
GEN = [("TsWiring", lambda: tswiring.generate())]

LOG = [("res_junction", "p_bar"), ("res_pipe", "mdot_from_kg_per_s"), ("res_pipe", "v_mean_m_per_s"),
       ("res_ext_grid", "mdot_kg_per_s")]
LOG_HEAT = LOG + [("res_junction", "t_k"), ("res_pipe", "t_to_k")]


def hexrow(a):
    return ["nan" if math.isnan(float(x)) else float(x).hex() for x in a]


def make_profile(rng, net, profile_kind, n_steps):
    """-> (cells [(table, column, [labels], scale)], DataFrame, failing rows)"""
    import numpy as np
    import pandas as pd
    cells, cols, bad_rows = [], {}, set()
    gas = profile_kind == "gas"

    def add(table, column, labels, base, scale, lo=0.3, hi=1.6):
        names = []
        for lab, b in zip(labels, base):
            nm = "%s_%s_%s" % (table, column, lab)
            cols[nm] = [float(b) * rng.choice([lo, 0.5, 0.75, 1.0, 1.0, 1.25, hi]) for _ in range(n_steps)]
            names.append(nm)
        cells.append((table, column, [int(x) for x in labels], scale, names))
    for t in ("sink", "source"):
        if t in net and len(net[t]):
            labs = list(net[t].index)
            rng.shuffle(labs)
            labs = labs[:max(1, rng.randint(1, len(labs)))]
            add(t, "mdot_kg_per_s", labs, [net[t].at[l, "mdot_kg_per_s"] for l in labs], rng.choice([1.0, 0.5, 2.0]))
    if len(net.ext_grid) and rng.random() < 0.8:
        labs = [int(net.ext_grid.index[0])]
        add("ext_grid", "p_bar", labs, [net.ext_grid.at[labs[0], "p_bar"]], 1.0, 0.9, 1.1)
    if "heat_consumer" in net and len(net.heat_consumer) and rng.random() < 0.8:
        hc = net.heat_consumer
        labs = [int(l) for l in hc.index if not math.isnan(hc.at[l, "qext_w"])][:2]
        if labs:
            add("heat_consumer", "qext_w", labs, [hc.at[l, "qext_w"] for l in labs], 1.0, 0.6, 1.3)
    if "circ_pump_pressure" in net and len(net.circ_pump_pressure) and rng.random() < 0.5:
        labs = [int(net.circ_pump_pressure.index[0])]
        add("circ_pump_pressure", "plift_bar", labs, [net.circ_pump_pressure.at[labs[0], "plift_bar"]], 1.0, 0.8, 1.2)
    if not cells:
        return None
    # infeasible rows: NaN pressure / lift, or (gas) a demand far beyond what the supply pressure can deliver
    n_bad = rng.choice([0, 1, 1, 2])
    for r in rng.sample(range(n_steps), min(n_bad, n_steps)):
        cand = [c for c in cells if c[1] in ("p_bar", "plift_bar")]
        if cand and rng.random() < 0.7:
            cols[rng.choice(cand)[4][0]][r] = float("nan")
            bad_rows.add(r)
        elif gas:
            c = next((c for c in cells if c[0] == "sink"), None)
            if c:
                cols[c[4][0]][r] = 1e3
                bad_rows.add(r)
    return cells, pd.DataFrame(cols), bad_rows


def attach(net, cells, df, steps, log_vars):
    from pandapower.timeseries import DFData, OutputWriter
    from pandapower.control import ConstControl
    ds = DFData(df)
    for table, column, labels, scale, names in cells:
        ConstControl(net, element=table, variable=column, element_index=labels, data_source=ds,
                     profile_name=names, scale_factor=scale)
    ow = OutputWriter(net, steps, output_path=None, log_variables=list(log_vars))
    return ow


def standalone(net0, cells, df, t, kw, log_vars):
    """fresh copy carrying row t -> (status, {var: hex row})"""
    import pandapipes as pp
    import numpy as np
    net = copy.deepcopy(net0)
    for table, column, labels, scale, names in cells:
        vals = df.loc[t, names].values * scale          # the very expression ConstControl evaluates
        net[table].loc[labels, column] = vals
    try:
        pp.pipeflow(net, **kw)
    except Exception as e:  # noqa: BLE001
        return type(e).__name__, {}
    out = {}
    for tb, c in log_vars:
        out["%s.%s" % (tb, c)] = hexrow(net[tb][c].values)
    return "ok", out


def one_series(ctx, p, spec, net0, cells, df, steps, cod, kw, log_vars):
    """run the real time series; compare every logged row -> number of compared rows"""
    from pandapipes.timeseries import run_timeseries
    from harness import gen
    net = copy.deepcopy(net0)
    ow = attach(net, cells, df, steps, log_vars)
    raised = None
    try:
        run_timeseries(net, steps, continue_on_divergence=cod, verbose=False, **kw)
    except Exception as e:  # noqa: BLE001
        raised = type(e).__name__
    ref = {}
    for t in steps:
        if t not in ref:
            ref[t] = standalone(net0, cells, df, t, kw, log_vars)
    first_fail = next((t for t in steps if ref[t][0] != "ok"), None)
    replay = {"spec": spec, "cells": [[a, b, c, d] for a, b, c, d, _ in cells], "profile": json.loads(df.to_json()),
              "steps": steps, "continue_on_divergence": cod, "kwargs": kw}
    n = 0
    # outcome of the loop
    exp_raise = None if (cod or first_fail is None) else "PipeflowNotConverged"
    if first_fail is not None and ref[first_fail][0] != "PipeflowNotConverged":
        exp_raise = ref[first_fail][0] if not cod else exp_raise
    if raised != exp_raise:
        ctx.violation({"kind": "ts-outcome", "continue_on_divergence": cod},
                      "run_timeseries raised %r, stand-alone calculations say %r (first failing step %r: %s)"
                      % (raised, exp_raise, first_fail, ref[first_fail][0] if first_fail is not None else "-"), replay)
        return n
    done = steps if raised is None else steps[:steps.index(first_fail) + 1]
    params = ow.output.get("Parameters")
    for t in done:
        pos = ow.time_step_lookup[t]
        st, rows = ref[t]
        failed_flag = bool(params.loc[t, "powerflow_failed"]) if params is not None and t in params.index else None
        if isinstance(failed_flag, bool) and failed_flag != (st != "ok") and raised is None:
            ctx.violation({"kind": "ts-divergence-flag"},
                          "step %d: powerflow_failed=%r but the stand-alone calculation gives %s" % (t, failed_flag, st),
                          replay)
            continue
        if st != "ok":
            n += 1
            continue
        for var, exp in rows.items():
            got = hexrow(ow.np_results[var][pos])
            n += 1
            if got != exp:
                bad = next(i for i, (x, y) in enumerate(zip(got, exp)) if x != y)
                ctx.violation({"kind": "ts-step-differs", "where": var},
                              "step %d (position %d of %r): logged %s[%d] = %s, stand-alone pipeflow on a fresh copy "
                              "with that row = %s" % (t, steps.index(t), steps, var, bad,
                                                      float.fromhex(got[bad]) if got[bad] != "nan" else "nan",
                                                      float.fromhex(exp[bad]) if exp[bad] != "nan" else "nan"), replay)
                break
    # later steps of a continued series after a failure are part of `done` and were compared above
    return n


def run(ctx):
    from harness import gen
    ctx.extra["rule"] = ("a case = (net, profile table, step list, continue_on_divergence); non-trivial iff the step "
                         "list is not sorted-complete or contains an infeasible row, and >= 2 controlled cells")
    for name, fn in GEN:
        try:
            ctx.gen(name, fn())
        except Exception as e:  # noqa: BLE001
            ctx.broken("translator", name, repr(e))
    proved = ctx.prove("C13", timeout=600)
    n_nets = 6 if ctx.quick else 60
    n_steps = 10 if ctx.quick else 24
    profs = ["water", "heat", "gas", "heat", "water", "gas"]
    rows = cases = 0
    deadline = time.time() + (100 if ctx.quick else 900)
    tried = 0
    while cases < n_nets * 4 and tried < n_nets * 3 and time.time() < deadline:
        p = profs[tried % len(profs)]
        tried += 1
        spec = gen.gen_net(ctx.rng, p)
        net0 = gen.build(spec)
        kw = {"use_numba": False}
        log_vars = LOG
        if p == "heat":
            kw["mode"] = ctx.rng.choice(["sequential", "sequential", "bidirectional", "hydraulics"])
            if kw["mode"] != "hydraulics":
                log_vars = LOG_HEAT
        if "res_pipe" and not len(net0.pipe):
            continue
        from harness import c12_hist as H
        if H.do_run(copy.deepcopy(net0), kw)[0] != "ok":
            ctx.count("base_net_not_converged")
            continue
        made = make_profile(ctx.rng, net0, p, n_steps)
        if made is None:
            continue
        cells, df, bad_rows = made
        allsteps = list(range(n_steps))
        sh = list(allsteps)
        ctx.rng.shuffle(sh)
        sub = sorted(ctx.rng.sample(allsteps, max(2, n_steps // 2)))
        sub_sh = list(sub)
        ctx.rng.shuffle(sub_sh)
        plans = [(allsteps, True), (sh, True), (sub_sh, True), (sh, False)]
        for steps, cod in plans:
            try:
                rows += one_series(ctx, p, spec, net0, cells, df, steps, cod, kw, log_vars)
            except Exception as e:  # noqa: BLE001
                import traceback
                ctx.broken("harness", "time series run", traceback.format_exc()[-800:])
                break
            cases += 1
            nontrivial = (steps != allsteps or bool(bad_rows)) and sum(len(c[2]) for c in cells) >= 2
            ctx.case({"profile": p, "net": gen.describe(spec), "cells": [[a, b, c, d] for a, b, c, d, _ in cells],
                      "steps": steps, "continue_on_divergence": cod, "infeasible_rows": sorted(bad_rows),
                      "kwargs": kw}, nontrivial)
            ctx.count("profile_" + p)
            ctx.count("cod_%s" % cod)
            ctx.count("series_with_infeasible_row", 1 if bad_rows & set(steps) else 0)
    ctx.corr("every row logged by run_timeseries == stand-alone pipeflow on a fresh copy (bit-identical); "
             "divergence flag / raised error as the stand-alone calculations predict", rows,
             len([v for v in ctx.violations]), "series %d" % cases)
    if not proved and not ctx.violations:
        ctx.note("obligation broken; the differential found no concrete input")


def replay(ctx, path):
    print("replay: rerun ./check C13 (the replay file holds spec, cells, profile, steps)")
