"""C13 - each time-series step equals a stand-alone calculation with that step's inputs (DESIGN.md 4/C13).

Model + theorems: coq/C13 (step list induction, generic in the run function `spec`, which is a pure function of
the description by C12).  T-tie: Gen/TsWiring.v (registered run function, error tuples, shape of run_loop).
Monitor / failing-input search: the real run_timeseries (pandapower DFData + ConstControl + OutputWriter) on
generated nets with profiles on sinks / sources / ext-grid pressure (/ heat-consumer duty), shuffled and subset
step lists, rows that make the net infeasible, with and without continue_on_divergence; every logged row is
compared BIT-identically with a stand-alone pipeflow on a fresh copy carrying that row's values.
"""
import copy
import json
import math
import os
import sys
import time

sys.path.insert(0, os.path.dirname(os.path.dirname(os.path.abspath(__file__))))
from translate import tswiring  # noqa: E402

CLAIM = {
    "text": "PROVED (Coq, 8 theorems, no axioms): the time-series loop as a fold over an arbitrary step list (any order, "
            "subset, repetitions): later writes overwrite earlier ones, the description at step t is U_0 with row t, every "
            "logged row equals spec(U_0[cells := row t]) (induction over the list); with continue_on_divergence every step "
            "is logged in order and later steps are unaffected, without it the loop raises at the first failing step; the "
            "same for multi-energy series with couplings as a function on input cells (multinet_step_equals_standalone); a "
            "loop shaped like pandapower's run_time_step equals the model under three stated laws of its collaborators "
            "(pandapower_loop_is_the_model); wiring table regenerated from the sources (registered run function = pipeflow, "
            "error tuples, run_loop shape, kwargs forwarding, relevant nets of a multinet). `spec` is the stand-alone "
            "pipeflow, a function of the description by C12. MONITORED (bit-identical): every row logged by the real "
            "run_timeseries (profiles on loads, pressures, duties, boolean supply / valve / pipe flags; shuffled and subset "
            "steps; infeasible rows; two supply areas) and by the multinet run_timeseries (power-led G2P, P2G, non-default "
            "solver options, a diverging step) vs stand-alone calculations.",
    "note": "All theorems closed under the global context. ASSUMED of pandapower (hypotheses of pandapower_loop_is_the_model, "
            "exercised by the monitor, not proved): (a) ConstControl.time_step writes data_source[t]*scale_factor into its "
            "cells and nothing else; (b) run_control ends with one call of the registered run function on the written "
            "description, an exception of ts_variables['errors'] -> pf_converged=False -> pf_not_converged raises errors[0] "
            "unless continue_on_divergence; (c) OutputWriter saves one row per step in call order (a failed step: flag "
            "Parameters.powerflow_failed, result row left 0.0; nothing is saved for the step at which the loop raises). "
            "Multinet couplings are assumed to read input cells only, without chains within a step.",
    "technique": "Coq proof over hand-written step model + generated wiring table + bit-identical differential",
    "design": "DESIGN.md 4/C13 + design_notes/C13.md",
}
GEN = [("TsWiring", lambda: tswiring.generate())]

LOG = [("res_junction", "p_bar"), ("res_pipe", "mdot_from_kg_per_s"), ("res_pipe", "v_mean_m_per_s"),
       ("res_ext_grid", "mdot_kg_per_s")]
LOG_HEAT = LOG + [("res_junction", "t_k"), ("res_pipe", "t_to_k")]


def hexrow(a):
    return ["nan" if math.isnan(float(x)) else float(x).hex() for x in a]


def make_profile(rng, net, profile_kind, n_steps):
    """-> (cells [(table, column, [labels], scale)], DataFrame, failing rows)"""
    import numpy as np
    import pandas as pd
    cells, cols, bad_rows = [], {}, set()
    gas = profile_kind == "gas"

    def add(table, column, labels, base, scale, lo=0.3, hi=1.6):
        names = []
        for lab, b in zip(labels, base):
            nm = "%s_%s_%s" % (table, column, lab)
            cols[nm] = [float(b) * rng.choice([lo, 0.5, 0.75, 1.0, 1.0, 1.25, hi]) for _ in range(n_steps)]
            names.append(nm)
        cells.append((table, column, [int(x) for x in labels], scale, names))
    for t in ("sink", "source"):
        if t in net and len(net[t]):
            labs = list(net[t].index)
            rng.shuffle(labs)
            labs = labs[:max(1, rng.randint(1, len(labs)))]
            add(t, "mdot_kg_per_s", labs, [net[t].at[l, "mdot_kg_per_s"] for l in labs], rng.choice([1.0, 0.5, 2.0]))
    if len(net.ext_grid) and rng.random() < 0.8:
        labs = [int(net.ext_grid.index[0])]
        add("ext_grid", "p_bar", labs, [net.ext_grid.at[labs[0], "p_bar"]], 1.0, 0.9, 1.1)
    if "heat_consumer" in net and len(net.heat_consumer) and rng.random() < 0.8:
        hc = net.heat_consumer
        labs = [int(l) for l in hc.index if not math.isnan(hc.at[l, "qext_w"])][:2]
        if labs:
            add("heat_consumer", "qext_w", labs, [hc.at[l, "qext_w"] for l in labs], 1.0, 0.6, 1.3)
    if "circ_pump_pressure" in net and len(net.circ_pump_pressure) and rng.random() < 0.5:
        labs = [int(net.circ_pump_pressure.index[0])]
        add("circ_pump_pressure", "plift_bar", labs, [net.circ_pump_pressure.at[labs[0], "plift_bar"]], 1.0, 0.8, 1.2)
    # boolean flags: supply points, valves, pipes switched by the profile (which parts are supplied changes)
    def add_flags(table, column, labels, p_true):
        names = []
        for lab in labels:
            nm = "%s_%s_%s" % (table, column, lab)
            cols[nm] = [bool(rng.random() < p_true) for _ in range(n_steps)]
            names.append(nm)
        cells.append((table, column, [int(x) for x in labels], 1.0, names))
    if len(net.ext_grid) and rng.random() < (0.75 if len(net.ext_grid) > 1 else 0.3):
        add_flags("ext_grid", "in_service", list(net.ext_grid.index), 0.65)
    for t, c, pr in (("valve", "opened", 0.35), ("pipe", "in_service", 0.35), ("circ_pump_pressure", "in_service", 0.15)):
        if t in net and len(net[t]) and rng.random() < pr:
            labs = list(net[t].index)
            rng.shuffle(labs)
            add_flags(t, c, labs[:rng.randint(1, min(2, len(labs)))], 0.7)
    if not cells:
        return None
    # infeasible rows: NaN pressure / lift, or (gas) a demand far beyond what the supply pressure can deliver
    n_bad = rng.choice([0, 1, 1, 2])
    for r in rng.sample(range(n_steps), min(n_bad, n_steps)):
        cand = [c for c in cells if c[1] in ("p_bar", "plift_bar")]
        if cand and rng.random() < 0.7:
            cols[rng.choice(cand)[4][0]][r] = float("nan")
            bad_rows.add(r)
        elif gas:
            c = next((c for c in cells if c[0] == "sink"), None)
            if c:
                cols[c[4][0]][r] = 1e3
                bad_rows.add(r)
    return cells, pd.DataFrame(cols), bad_rows


def attach(net, cells, df, steps, log_vars):
    from pandapower.timeseries import DFData, OutputWriter
    from pandapower.control import ConstControl
    for table, column, labels, scale, names in cells:
        # one homogeneous frame per controller (a mixed bool / float frame would hand object rows to ConstControl)
        ConstControl(net, element=table, variable=column, element_index=labels, data_source=DFData(df[names].copy()),
                     profile_name=names, scale_factor=scale)
    ow = OutputWriter(net, steps, output_path=None, log_variables=list(log_vars))
    return ow


def standalone(net0, cells, df, t, kw, log_vars):
    """fresh copy carrying row t -> (status, {var: hex row})"""
    import pandapipes as pp
    import numpy as np
    net = copy.deepcopy(net0)
    for table, column, labels, scale, names in cells:
        if df[names[0]].dtype == bool:
            vals = df[names].loc[t].values.astype(bool)
        else:
            vals = df[names].loc[t].values * scale               # profile[t] * scale_factor as ConstControl
        net[table].loc[labels, column] = vals
    try:
        pp.pipeflow(net, **kw)
    except Exception as e:  # noqa: BLE001
        return type(e).__name__, {}
    out = {}
    for tb, c in log_vars:
        out["%s.%s" % (tb, c)] = hexrow(net[tb][c].values)
    return "ok", out


def one_series(ctx, p, spec, net0, cells, df, steps, cod, kw, log_vars):
    """run the real time series; compare every logged row -> number of compared rows"""
    from pandapipes.timeseries import run_timeseries
    from harness import gen
    net = copy.deepcopy(net0)
    ow = attach(net, cells, df, steps, log_vars)
    raised = None
    try:
        run_timeseries(net, steps, continue_on_divergence=cod, verbose=False, **kw)
    except Exception as e:  # noqa: BLE001
        raised = type(e).__name__
    ref = {}
    for t in steps:
        if t not in ref:
            ref[t] = standalone(net0, cells, df, t, kw, log_vars)
    first_fail = next((t for t in steps if ref[t][0] != "ok"), None)
    replay = {"spec": spec, "cells": [[a, b, c, d] for a, b, c, d, _ in cells], "profile": json.loads(df.to_json()),
              "steps": steps, "continue_on_divergence": cod, "kwargs": kw}
    n = 0
    # outcome of the loop
    exp_raise = None if (cod or first_fail is None) else "PipeflowNotConverged"
    if first_fail is not None and ref[first_fail][0] != "PipeflowNotConverged":
        exp_raise = ref[first_fail][0] if not cod else exp_raise
    if raised != exp_raise:
        ctx.violation({"kind": "ts-outcome", "continue_on_divergence": cod},
                      "run_timeseries raised %r, stand-alone calculations say %r (first failing step %r: %s)"
                      % (raised, exp_raise, first_fail, ref[first_fail][0] if first_fail is not None else "-"), replay)
        return n
    done = steps if raised is None else steps[:steps.index(first_fail) + 1]
    params = ow.output.get("Parameters")
    for t in done:
        pos = ow.time_step_lookup[t]
        st, rows = ref[t]
        failed_flag = bool(params.loc[t, "powerflow_failed"]) if params is not None and t in params.index else None
        if isinstance(failed_flag, bool) and failed_flag != (st != "ok") and raised is None:
            ctx.violation({"kind": "ts-divergence-flag"},
                          "step %d: powerflow_failed=%r but the stand-alone calculation gives %s" % (t, failed_flag, st),
                          replay)
            continue
        if st != "ok":
            n += 1
            continue
        for var, exp in rows.items():
            got = hexrow(ow.np_results[var][pos])
            n += 1
            if got != exp:
                bad = next(i for i, (x, y) in enumerate(zip(got, exp)) if x != y)
                ctx.violation({"kind": "ts-step-differs", "where": var},
                              "step %d (position %d of %r): logged %s[%d] = %s, stand-alone pipeflow on a fresh copy "
                              "with that row = %s" % (t, steps.index(t), steps, var, bad,
                                                      float.fromhex(got[bad]) if got[bad] != "nan" else "nan",
                                                      float.fromhex(exp[bad]) if exp[bad] != "nan" else "nan"), replay)
                break
    # later steps of a continued series after a failure are part of `done` and were compared above
    return n


# ------------------------------------------------------------------------------------------ multi-energy series
def build_power(rng):
    import pandapower as ppw
    net = ppw.create_empty_network()
    b = [ppw.create_bus(net, vn_kv=20.) for _ in range(4)]
    ppw.create_ext_grid(net, b[0])
    for x, y, l in ((0, 1, 4.), (1, 2, 3.), (1, 3, 2.)):
        ppw.create_line(net, b[x], b[y], l, "NA2XS2Y 1x240 RM/25 12/20 kV")
    ppw.create_load(net, b[1], p_mw=rng.choice([2., 4.]))
    ppw.create_load(net, b[3], p_mw=1.0, name="power to gas consumption")
    ppw.create_sgen(net, b[2], p_mw=0.5, name="gas to power feed in", scaling=rng.choice([1.0, 0.5]))
    return net


def multinet_series(ctx, n_nets, n_steps):
    """power-led gas-to-power + power-to-gas coupling in a pandapipes.multinet time series: every logged row of the
    gas net bit-identical (power net: rtol 1e-8, pandapower warm start) to stand-alone calculations on fresh nets
    carrying the row's values and the gas flows that follow from them (the controllers' own formulas)"""
    import numpy as np
    import pandas as pd
    import pandapower as ppw
    import pandapipes as pp
    from harness import gen, c12_hist as H
    from pandapower.timeseries import DFData, OutputWriter
    from pandapower.control import ConstControl
    from pandapipes.multinet.control.controller.multinet_control import coupled_g2p_const_control, \
        coupled_p2g_const_control
    from pandapipes.multinet.create_multinet import create_empty_multinet, add_nets_to_multinet
    from pandapipes.multinet.timeseries.run_time_series_multinet import run_timeseries as run_ts_mn
    rows = series = tried = 0
    gas_log = [("res_junction", "p_bar"), ("res_sink", "mdot_kg_per_s"), ("res_source", "mdot_kg_per_s"),
               ("res_ext_grid", "mdot_kg_per_s")]
    while series < n_nets and tried < 4 * n_nets:
        tried += 1
        spec = gen.gen_net(ctx.rng, "gas", features={"fluid": ctx.rng.choice(["hgas", "lgas"])})
        gas0 = gen.build(spec)
        if len(gas0.sink) < 1 or not len(gas0.pipe):
            continue
        pp.set_user_pf_options(gas0, use_numba=False)
        src_j = int(ctx.rng.choice(list(gas0.junction.index[gas0.junction.in_service])))
        p2g_src = int(pp.create_source(gas0, src_j, 0.0, name="power to gas feed in"))
        # result-changing, non-default solver options given to the multinet run: they must reach every calculation
        opts = ctx.rng.choice([{"friction_model": "colebrook"}, {"friction_model": "swamee-jain"},
                               {"tol_m": 1e-9, "tol_p": 1e-9, "tol_res": 1e-8, "max_iter_hyd": 40},
                               {"friction_model": "colebrook", "tol_m": 1e-8, "max_iter_hyd": 40}])
        if H.do_run(copy.deepcopy(gas0), opts)[0] != "ok":
            continue
        base_default, base_opts = copy.deepcopy(gas0), copy.deepcopy(gas0)
        H.do_run(base_default, {})
        H.do_run(base_opts, opts)
        if hexrow(base_default.res_junction.p_bar.values) == hexrow(base_opts.res_junction.p_bar.values):
            ctx.count("multinet_options_without_visible_effect")
        power0 = build_power(ctx.rng)
        hhv = pp.get_fluid(gas0).get_property("hhv")
        eff_g2p, eff_p2g = ctx.rng.choice([0.4, 0.5, 0.6]), ctx.rng.choice([0.6, 0.7])
        # the coupled sink must matter: in service, at a junction that is calculated
        import numpy as _np
        sinks = [int(i) for i in gas0.sink.index if bool(gas0.sink.at[i, "in_service"]) and
                 not _np.isnan(base_opts.res_junction.p_bar.at[gas0.sink.at[i, "junction"]])]
        if not sinks:
            continue
        g2p_sink = ctx.rng.choice(sinks)
        base_m = float(gas0.sink.at[g2p_sink, "mdot_kg_per_s"]) or 0.01
        k2m = hhv * 3600 / 1e3
        prof = pd.DataFrame({
            "g2p_p_mw": [base_m * k2m * eff_g2p * ctx.rng.choice([0.25, 0.5, 1.0, 1.5, 2.0]) for _ in range(n_steps)],
            "p2g_p_mw": [base_m * k2m * ctx.rng.choice([0.0, 0.3, 0.6, 1.0]) for _ in range(n_steps)],
            "load_p_mw": [ctx.rng.choice([1.0, 2.0, 3.5]) for _ in range(n_steps)]})
        other = [i for i in sinks if i != g2p_sink]
        if other:
            prof["sink_m"] = [float(gas0.sink.at[other[0], "mdot_kg_per_s"]) * ctx.rng.choice([0.5, 1.0, 1.5])
                              for _ in range(n_steps)]
        steps = list(range(n_steps))
        ctx.rng.shuffle(steps)
        steps = steps[:max(3, n_steps - ctx.rng.randint(0, 3))]
        # every second series contains a step that makes the gas net infeasible (NaN supply pressure) and is run with
        # continue_on_divergence: the step must be flagged, the other steps unaffected
        diverging = series % 2 == 1
        eg0 = int(gas0.ext_grid.index[0])
        if diverging:
            prof["eg_p"] = [float(gas0.ext_grid.at[eg0, "p_bar"])] * n_steps
            prof.loc[steps[len(steps) // 2], "eg_p"] = float("nan")
        gas, power = copy.deepcopy(gas0), copy.deepcopy(power0)
        mn = create_empty_multinet("c13")
        # both orders of the member nets occur (with and without a diverging step)
        gas_first = (series // 2) % 2 == 1
        if gas_first:
            add_nets_to_multinet(mn, gas=gas, power=power)
        else:
            add_nets_to_multinet(mn, power=power, gas=gas)
        ds = DFData(prof)
        # which couplings are present: the gas net may or may not have another controller that touches it
        variant = ["g2p", "g2p+p2g", "g2p+p2g+sink", "p2g"][series % 4]      # by completed series: every variant occurs
        if "sink" not in variant:
            other = []
        if "g2p" in variant:
            coupled_g2p_const_control(mn, 0, g2p_sink, g2p_efficiency=eff_g2p, power_led=True,
                                      profile_name="g2p_p_mw", data_source=ds)
        if "p2g" in variant:
            coupled_p2g_const_control(mn, 1, p2g_src, p2g_efficiency=eff_p2g, profile_name="p2g_p_mw", data_source=ds)
        ConstControl(power, "load", "p_mw", 0, profile_name="load_p_mw", data_source=ds)
        if diverging:
            ConstControl(gas, "ext_grid", "p_bar", eg0, profile_name="eg_p", data_source=ds)
        if other:
            ConstControl(gas, "sink", "mdot_kg_per_s", other[0], profile_name="sink_m", data_source=ds)
        ow_g = OutputWriter(gas, steps, output_path=None, log_variables=list(gas_log))
        ow_p = OutputWriter(power, steps, output_path=None, log_variables=[("res_bus", "vm_pu"), ("res_sgen", "p_mw")])
        replay = {"gas_spec": spec, "variant": variant, "options": opts, "diverging": diverging, "gas_first": gas_first, "p2g_source_junction": src_j, "g2p_sink": g2p_sink, "eff": [eff_g2p, eff_p2g],
                  "profile": json.loads(prof.to_json()), "steps": steps}
        # stand-alone calculations first: fresh nets carrying the row and the gas flows that follow from it
        refs, feasible = {}, True
        for t in steps:
            g, pw = copy.deepcopy(gas0), copy.deepcopy(power0)
            pw.load.at[0, "p_mw"] = prof.at[t, "load_p_mw"] * 1.0
            if other:
                g.sink.at[other[0], "mdot_kg_per_s"] = prof.at[t, "sink_m"] * 1.0
            # G2PControlMultiEnergy (power led) / P2GControlMultiEnergy control_step
            if "g2p" in variant:
                pw.sgen.at[0, "p_mw"] = prof.at[t, "g2p_p_mw"] * 1.0
                g.sink.at[g2p_sink, "mdot_kg_per_s"] = (pw.sgen.at[0, "p_mw"] * pw.sgen.at[0, "scaling"]) / \
                    ((hhv * 3600 / 1e3) * eff_g2p)
            if "p2g" in variant:
                pw.load.at[1, "p_mw"] = prof.at[t, "p2g_p_mw"] * 1.0
                g.source.at[p2g_src, "mdot_kg_per_s"] = (pw.load.at[1, "p_mw"] * pw.load.at[1, "scaling"]) * \
                    (1e3 / (hhv * 3600)) * eff_p2g
            if diverging:
                g.ext_grid.at[eg0, "p_bar"] = prof.at[t, "eg_p"] * 1.0
            if H.do_run(g, opts)[0] != "ok":
                if diverging and prof.at[t, "eg_p"] != prof.at[t, "eg_p"]:
                    refs[t] = None                      # the intended diverging step
                    continue
                feasible = False
                break
            ppw.runpp(pw)
            refs[t] = (g, pw)
        if not feasible:
            ctx.count("multinet_profile_infeasible")
            continue
        try:
            run_ts_mn(mn, steps, continue_on_divergence=diverging, verbose=False, **opts)
        except Exception as e:  # noqa: BLE001
            ctx.violation({"kind": "multinet-ts-outcome", "diverging": diverging, "raised": type(e).__name__},
                          "multinet run_timeseries(continue_on_divergence=%r) raised %s: %s %s"
                          % (diverging, type(e).__name__, str(e)[:100],
                             "- a diverging step must be flagged and the series continued" if diverging else
                             "although every step converges stand-alone"), replay)
            series += 1
            continue
        series += 1
        ok = True
        par = ow_g.output.get("Parameters")
        par_p = ow_p.output.get("Parameters")
        for t in steps:
            # the verdict of a step is step-wide (model: mloop logs None for the step iff the stand-alone calculation
            # of ANY member net fails): every member net's output writer must carry the same failed / valid flag
            for nm, pr_ in (("gas", par), ("power", par_p)):
                flag = bool(pr_.loc[t, "powerflow_failed"]) if pr_ is not None and t in pr_.index else None
                if isinstance(flag, bool) and flag != (refs[t] is None) and ok:
                    ok = False
                    ctx.violation({"kind": "multinet-ts-divergence-flag", "net": nm},
                                  "multinet time series (nets in order %s), step %d: %s net logs powerflow_failed=%r but "
                                  "the stand-alone calculation of the coupled nets %s"
                                  % ("gas, power" if gas_first else "power, gas", t, nm, flag,
                                     "fails (gas net infeasible)" if refs[t] is None else "converges"), replay)
            if refs[t] is None:
                rows += 1
                ctx.count("multinet_diverging_steps")
                continue
            g, pw = refs[t]
            pos = ow_g.time_step_lookup[t]
            for tb, c in gas_log:
                var = "%s.%s" % (tb, c)
                got, exp = hexrow(ow_g.np_results[var][pos]), hexrow(g[tb][c].values)
                rows += 1
                if got != exp and ok:
                    ok = False
                    bad = next(i for i, (x, y) in enumerate(zip(got, exp)) if x != y)
                    ctx.violation({"kind": "multinet-ts-step-differs", "where": var},
                                  "multinet time series with options %r, step %d (position %d of %r): logged %s[%d] = %r, "
                                  "stand-alone calculation of the coupled nets with that row and the same options = %r"
                                  % (opts, t, steps.index(t), steps, var, bad, float(ow_g.np_results[var][pos][bad]),
                                     float(g[tb][c].values[bad])), replay)
            vm = ow_p.np_results["res_bus.vm_pu"][ow_p.time_step_lookup[t]]
            rows += 1
            if not np.allclose(vm, pw.res_bus.vm_pu.values, rtol=1e-8, atol=1e-10) and ok:
                ok = False
                ctx.violation({"kind": "multinet-ts-step-differs", "where": "res_bus.vm_pu"},
                              "multinet time series, step %d: logged bus voltages %r, stand-alone %r"
                              % (t, vm.tolist(), pw.res_bus.vm_pu.values.tolist()), replay)
        ctx.case({"kind": "multinet", "variant": variant, "options": opts, "gas": gen.describe(spec), "steps": steps,
                  "eff": [eff_g2p, eff_p2g]}, True)
        ctx.count("multinet_" + variant)
        ctx.count("multinet_gas_first" if gas_first else "multinet_power_first")
        ctx.count("multinet_series")
    return rows, series


def run(ctx):
    from harness import gen
    ctx.extra["rule"] = ("a case = (net, profile table, step list, continue_on_divergence); non-trivial iff the step "
                         "list is not sorted-complete or contains an infeasible row, and >= 2 controlled cells")
    for name, fn in GEN:
        try:
            ctx.gen(name, fn())
        except Exception as e:  # noqa: BLE001
            ctx.broken("translator", name, repr(e))
    proved = ctx.prove("C13", timeout=600)
    n_nets = 6 if ctx.quick else 60
    n_steps = 10 if ctx.quick else 24
    profs = ["water", "heat", "gas", "heat", "water", "gas"]
    rows = cases = 0
    deadline = time.time() + (100 if ctx.quick else 900)
    tried = 0
    while cases < n_nets * 4 and tried < n_nets * 3 and time.time() < deadline:
        p = profs[tried % len(profs)]
        tried += 1
        two_areas = p != "heat" and ctx.rng.random() < 0.6
        spec = gen.gen_net(ctx.rng, p, features={"island": True} if two_areas else None)
        net0 = gen.build(spec)
        kw = {"use_numba": False}
        if two_areas:
            from harness import c12_hist as H0
            spec, changed = H0.with_second_supply_area(spec, ctx.rng, kw)
            if changed:
                net0 = gen.build(spec)
                ctx.count("two_supply_areas")
        log_vars = LOG
        if p == "heat":
            kw["mode"] = ctx.rng.choice(["sequential", "sequential", "bidirectional", "hydraulics"])
            if kw["mode"] != "hydraulics":
                log_vars = LOG_HEAT
        if "res_pipe" and not len(net0.pipe):
            continue
        from harness import c12_hist as H
        if H.do_run(copy.deepcopy(net0), kw)[0] != "ok":
            ctx.count("base_net_not_converged")
            continue
        made = make_profile(ctx.rng, net0, p, n_steps)
        if made is None:
            continue
        cells, df, bad_rows = made
        allsteps = list(range(n_steps))
        sh = list(allsteps)
        ctx.rng.shuffle(sh)
        sub = sorted(ctx.rng.sample(allsteps, max(2, n_steps // 2)))
        sub_sh = list(sub)
        ctx.rng.shuffle(sub_sh)
        plans = [(allsteps, True), (sh, True), (sub_sh, True), (sh, False)]
        for steps, cod in plans:
            try:
                rows += one_series(ctx, p, spec, net0, cells, df, steps, cod, kw, log_vars)
            except Exception as e:  # noqa: BLE001
                import traceback
                ctx.broken("harness", "time series run", traceback.format_exc()[-800:])
                break
            cases += 1
            nontrivial = (steps != allsteps or bool(bad_rows)) and sum(len(c[2]) for c in cells) >= 2
            ctx.case({"profile": p, "net": gen.describe(spec), "cells": [[a, b, c, d] for a, b, c, d, _ in cells],
                      "steps": steps, "continue_on_divergence": cod, "infeasible_rows": sorted(bad_rows),
                      "kwargs": kw}, nontrivial)
            ctx.count("profile_" + p)
            ctx.count("cod_%s" % cod)
            ctx.count("series_with_infeasible_row", 1 if bad_rows & set(steps) else 0)
    n_v = len(ctx.violations)
    ctx.corr("every row logged by run_timeseries == stand-alone pipeflow on a fresh copy (bit-identical); "
             "divergence flag / raised error as the stand-alone calculations predict", rows, n_v, "series %d" % cases)
    try:
        mrows, mseries = multinet_series(ctx, 4 if ctx.quick else 25, 6 if ctx.quick else 12)
        ctx.corr("multi-energy time series (power-led G2P + P2G): every logged gas row == stand-alone coupled "
                 "calculation (bit-identical), bus voltages rtol 1e-8", mrows, len(ctx.violations) - n_v,
                 "series %d" % mseries)
    except Exception:  # noqa: BLE001
        import traceback
        ctx.broken("harness", "multinet time series", traceback.format_exc()[-900:])
    if not proved and not ctx.violations:
        ctx.note("obligation broken; the differential found no concrete input")


def replay(ctx, path):
    print("replay: rerun ./check C13 (the replay file holds spec, cells, profile, steps)")
