"""C08 - the solution is independent of initial guesses and of the damping strategy.

Theorems (coq/C08): uniqueness of the exact hydraulic solution for strictly increasing branch laws on
any graph (flows, and pressures at every junction reachable from a pressure-fixing one);
start values flow only into the slots of the unknowns (generated from the source, T-tie);
kernel monotonicity facts are added from the generated kernels when available (see design_notes/C08.md).
Monitors / failing-input search: real nets re-run with perturbed pn_bar (hydraulics), perturbed
tfluid_k (bidirectional), and both damping strategies; all converged runs must agree.
"""
import copy
import os
import sys

import numpy as np

sys.path.insert(0, os.path.dirname(os.path.dirname(os.path.abspath(__file__))))
from translate import startvalues, kernels, c09_kernels  # noqa: E402
from harness import gen, drive  # noqa: E402

CLAIM = {
    "text": "Unbounded graph theorem over the reals: for any network graph (meshes, parallel branches, several "
            "pressure-fixing nodes) and any strictly increasing branch laws, two exact solutions of node balance + "
            "branch law have equal flows and equal pressures at every supplied junction - so what a converged run "
            "returns cannot depend on the start values or on the damping path. Tied to the code by generated facts "
            "(start-value columns only seed PINIT/TINIT; the incompressible Nikuradse branch law is strictly "
            "increasing in m) and by a differential monitor over perturbed start values and both damping strategies.",
    "note": "Partial: uniqueness is exact-solution mathematics; the distance between two approximately converged "
            "iterates is observed by the monitor (bound 1e-6 with solver tolerances 1e-9), not proved. Monotonicity is "
            "proved for the incompressible law; for the gas law and colebrook / swamee-jain friction it is a hypothesis "
            "of the theorem. Thermal start values (tfluid_k) are covered by the generated flow fact and the monitor only. "
            "Axioms (Coq reals): ClassicalDedekindReals.sig_forall_dec, FunctionalExtensionality.functional_extensionality_dep.",
    "technique": "Coq proof (graph uniqueness theorem over R) + generated source facts + differential monitor",
    "design": "DESIGN.md 4/C08 + design_notes/C08.md",
}
GEN = [("StartValueUses", startvalues.generate)] + kernels.gen_entries(["KHydIncompNp", "KHydIncompNb"]) + \
    [("KCalcLambda", c09_kernels.generate)]

TIGHT = dict(tol_p=1e-9, tol_m=1e-9, tol_res=1e-6, iter=200)


PRIMARY = ("p_bar", "p_from_bar", "p_to_bar", "t_k", "t_from_k", "t_to_k", "t_outlet_k", "mdot_kg_per_s",
           "mdot_from_kg_per_s", "mdot_to_kg_per_s", "mdot_flow_kg_per_s")


def compare(a, b, atol, rtol, zero_res_valves=()):
    """Only the primary unknowns (pressures, mass flows, temperatures) are compared, with an absolute bound
    derived from the convergence test: a run is accepted when its last Newton step changed every unknown by
    <= tol, so two converged runs differ by at most a small multiple of tol in p, m and T. Derived quantities
    (v, Re, lambda, ...) are functions of these and scale the error by 1/|m|; they are not compared."""
    def prim(s):
        out = {}
        for t, v in s.items():
            cols = {c: list(x) for c, x in v["cols"].items() if c in PRIMARY}
            if t == "res_valve" and zero_res_valves:
                # a valve without loss coefficient has phi = 0 (outside the uniqueness theorem): the split of the
                # flow between two such valves in one mesh is undetermined; their own flow is not compared
                for c in cols:
                    if c.startswith("mdot"):
                        cols[c] = [None if i in zero_res_valves else x for i, x in zip(v["index"], cols[c])]
            out[t] = {"index": v["index"], "cols": cols}
        return out
    return drive.same_results(prim(a), prim(b), rtol=rtol, atol=atol)


def perturb_spec(spec, rng, col, lo, hi):
    s = copy.deepcopy(spec)
    for fn, kw in s["ops"]:
        if fn == "create_junction":
            kw[col] = float(kw[col]) * rng.uniform(lo, hi)
    return s


def run_variant(spec, **kw):
    net = gen.build(spec)
    st, msg = drive.run(net, **kw)
    return st, (drive.snapshot_results(net) if st == "ok" else None)


def run(ctx):
    ctx.extra["rule"] = ("generated water / gas / heat networks (tools/harness/gen.py); each is re-run with 3 random "
                         "start-value assignments (pn_bar x U(0.4,2.5) per junction in hydraulics; tfluid_k x U(0.9,1.1) "
                         "in bidirectional mode) and with nonlinear_method automatic vs constant; a case = (net, variant); "
                         "non-trivial = both runs converged and the net has a mesh, parallel branch, pump/compressor, "
                         "controller or more than one pressure-fixing element")
    for name, fn in GEN:
        try:
            ctx.gen(name, fn())
        except Exception as e:
            ctx.broken("translator", name, repr(e))
    proved = ctx.prove("C08")
    n_nets = 24 if ctx.quick else 400
    rng = ctx.rng
    nconv = 0
    for k in range(n_nets):
        profile = rng.choice(["water", "water", "gas", "heat"])
        spec = gen.gen_net(rng, profile)
        d = gen.describe(spec)
        rich = d["counts"].get("pipe", 0) >= d["junctions"] or any(
            c in d["counts"] for c in ("pump", "compressor", "flow_control", "pressure_control", "valve")) \
            or d["counts"].get("ext_grid", 0) > 1
        if profile == "heat":
            base_kw = dict(mode="bidirectional", tol_T=1e-7, use_numba=False, **TIGHT)
            col, lo, hi, atol = "tfluid_k", 0.9, 1.1, 1e-5
        else:
            base_kw = dict(mode="hydraulics", use_numba=False, **TIGHT)
            col, lo, hi, atol = "pn_bar", 0.4, 2.5, 1e-7
        zrv = {kw["index"] for fn, kw in spec["ops"] if fn == "create_valve" and not kw.get("loss_coefficient", 0)}
        st0, r0 = run_variant(spec, **base_kw)
        ctx.count("base_" + profile + "_" + st0)
        if st0 != "ok":
            continue
        variants = [("start_%d" % i, perturb_spec(spec, rng, col, lo, hi), base_kw) for i in range(3)]
        variants.append(("automatic_damping", spec, dict(base_kw, nonlinear_method="automatic")))
        variants.append(("automatic_damping_start", perturb_spec(spec, rng, col, lo, hi),
                         dict(base_kw, nonlinear_method="automatic")))
        for name, vs, kw in variants:
            st, r = run_variant(vs, **kw)
            ctx.count("variant_" + st)
            both = st == "ok"
            ctx.case({"profile": profile, "variant": name, "net": d, "status": st}, both and rich,
                     key="%d:%s:%s" % (k, name, gen.spec_key(vs)[:64]))
            if not both:
                continue
            nconv += 1
            diffs = compare(r0, r, atol=atol, rtol=1e-9, zero_res_valves=zrv)
            if diffs:
                ctx.violation({"clause": "start_value_or_damping_independence", "variant": name.split("_")[0],
                               "profile": profile},
                              "two converged runs of the same physical network disagree: %s %s (first of %d)"
                              % (diffs[0][0], diffs[0][1], len(diffs)),
                              {"spec": spec, "variant_spec": vs, "base_options": base_kw, "variant_options": kw,
                               "diffs": diffs[:10]})
    ctx.extra["converged_variant_pairs"] = nconv
    if nconv == 0:
        ctx.broken("monitor", "no converged variant pair", "generator produced no usable case")
