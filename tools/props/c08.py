"""C08 - the solution is independent of initial guesses and of the damping strategy.

Theorems (coq/C08): uniqueness of the exact hydraulic solution for strictly increasing branch laws on
any graph (flows, and pressures at every junction reachable from a pressure-fixing one);
start values flow only into the slots of the unknowns (generated from the source, T-tie);
kernel monotonicity facts are added from the generated kernels when available (see design_notes/C08.md).
Monitors / failing-input search: real nets re-run with perturbed pn_bar (hydraulics), perturbed
tfluid_k (bidirectional), and both damping strategies; all converged runs must agree.
"""
import copy
import os
import sys

import numpy as np

sys.path.insert(0, os.path.dirname(os.path.dirname(os.path.abspath(__file__))))
from translate import startvalues, kernels, c09_kernels, heat  # noqa: E402
from harness import gen, drive  # noqa: E402
from harness import c01_help  # noqa: E402  (augment: pressure controllers, several ext grids per junction)

CLAIM = {
    "text": "Unbounded graph theorem over the reals: for any network graph (meshes, parallel branches, several "
            "pressure-fixing nodes) and any strictly increasing branch laws, two exact solutions of node balance + "
            "branch law have equal flows and equal pressures at every supplied junction - so what a converged run "
            "returns cannot depend on the start values or on the damping path. Tied to the code by generated facts "
            "(start-value columns only seed PINIT/TINIT; the incompressible Nikuradse branch law is strictly "
            "increasing in m) and by a differential monitor over perturbed start values and both damping strategies.",
    "note": "The damping clause is a theorem over C05's Newton-driver model (both strategies accept an iteration only through the same tolerance test; automatic only undamped). Partial: uniqueness is exact-solution mathematics; the distance between two approximately converged "
            "iterates is observed by the monitor (bound 1e-6 with solver tolerances 1e-9), not proved. Monotonicity is "
            "proved for the incompressible Nikuradse law and, in squared absolute pressures, for the isothermal "
            "constant-K level-pipe gas law (generated kernels); with pressure-dependent K, height terms for gases and "
            "colebrook / swamee-jain friction it is a hypothesis of the theorem. Thermal start values (tfluid_k): two fixed points of the thermal system assembled from the generated kernels (C10's pipeline model, tied to build_system_matrix by C10's correspondence) for the same hydraulic solution coincide when the heat capacity is temperature-independent, every branch flows (circulation pumps admitted as identity rows with their boundary outlet temperature; for passive level networks the flow graph is proved acyclic from the hydraulic solution) and every node is downstream of an infeed node (PropsThermal.v, PropsThermalPumps.v, PropsAcyclic.v, on the maximum principle); a residual eps in the law c m|m| + c1 m pins a flow only to sqrt(2 eps / c) (PropsSensitivity.v, the derivation of the stalled-flow allowance of the monitor); stagnant regions and temperature-dependent c_p are outside the theorem (the open stagnant-region findings live exactly there) and are covered by the monitor only. "
            "Axioms (Coq reals and their classical base): ClassicalDedekindReals.sig_forall_dec, ClassicalDedekindReals.sig_not_dec, FunctionalExtensionality.functional_extensionality_dep, Classical_Prop.classic.",
    "technique": "Coq proof (graph uniqueness theorem over R) + generated source facts + differential monitor",
    "design": "DESIGN.md 4/C08 + design_notes/C08.md",
}
GEN = [("StartValueUses", startvalues.generate)] + kernels.gen_entries(["KHydIncompNp", "KHydIncompNb", "KHydCompNp", "KHydCompNb"]) + \
    [("KCalcLambda", c09_kernels.generate)] + \
    kernels.gen_entries(["KThermNp", "KThermNb"]) + [("KThermExpr", heat.gen_thermexpr), ("KHooksHeat", heat.gen_hooks)]

CRASHES = ("IndexError", "KeyError", "ValueError", "TypeError", "AttributeError", "ZeroDivisionError")
TIGHT = dict(tol_p=1e-9, tol_m=1e-9, tol_res=1e-6, iter=200)


PRIMARY = ("p_bar", "p_from_bar", "p_to_bar", "t_k", "t_from_k", "t_to_k", "t_outlet_k", "mdot_kg_per_s",
           "mdot_from_kg_per_s", "mdot_to_kg_per_s", "mdot_flow_kg_per_s")


def compare(a, b, atol, rtol, zero_res_valves=()):
    """Only the primary unknowns (pressures, mass flows, temperatures) are compared, with an absolute bound
    derived from the convergence test: a run is accepted when its last Newton step changed every unknown by
    <= tol, so two converged runs differ by at most a small multiple of tol in p, m and T. Derived quantities
    (v, Re, lambda, ...) are functions of these and scale the error by 1/|m|; they are not compared."""
    def prim(s):
        out = {}
        for t, v in s.items():
            cols = {c: list(x) for c, x in v["cols"].items() if c in PRIMARY}
            if t == "res_valve" and zero_res_valves:
                # a valve without loss coefficient has phi = 0 (outside the uniqueness theorem): the split of the
                # flow between two such valves in one mesh is undetermined; their own flow is not compared
                for c in cols:
                    if c.startswith("mdot"):
                        cols[c] = [None if i in zero_res_valves else x for i, x in zip(v["index"], cols[c])]
            out[t] = {"index": v["index"], "cols": cols}
        return out
    diffs = drive.same_results(prim(a), prim(b), rtol=rtol, atol=atol)
    if not diffs:
        return diffs
    # Near m = 0 the branch law m|m| has a double root: the convergence test bounds the pressure residual, which
    # determines a nearly stagnant flow only to ~sqrt(tol): such "stalled" flows (|m| < 1e-5 kg/s in both runs) may
    # differ by their own size, and every other mass flow by at most their sum (continuity).  Derived allowance on the
    # mass-flow columns: atol + 4 * (sum of stalled flows); pressures and temperatures keep the plain bound.
    stall = 0.0
    for t, v in a.items():
        ca, cb = v["cols"].get("mdot_from_kg_per_s"), b.get(t, {}).get("cols", {}).get("mdot_from_kg_per_s")
        if ca is None or cb is None or len(ca) != len(cb):
            continue
        for x, y in zip(ca, cb):
            if x is not None and y is not None and max(abs(x), abs(y)) < 1e-5:
                stall += max(abs(x), abs(y))
    if stall == 0.0:
        return diffs
    kept = []
    for tbl, msg in diffs:
        col = msg.split("[")[0]
        if col.startswith("mdot"):
            try:
                x, y = (float(z) for z in msg.split(": ", 1)[1].split(" vs "))
                if abs(x - y) <= atol + 4 * stall:
                    continue
            except ValueError:
                pass
        kept.append((tbl, msg))
    return kept


def perturb_spec(spec, rng, col, lo, hi):
    s = copy.deepcopy(spec)
    for fn, kw in s["ops"]:
        if fn == "create_junction":
            kw[col] = float(kw[col]) * rng.uniform(lo, hi)
    return s


def lowflow_mesh(rng):
    """hilly low-flow water mesh with parallel mains and a dead-end stub behind an open valve: the regime in which
    automatic damping really rejects steps (none of the ordinary generated nets does)"""
    n = rng.randint(5, 8)
    ops = []
    for i in range(n):
        ops.append(["create_junction", {"pn_bar": 16.0, "tfluid_k": 293.15, "height_m": rng.choice([30., 0., 0., 0., -20., 10.]),
                                        "index": i}])
    ops.append(["create_ext_grid", {"junction": 0, "p_bar": 16.0, "t_k": 293.15, "type": "pt", "index": 0}])
    k = 0
    for i in range(1, n):
        a = rng.randrange(0, i)
        ops.append(["create_pipe_from_parameters", {"from_junction": a, "to_junction": i, "length_km": rng.uniform(0.1, 2.0),
                                                    "inner_diameter_mm": rng.choice([25., 100., 200.]), "k_mm": 0.1, "index": k}])
        k += 1
    for _ in range(rng.randint(1, 3)):          # parallel mains / meshes
        fn, kw = rng.choice([o for o in ops if o[0] == "create_pipe_from_parameters"])
        a, c = (kw["from_junction"], kw["to_junction"]) if rng.random() < 0.6 else rng.sample(range(n), 2)
        ops.append(["create_pipe_from_parameters", {"from_junction": a, "to_junction": c, "length_km": rng.uniform(0.1, 2.0),
                                                    "inner_diameter_mm": rng.choice([100., 200.]), "k_mm": 0.1, "index": k}])
        k += 1
    for j in rng.sample(range(1, n), rng.randint(2, min(4, n - 1))):
        ops.append(["create_sink", {"junction": j, "mdot_kg_per_s": rng.uniform(0.01, 0.04), "index": j}])
    # dead-end stub: open valve to a junction without consumption (no flow, zero length)
    ops.append(["create_junction", {"pn_bar": 16.0, "tfluid_k": 293.15, "height_m": 0., "index": n}])
    ops.append(["create_valve", {"junction": rng.randrange(0, n), "element": n, "et": "ju", "inner_diameter_mm": 50.,
                                 "opened": True, "loss_coefficient": 0.5, "index": 0}])
    return {"fluid": "water", "ops": ops}


def stagnant_classes(spec, res_a, res_b, diffs):
    """Where do two converged runs differ?  A branch is stagnant if |mdot| < 1e-7 in both runs.  Returns
    "stagnant_loop" if every difference sits in a stagnant region that contains a cycle of stagnant branches
    (temperatures there are not determined by any inflow), "stagnant_tree" if all sit in stagnant regions without
    cycle, else "flowing"."""
    branch_ops = {"create_pipe_from_parameters": ("res_pipe", "from_junction", "to_junction"),
                  "create_valve": ("res_valve", "junction", "element"),
                  "create_flow_control": ("res_flow_control", "from_junction", "to_junction"),
                  "create_heat_exchanger": ("res_heat_exchanger", "from_junction", "to_junction"),
                  "create_heat_consumer": ("res_heat_consumer", "from_junction", "to_junction"),
                  "create_pump": ("res_pump", "from_junction", "to_junction"),
                  "create_compressor": ("res_compressor", "from_junction", "to_junction")}

    def mdot(res, tbl, idx):
        t = res.get(tbl)
        if not t or idx not in t["index"]:
            return None
        col = t["cols"].get("mdot_from_kg_per_s")
        return None if col is None else col[t["index"].index(idx)]
    stag = []        # (table, idx, a, b)
    for fn, kw in spec["ops"]:
        if fn in branch_ops and not (fn == "create_valve" and kw.get("et") == "pi"):
            tbl, fa, fb = branch_ops[fn]
            ma, mb = mdot(res_a, tbl, kw["index"]), mdot(res_b, tbl, kw["index"])
            if ma is not None and mb is not None and abs(ma) < 1e-7 and abs(mb) < 1e-7:
                stag.append((tbl, kw["index"], kw[fa], kw[fb]))
    # components of the stagnant subgraph
    comp = {}
    def find(x):
        while comp.setdefault(x, x) != x:
            x = comp[x]
        return x
    for _, _, a, b in stag:
        comp[find(a)] = find(b)
    edges, nodes = {}, {}
    for _, _, a, b in stag:
        r = find(a)
        edges[r] = edges.get(r, 0) + 1
    for x in list(comp):
        nodes[find(x)] = nodes.get(find(x), 0) + 1
    # junctions with any flowing branch attached are boundary nodes, still part of the region
    cyc = {r: edges.get(r, 0) >= nodes.get(r, 0) for r in nodes}
    stag_branch = {(t, i): find(a) for t, i, a, b in stag}
    kinds = set()
    for tbl, msg in diffs:
        idx = int(msg.split("[")[1].split("]")[0])
        if tbl == "res_junction":
            region = find(idx) if idx in comp else None
        else:
            region = stag_branch.get((tbl, idx))
        if region is None:
            kinds.add("flowing")
        else:
            kinds.add("stagnant_loop" if cyc.get(region) else "stagnant_tree")
    if "flowing" in kinds:
        return "flowing"
    return "stagnant_tree" if "stagnant_tree" in kinds else "stagnant_loop"


def refine_where(where, variant_spec, diffs, ambient=293.15):
    """Separates three things that all show up as differing temperatures of stagnant branches:
    start_value_leak   - a reported value IS one of the (randomly perturbed) tfluid_k start values of the variant:
                         a start value reached a result table (always a VIOLATION);
    stagnant_threshold - the branch carries numerical-noise flow around the 1e-10 no-flow threshold: in one run it
                         counts as stagnant (outlet relaxes to the ambient temperature), in the other as flowing
                         (outlet follows its inlet) - one of the two values is the ambient temperature;
    otherwise the structural class computed by stagnant_classes."""
    starts = [float(kw["tfluid_k"]) for fn, kw in variant_spec["ops"] if fn == "create_junction"]
    vals = []
    for tbl, msg in diffs:
        try:
            a, b = msg.split(": ", 1)[1].split(" vs ")
            vals.append((tbl, msg.split("[")[0], float(a), float(b)))
        except (ValueError, IndexError):
            return where
    temp_cols = ("t_k", "t_from_k", "t_to_k", "t_outlet_k")
    # a compressor / pump lifts only for forward flow (bypass for reverse flow): in a mesh the network can have two
    # exact solutions, one with the element lifting and one with it bypassed - outside the uniqueness theorem
    # (its law is not monotone); recognised by the element's flow changing sign between the two runs
    for tbl, c, a, b in vals:
        if tbl in ("res_compressor", "res_pump") and c == "mdot_from_kg_per_s" and a * b < 0:
            return "lift_element_direction"
    if where == "stagnant_loop":
        return where          # loop temperatures are mixtures of start values, a single start value included
    if any(c in temp_cols and any(abs(b - s0) <= 1e-9 * abs(s0) and abs(s0 - ambient) > 1e-6 for s0 in starts)
           for _, c, a, b in vals):
        return "start_value_leak"
    if where in ("stagnant_tree", "stagnant_loop") and all(
            c in temp_cols and (abs(a - ambient) <= 1e-6 or abs(b - ambient) <= 1e-6) for _, c, a, b in vals):
        return "stagnant_threshold"
    return where


def run_variant(spec, **kw):
    net = gen.build(spec)
    st, msg = drive.run(net, **kw)
    return st, (drive.snapshot_results(net) if st == "ok" else None)


def corpus_witness(ctx):
    """minimised past failures run first (DESIGN 2.5): the stagnant-region temperature findings"""
    import glob
    import json
    cdir = os.path.join(os.path.dirname(os.path.dirname(os.path.dirname(os.path.abspath(__file__)))), "corpus")
    for p in sorted(glob.glob(os.path.join(cdir, "C08_*.json"))):
        name = os.path.basename(p)[:-5]
        w = json.load(open(p))
        st0, r0 = run_variant(w["spec"], **w["base_options"])
        st1, r1 = run_variant(w["variant_spec"], **w["variant_options"])
        ctx.case({"corpus": name, "status": [st0, st1]}, st0 == st1 == "ok", key="corpus:" + name)
        if st0 == st1 == "ok":
            diffs = compare(r0, r1, atol=1e-5, rtol=1e-9)
            if diffs:
                where = refine_where(stagnant_classes(w["spec"], r0, r1, diffs), w["variant_spec"], diffs)
                ctx.violation({"clause": "start_value_or_damping_independence", "variant": "start",
                               "profile": "corpus", "mode": w["base_options"].get("mode"), "where": where},
                              "two converged runs of the same physical network disagree: %s %s (first of %d; corpus "
                              "witness %s)" % (diffs[0][0], diffs[0][1], len(diffs), name),
                              {"corpus": "corpus/%s.json" % name, "diffs": diffs[:10]})


def qe_tr_family(ctx):
    """Fixed family (own PRNG, independent of VERIF_SEED): heating loops with heat + return-temperature consumers,
    every junction started hot (345 K, above every return set-point) and cold (300 K, below every set-point); the
    converged bidirectional results must agree."""
    import random
    kw = dict(mode="bidirectional", tol_T=1e-7, use_numba=False, **TIGHT)
    for i in range(6):
        r = random.Random(9000 + i)
        spec = gen.gen_net(r, "heat", size=1 + i % 3, features={"hc_mode": "QE_TR", "mass_pump": False},
                           label_mode=["contig", "shuffled", "sparse"][i % 3])
        runs = {}
        for name, t in (("hot", 345.0), ("cold", 300.0)):
            vs = copy.deepcopy(spec)
            for fn, k in vs["ops"]:
                if fn == "create_junction":
                    k["tfluid_k"] = t
            runs[name] = (vs,) + run_variant(vs, **kw)
        (sh, sth, rh), (sc, stc, rc) = runs["hot"], runs["cold"]
        both = sth == stc == "ok"
        ctx.case({"family": "qe_tr", "i": i, "status": [sth, stc]}, both, key="qe_tr:%d" % i)
        ctx.count("qe_tr_family_%s_%s" % (sth, stc))
        if both:
            diffs = compare(rh, rc, atol=1e-5, rtol=1e-9)
            if diffs:
                ctx.violation({"clause": "start_value_or_damping_independence", "variant": "start", "profile": "qe_tr_family",
                               "mode": "bidirectional",
                               "where": refine_where(stagnant_classes(spec, rh, rc, diffs), sc, diffs)},
                              "two converged runs of the same physical network disagree (all junctions started at 345 K vs "
                              "300 K): %s %s (first of %d)" % (diffs[0][0], diffs[0][1], len(diffs)),
                              {"spec": sh, "variant_spec": sc, "base_options": kw, "variant_options": kw,
                               "diffs": diffs[:10]})


REJECTING_STEP_SEEDS = (26, 38, 52, 67, 81, 92, 99, 105, 138, 150, 160, 170)


def rejecting_step_family(ctx):
    """Fixed family (own PRNG, independent of VERIF_SEED and of how many random numbers other generators draw):
    hilly low-flow meshes in which automatic damping really rejects Newton steps.  Only about one lowflow mesh in
    fifteen does, so drawing them from the shared stream made the detection of a convergence test that skips
    rejected variables (seeded C08-3) depend on the seed; the twelve meshes below were selected because a run with
    automatic damping restores old values in them.  Each is solved with constant damping, then from three perturbed
    pn_bar assignments with both damping strategies, at the solver's default tolerances and at tight ones."""
    import random
    for i in REJECTING_STEP_SEEDS:
        spec = lowflow_mesh(random.Random(7300 + i))
        for profile, base_kw, atol in (("lowflow_default_tol", dict(mode="hydraulics", use_numba=False, iter=100), 1e-3),
                                       ("lowflow", dict(mode="hydraulics", use_numba=False, **TIGHT), 1e-7)):
            st0, r0 = run_variant(spec, **base_kw)
            ctx.count("rejecting_family_base_" + st0)
            if st0 != "ok":
                continue
            rr = random.Random(9100 + i)
            for v in range(3):
                vs = perturb_spec(spec, rr, "pn_bar", 0.2, 2.5)
                for kw in (base_kw, dict(base_kw, nonlinear_method="automatic")):
                    st, r = run_variant(vs, **kw)
                    name = "%s_start_%d" % (kw.get("nonlinear_method", "constant"), v)
                    ctx.case({"family": "rejecting_step", "i": i, "profile": profile, "variant": name, "status": st},
                             st == "ok", key="rej:%d:%s:%s" % (i, profile, name))
                    if st != "ok":
                        continue
                    diffs = compare(r0, r, atol=atol, rtol=1e-9)
                    if diffs:
                        ctx.violation({"clause": "start_value_or_damping_independence",
                                       "variant": "automatic" if "nonlinear_method" in kw else "start",
                                       "profile": "rejecting_step_family", "mode": "hydraulics",
                                       "where": refine_where(stagnant_classes(spec, r0, r, diffs), vs, diffs)},
                                      "two converged runs of the same physical network disagree: %s %s (first of %d)"
                                      % (diffs[0][0], diffs[0][1], len(diffs)),
                                      {"spec": spec, "variant_spec": vs, "base_options": base_kw, "variant_options": kw,
                                       "diffs": diffs[:10]})


def run(ctx):
    ctx.extra["rule"] = ("generated water / gas / heat networks (tools/harness/gen.py); each is re-run with 3 random "
                         "start-value assignments (pn_bar x U(0.4,2.5) per junction in hydraulics; tfluid_k x U(0.9,1.1) "
                         "in bidirectional mode) and with nonlinear_method automatic vs constant; a case = (net, variant); "
                         "non-trivial = both runs converged and the net has a mesh, parallel branch, pump/compressor, "
                         "controller or more than one pressure-fixing element")
    for name, fn in GEN:
        try:
            ctx.gen(name, fn())
        except Exception as e:
            ctx.broken("translator", name, repr(e))
    proved = ctx.prove("C08")
    proved = ctx.prove("C08", props="PropsDamping") and proved     # driver-model theorem shared with C05
    proved = ctx.prove("C08", props="PropsThermal") and proved     # thermal uniqueness over C10's pipeline model
    proved = ctx.prove("C08", props="PropsThermalPumps") and proved  # ... with circulation pumps (identity rows)
    proved = ctx.prove("C08", props="PropsSensitivity") and proved # sqrt(tol) sensitivity of nearly stagnant flows
    proved = ctx.prove("C08", props="PropsAcyclic") and proved     # passive level networks: acyclic flow graph
    rng = ctx.rng
    # fixed mix: ordinary generated nets + the low-flow meshes in which automatic damping rejects steps
    mult = 1 if ctx.quick else 14
    plan = (["water"] * 5 + ["water_thermal"] * 4 + ["gas"] * 4 + ["gas_hilly"] * 7 + ["heat"] * 4 + ["heat_qe_tr"] * 6 + ["lowflow"] * 6 +
            ["lowflow_default_tol"] * 6 + ["lowflow_thermal"] * 5) * mult
    n_nets = len(plan)
    nconv = 0
    corpus_witness(ctx)
    qe_tr_family(ctx)
    rejecting_step_family(ctx)
    for k in range(n_nets):
        profile = plan[k]
        if profile.startswith("lowflow"):
            spec = lowflow_mesh(rng)
        elif profile == "heat_qe_tr":
            # heat + return-temperature consumers: their mass flow is an unknown coupled to the temperatures, and the
            # hook ignores them while their inlet is colder than the return set-point - start temperatures on both
            # sides of the set-point must lead to the same converged state
            spec = gen.gen_net(rng, "heat", size=rng.randint(1, 3), features={"hc_mode": "QE_TR", "mass_pump": False})
        elif profile == "gas_hilly":
            # large height differences: the hydrostatic term rho(p)*g*dh makes gas results sensitive to any
            # quantity frozen at the start pressures
            spec = gen.gen_net(rng, "gas", features={"island": False, "oos_junction": False})
            for fn, kw in spec["ops"]:
                if fn == "create_junction":
                    kw["height_m"] = rng.choice([0., 60., 150., -40., 300., 400.])
                if fn == "create_ext_grid":
                    kw["p_bar"] = 16.0
            for fn, kw in spec["ops"]:
                if fn == "create_junction":
                    kw["pn_bar"] = 16.0
        else:
            spec = gen.gen_net(rng, "water" if profile == "water_thermal" else profile)
            if profile in ("water", "gas") and k % 2 == 0:
                # pressure controllers (set-point != pn_bar) and several ext grids per junction
                try:
                    aug = c01_help.augment(rng, spec, profile, force=["pc"])
                    spec = aug[0] if isinstance(aug, tuple) else aug
                except Exception:
                    pass
        d = gen.describe(spec)
        rich = d["counts"].get("pipe", 0) >= d["junctions"] or any(
            c in d["counts"] for c in ("pump", "compressor", "flow_control", "pressure_control", "valve")) \
            or d["counts"].get("ext_grid", 0) > 1
        if profile in ("heat", "water_thermal", "lowflow_thermal", "heat_qe_tr"):
            base_kw = dict(mode="bidirectional", tol_T=1e-7, use_numba=False, **TIGHT)
            col, lo, hi, atol = "tfluid_k", (0.82 if profile == "heat_qe_tr" else 0.9), 1.1, 1e-5
        elif profile == "lowflow_default_tol":
            # solver defaults (tol 1e-5): two accepted runs may differ by a small multiple of the tolerance
            base_kw = dict(mode="hydraulics", use_numba=False, iter=100)
            col, lo, hi, atol = "pn_bar", 0.2, 2.5, 1e-3
        elif profile == "lowflow":
            base_kw = dict(mode="hydraulics", use_numba=False, **TIGHT)
            col, lo, hi, atol = "pn_bar", 0.2, 2.5, 1e-7
        else:
            base_kw = dict(mode="hydraulics", use_numba=False, **TIGHT)
            col, lo, hi, atol = "pn_bar", 0.4, 2.5, 1e-7
        zrv = {kw["index"] for fn, kw in spec["ops"] if fn == "create_valve" and not kw.get("loss_coefficient", 0)}
        st0, r0 = run_variant(spec, **base_kw)
        ctx.count("base_" + profile + "_" + st0)
        if st0 in CRASHES:
            ctx.violation({"clause": "unexpected_exception", "exception": st0, "profile": profile},
                          "pipeflow on a well-posed generated network raises %s instead of returning or raising "
                          "PipeflowNotConverged" % st0, {"spec": spec, "options": base_kw})
        if st0 != "ok":
            continue
        variants = [("start_%d" % i, perturb_spec(spec, rng, col, lo, hi), base_kw) for i in range(3)]
        variants.append(("automatic_damping", spec, dict(base_kw, nonlinear_method="automatic")))
        for i in range(3 if profile.startswith("lowflow") else 1):
            variants.append(("automatic_damping_start_%d" % i, perturb_spec(spec, rng, col, lo, hi),
                             dict(base_kw, nonlinear_method="automatic")))
        for name, vs, kw in variants:
            st, r = run_variant(vs, **kw)
            ctx.count("variant_" + st)
            both = st == "ok"
            ctx.case({"profile": profile, "variant": name, "net": d, "status": st}, both and rich,
                     key="%d:%s:%s" % (k, name, gen.spec_key(vs)[:64]))
            if not both:
                continue
            nconv += 1
            diffs = compare(r0, r, atol=atol, rtol=1e-9, zero_res_valves=zrv)
            if diffs:
                ctx.violation({"clause": "start_value_or_damping_independence", "variant": name.split("_")[0],
                               "profile": profile, "mode": base_kw["mode"],
                               "where": refine_where(stagnant_classes(spec, r0, r, diffs), vs, diffs,
                                                     base_kw.get("ambient_temperature", 293.15))},
                              "two converged runs of the same physical network disagree: %s %s (first of %d)"
                              % (diffs[0][0], diffs[0][1], len(diffs)),
                              {"spec": spec, "variant_spec": vs, "base_options": base_kw, "variant_options": kw,
                               "diffs": diffs[:10]})
    ctx.extra["converged_variant_pairs"] = nconv
    if nconv == 0:
        ctx.broken("monitor", "no converged variant pair", "generator produced no usable case")
