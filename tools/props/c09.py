"""C09 - physically equivalent descriptions of a network give identical results (DESIGN.md 4/C09).

T-tie : coq/C09/KernelFacts.v over the kernels regenerated from the source (hydraulic kernels, derived values,
        mean pressure, lambda; Gen/KCalcLambda.v = calc_lambda / calc_der_lambda for the default friction model):
        odd symmetry of the residual under reversal, lambda even, pressure-shift invariance.
H-tie : coq/C09/Model.v (section expansion of pipes, vinterp heights, load aggregation) compared *exactly*
        (rationals, inside Coq) with the real pit columns FROM_NODE / TO_NODE / LENGTH / LOSS_COEFFICIENT /
        HEIGHT(internal nodes) and LOAD of nets built through the public API with dyadic data;
        coq/C09/Proofs.v: telescoping of the section residuals for every n, reversal of heights and chain,
        load merge / order / sign / disabled.
Monitors (failing-input search): every rewrite applied to real nets (fixed corpus + generated water / gas / heat
        nets), original and rewritten net solved with tight tolerances and compared on p, mdot, T.
"""
import json
import os
import sys
from fractions import Fraction

import numpy as np

sys.path.insert(0, os.path.dirname(os.path.dirname(os.path.abspath(__file__))))
from vlib import cz, cnat, cbool, clist, cq  # noqa: E402
from translate import kernels, c09_kernels  # noqa: E402
from harness import gen, drive  # noqa: E402
from harness import c09_rewrites as rw  # noqa: E402

CLAIM = {
    "text": "Theorems for all inputs (31 in coq/C09/Props.v). Kernel level, regenerated from the source on every run: the "
            "hydraulic residual of the liquid and gas kernels is odd under reversal of a branch, lambda / Re are even in m, "
            "the mean pressure is symmetric; the thermal kernel (numpy: all branch outputs for every m; numba: fnt for "
            "|m| > 1e-10) is unchanged for a branch declared the other way round, with the inlet chosen by the generated "
            "FROM_NODE_T_SWITCHED rule; the liquid kernel is invariant under a common pressure shift, also from the node "
            "columns. Pit level (hand model tied by an exact in-Coq correspondence of the real pit columns): heights and "
            "section chain of a reversed pipe are the mirrored ones; for every n >= 1 the n section residuals add up to the "
            "one-section residual; section k is a one-section pipe of L/n, zeta/n between interpolated heights and the "
            "chain is the series chain up to node renaming; LOAD of a junction is the sum of scaled sinks + storages - "
            "sources for any order, equals one merged sink, a source is a negative sink, a disabled row equals its "
            "absence. Network level (C08's network model): the reversed net (any subset of branches) is solved by the same "
            "pressures and the negated flows, the shifted net by the shifted pressures, the merged-load net and the net "
            "with a branch cut in two by the same solution - and, the liquid Nikuradse law of the generated kernel being "
            "strictly increasing (C08/KernelMono), these are the only solutions. Every rewrite (reverse, sections -> 1, "
            "sections -> series, merge loads, switch off / delete elements of every kind, shift pressures) is additionally "
            "applied to real networks (fixed corpus + generated, hydraulic / sequential / bidirectional) and all result "
            "columns of the converged runs are compared.",
    "note": "Proved vs monitored: the network-level theorems are exact-solution statements over C08's network model "
            "(node balance + branch law p_fn - p_tn + cst = phi(m)); uniqueness holds for strictly increasing laws, proved for "
            "the liquid pipe / valve law with Nikuradse friction (hypotheses: A, D, eta, rho, k > 0, k <> 3.71 D, L, zeta >= 0, "
            "L + zeta > 0 - a zeta = 0 valve is excluded), a hypothesis for gases / other friction models; it fails for pumps "
            "and compressors (no lift for reverse flow: pairs on different branches are counted, not compared). How close two "
            "approximately converged runs are is observed by the monitors (derived tolerances: 1e-8 on p, 1e-8 + stalled "
            "flows on mdot, 1e-8 + 40 tol_m / min|m| on T, |X|(3 atol_m/|m| + 1e-7) on flow-derived columns). Monitor only: "
            "disabled = absent beyond const-flow rows and the structural pit columns cited from C04 (reduce_eq_delete; "
            "dependency on coq/C04, coq/C06), thermal results of series splits, result extraction (sign / from-to exchange "
            "of reported columns), gases in sections -> series. Not claimed: thermal results of n sections vs 1 section "
            "(uniform temperature only). Directional elements (pumps, compressors, controllers, heat consumers) are never "
            "reversed; pi valves are left untouched. df/dm is even only for odd der_lambda; calc_der_lambda is even "
            "(Newton path, not fixed points). No known finding is open (the gas mean-pressure fallback found here was "
            "repaired in /repo c6a5196 with the patch of design_notes/patches/). Axioms: Coq reals "
            "(ClassicalDedekindReals.sig_forall_dec, sig_not_dec, FunctionalExtensionality.functional_extensionality_dep) "
            "and Classical_Prop.classic via the stdlib; load, chain and C04-cited theorems are closed under the global context.",
    "technique": "Coq proof over generated kernels + hand model with exact in-Coq correspondence + C08 uniqueness + "
                 "metamorphic monitors",
    "design": "DESIGN.md 4/C09 + design_notes/C09.md",
}
GEN = kernels.gen_entries(["KHydIncompNp", "KHydIncompNb", "KHydCompNp", "KHydCompNb", "KLambdaNp", "KLambdaNb",
                           "KPmNp", "KPmNb", "KDerivedNp", "KDerivedNb", "KThermNp", "KThermNb"]) + [
    ("KCalcLambda", c09_kernels.generate), ("KTSwitch", c09_kernels.generate_tswitch)]

TIGHT = dict(tol_p=1e-10, tol_m=1e-10, iter=100, use_numba=False)
ATOL = 1e-8
PIPE = rw.PIPE


# =============================================================================================== correspondences
def frac(x):
    return Fraction(float(x))


def cqf(x):
    return cq(frac(x))


def _labels(rng, n, lo=0):
    mode = rng.choice(["contig", "shuffled", "sparse", "large"])
    return gen.make_labels(rng, n, mode, lo)


def gen_pipe_spec(rng):
    """pipes-only water net with dyadic data: every float operation of the section expansion is exact"""
    nj = rng.randint(2, 6)
    jl = _labels(rng, nj)
    ops = [["create_junction", {"index": j, "pn_bar": 5.0, "tfluid_k": 293.15, "height_m": 15.0 * rng.randint(-8, 8)}]
           for j in jl]
    npipes = rng.randint(1, 6)
    pl = _labels(rng, npipes)
    all_single = rng.random() < 0.15
    pipe_ops = []
    for p in pl:
        n = 1 if all_single else rng.choice([1, 1, 2, 3, 4, 5, 6, 8])
        a, b = rng.choice(jl), rng.choice(jl)
        pipe_ops.append([PIPE, {"index": p, "from_junction": a, "to_junction": b, "sections": n,
                                "length_km": n * rng.randint(1, 40) / 8.0,
                                "inner_diameter_mm": rng.choice([50., 80., 100.]), "k_mm": 0.1,
                                "loss_coefficient": n * rng.randint(0, 12) / 4.0, "in_service": rng.random() < 0.9}])
    rng.shuffle(pipe_ops)
    ops += pipe_ops
    ops.append(["create_ext_grid", {"index": 0, "junction": jl[0], "p_bar": 5.0, "t_k": 293.15}])
    return {"fluid": "water", "ops": ops}


def observe_pipe_pit(spec):
    import pandapipes  # noqa: F401
    from pandapipes.idx_branch import FROM_NODE, TO_NODE, LENGTH, LOSS_COEFFICIENT
    from pandapipes.idx_node import HEIGHT
    net = gen.build(spec)
    drive.stages(net, use_numba=False)
    lk = net["_lookups"]
    bf, bt = lk["branch_from_to"]["pipe"]
    jf, jt = lk["node_from_to"]["junction"]
    jidx = lk["node_index"]["junction"]
    bp, npit = net["_pit"]["branch"], net["_pit"]["node"]
    pipes = []
    for _, row in net.pipe.iterrows():
        pipes.append((int(jidx[int(row.from_junction)]), int(jidx[int(row.to_junction)]), int(row.sections),
                      frac(row.length_km), frac(row.loss_coefficient)))
    if "pipe_nodes" in lk["node_from_to"]:
        pf, pt = lk["node_from_to"]["pipe_nodes"]
    else:
        pf, pt = jt, jt
    return {"pipes": pipes, "start": int(pf), "heights": [frac(x) for x in npit[jf:jt, HEIGHT]],
            "chain": [(int(a), int(b)) for a, b in zip(bp[bf:bt, FROM_NODE], bp[bf:bt, TO_NODE])],
            "length": [frac(x) for x in bp[bf:bt, LENGTH]], "zeta": [frac(x) for x in bp[bf:bt, LOSS_COEFFICIENT]],
            "int_height": [frac(x) for x in npit[pf:pt, HEIGHT]], "jf": int(jf)}


def pipe_case_coq(o):
    pipes = clist(["Build_pipe %s %s %s %s %s" % (cnat(a), cnat(b), cnat(n), cq(l), cq(z))
                   for a, b, n, l, z in o["pipes"]])
    # heights are indexed by node position: junction nodes start at jf (0 in every net of today; padded otherwise)
    heights = clist([cq(Fraction(0))] * o["jf"] + [cq(h) for h in o["heights"]])
    return ("{| pc_pipes := %s; pc_start := %s; pc_heights := %s; pc_obs_chain := %s; pc_obs_length := %s; "
            "pc_obs_zeta := %s; pc_obs_height := %s |}"
            % (pipes, cnat(o["start"]), heights, clist(["(%s, %s)" % (cnat(a), cnat(b)) for a, b in o["chain"]]),
               clist([cq(x) for x in o["length"]]), clist([cq(x) for x in o["zeta"]]),
               clist([cq(x) for x in o["int_height"]])))


def gen_load_spec(rng):
    nj = rng.randint(1, 5)
    jl = _labels(rng, nj)
    ops = [["create_junction", {"index": j, "pn_bar": 5.0, "tfluid_k": 293.15}] for j in jl]
    for a, b in zip(jl, jl[1:]):
        ops.append([PIPE, {"index": len(ops), "from_junction": a, "to_junction": b, "length_km": 0.1,
                           "inner_diameter_mm": 80., "k_mm": 0.1}])
    ops.append(["create_ext_grid", {"index": 0, "junction": jl[0], "p_bar": 5.0, "t_k": 293.15}])
    loads = []
    for fn in ("create_sink", "create_source", "create_mass_storage"):
        n = rng.choice([0, 1, 2, 3, 5])
        for lab in _labels(rng, n):
            loads.append([fn, {"index": lab, "junction": rng.choice(jl),
                               "mdot_kg_per_s": (None if rng.random() < 0.08 else rng.randint(-16, 64) / 8.0),
                               "scaling": rng.choice([1.0, 1.0, 0.5, 2.0, 1.5, 0.0, 0.25]),
                               "in_service": rng.random() < 0.8}])
    rng.shuffle(loads)
    return {"fluid": "water", "ops": ops + loads}


def build_with_nan(spec):
    s = json.loads(json.dumps(spec))
    edits = []
    for fn, kw in s["ops"]:
        if fn in rw.LOADS and kw["mdot_kg_per_s"] is None:
            kw["mdot_kg_per_s"] = 0.0
            edits.append((rw.TBL[fn], kw["index"], "mdot_kg_per_s", float("nan")))
    s["edits"] = edits
    return gen.build(s)


def observe_load(spec):
    import pandapipes  # noqa: F401
    from pandapipes.idx_node import LOAD
    net = build_with_nan(spec)
    drive.stages(net, use_numba=False)
    jf, jt = net["_lookups"]["node_from_to"]["junction"]
    tables = []
    for tbl, sign in (("sink", 1), ("source", -1), ("mass_storage", 1)):
        if tbl in net and len(net[tbl]):
            rows = [(int(r.junction), None if np.isnan(r.mdot_kg_per_s) else frac(r.mdot_kg_per_s), frac(r.scaling),
                     bool(r.in_service)) for _, r in net[tbl].iterrows()]
            tables.append((sign, rows))
    return {"tables": tables, "junctions": [int(j) for j in net.junction.index],
            "load": [frac(x) for x in net["_pit"]["node"][jf:jt, LOAD]]}


def load_case_coq(o):
    def row(r):
        j, m, s, i = r
        return "Build_load_row %s %s %s %s" % (cz(j), "None" if m is None else "(Some %s)" % cq(m), cq(s), cbool(i))
    tabs = clist(["(%s, %s)" % (cq(Fraction(sign)), clist([row(r) for r in rows])) for sign, rows in o["tables"]])
    return "{| lc_tables := %s; lc_junctions := %s; lc_obs_load := %s |}" % (
        tabs, clist([cz(j) for j in o["junctions"]]), clist([cq(x) for x in o["load"]]))


HEADER = ("From Coq Require Import List ZArith QArith Bool.\nFrom PP Require Import C09.Model.\n"
          "Import ListNotations.\nOpen Scope Q_scope.\n")


def correspondence(ctx, name, specs, observe, to_coq, okfn, typ):
    obs, bad = [], []
    for s in specs:
        try:
            obs.append(observe(s))
        except Exception as e:  # the real set-up phase must not fail on these well-formed nets
            ctx.broken("correspondence", name, "implementation raised %r on %s" % (e, json.dumps(s)[:600]))
            return []
    size, n_tot, n_mis = 250, 0, 0
    for c0 in range(0, len(obs), size):
        body = ";\n".join(to_coq(o) for o in obs[c0:c0 + size])
        txt = HEADER + "Definition cs : list %s := [\n%s\n].\nEval vm_compute in (summary %s cs).\n" % (typ, body, okfn)
        trip, out = ctx.coq_counts(txt, "%s_%d" % (okfn, c0 // size))
        if not trip:
            ctx.broken("correspondence", name + " (coqc failed)", out[-800:])
            return []
        n, m, first = trip[0]
        n_tot += n
        n_mis += m
        if m:
            bad.append(c0 + first)
    ctx.corr(name, n_tot, n_mis)
    return [(specs[i], obs[i]) for i in bad]


# =============================================================================================== monitors
def run_spec(spec, **kw):
    net = build_with_nan(spec) if any(k.get("mdot_kg_per_s", 0) is None for _, k in spec["ops"]) else gen.build(spec)
    st, msg = drive.run(net, **kw)
    return st, (drive.snapshot_results(net) if st == "ok" else None)


def corpus():
    """fixed nets that exercise each clause deterministically (first entries of the failing-input search)"""
    def J(i, h=0., t=293.15, **kw):
        return ["create_junction", dict(index=i, pn_bar=5.0, tfluid_k=t, height_m=h, **kw)]

    def P(i, a, b, n=1, z=0., L=0.5, **kw):
        return [PIPE, dict(index=i, from_junction=a, to_junction=b, sections=n, length_km=L, inner_diameter_mm=80.,
                           k_mm=0.1, loss_coefficient=z, **kw)]
    out = []
    # 4 sections, loss coefficient 2, height difference
    out.append(("water", "sections4_zeta2", {"fluid": "water", "ops": [
        J(0), J(1, 12.), ["create_ext_grid", dict(index=0, junction=0, p_bar=5.0, t_k=293.15)],
        P(0, 0, 1, n=4, z=2.0), ["create_sink", dict(index=0, junction=1, mdot_kg_per_s=2.0)]]}))
    # mesh with heights, several loads of all kinds on one junction, a source, out-of-service parts
    out.append(("water", "mesh_loads", {"fluid": "water", "ops": [
        J(3), J(7, 5.), J(5, -3.), J(9, 12.), ["create_ext_grid", dict(index=0, junction=3, p_bar=6.0, t_k=293.15)],
        P(4, 3, 7, n=3, z=1.5), P(2, 5, 7, n=2), P(8, 3, 5), P(1, 9, 5, n=4, z=0.5), P(6, 7, 9, in_service=False),
        ["create_valve", dict(index=0, junction=7, element=9, et="ju", inner_diameter_mm=80., opened=True,
                              loss_coefficient=0.5)],
        ["create_valve", dict(index=1, junction=3, element=9, et="ju", inner_diameter_mm=80., opened=False)],
        ["create_sink", dict(index=0, junction=9, mdot_kg_per_s=0.8, scaling=0.5)],
        ["create_sink", dict(index=5, junction=9, mdot_kg_per_s=0.3)],
        ["create_sink", dict(index=2, junction=9, mdot_kg_per_s=5.0, in_service=False)],
        ["create_source", dict(index=0, junction=9, mdot_kg_per_s=0.2, scaling=1.5)],
        ["create_mass_storage", dict(index=0, junction=9, mdot_kg_per_s=-0.1)],
        ["create_source", dict(index=1, junction=5, mdot_kg_per_s=0.4)],
        ["create_sink", dict(index=1, junction=7, mdot_kg_per_s=0.6)]]}))
    # gas line with heights
    out.append(("gas", "gas_line", {"fluid": "hgas", "ops": [
        J(0), J(1, 12.), J(2, 5.), ["create_ext_grid", dict(index=0, junction=0, p_bar=3.0, t_k=293.15)],
        P(0, 0, 1, n=3, z=1.0, L=1.0), P(1, 2, 1, n=2, L=0.6),
        ["create_sink", dict(index=0, junction=2, mdot_kg_per_s=0.02)],
        ["create_source", dict(index=0, junction=1, mdot_kg_per_s=0.005)]]}))
    # gas pipe whose end pressures are np.isclose (mean-pressure fallback of the gas result extraction)
    out.append(("gas", "gas_small_dp", {"fluid": "hgas", "ops": [
        ["create_junction", dict(index=0, pn_bar=3.0, tfluid_k=283.15)],
        ["create_junction", dict(index=1, pn_bar=3.0, tfluid_k=283.15)],
        ["create_ext_grid", dict(index=0, junction=0, p_bar=3.0, t_k=283.15)],
        [PIPE, dict(index=0, from_junction=0, to_junction=1, length_km=0.1, inner_diameter_mm=100., k_mm=0.1)],
        ["create_sink", dict(index=0, junction=1, mdot_kg_per_s=0.006)]]}))
    # heat: cooling multi-section pipes, one declared against the flow
    out.append(("heat", "heat_line", {"fluid": "water", "ops": [
        J(0, t=350.), J(1, t=350.), J(2, t=350.),
        ["create_ext_grid", dict(index=0, junction=0, p_bar=5.0, t_k=350.)],
        P(0, 0, 1, n=4, L=1.0, u_w_per_m2k=5.0, text_k=280.), P(1, 2, 1, n=1, L=0.4, u_w_per_m2k=5.0, text_k=280.),
        ["create_sink", dict(index=0, junction=2, mdot_kg_per_s=0.5)]]}))
    return out


def spec_info(spec):
    pipes = {kw["index"]: kw for fn, kw in spec["ops"] if fn == PIPE}
    return pipes


def classify(clause, profile, spec, diff, s1=None):
    tbl, col, lab, x, y = diff
    sig = {"clause": clause, "table": tbl, "column": col.split("<->")[0].split("(")[0]}
    if tbl == "res_pipe":
        n = spec_info(spec).get(lab, {}).get("sections", 1)
        if s1 is not None:      # the same pipe in the other description (absent there if it was split into pieces)
            n = max(n, spec_info(s1).get(lab, {}).get("sections", 1))
        sig["multi_section"] = n > 1
    return sig


def rewrites_for(ctx, profile, spec, rng, reverse_all=False, bidir=False):
    out = []
    pos = rw.reversible_ops(spec)
    if pos:
        sub = [i for i in pos if rng.random() < 0.5] or [rng.choice(pos)]
        out.append(("reverse_branch", rw.reverse(spec, sub), "all"))
        if reverse_all or rng.random() < 0.3:
            out.append(("reverse_branch", rw.reverse(spec, pos), "all"))
    multi = any(fn == PIPE and kw.get("sections", 1) > 1 for fn, kw in spec["ops"])
    if profile != "gas" and multi and not bidir:
        # liquids at uniform temperature: the hydraulic results must agree; temperatures of a cooling pipe are a
        # discretisation and are not claimed to be section-independent
        out.append(("sections_telescope", rw.one_section(spec), "hyd" if profile == "heat" else "all"))
    if profile == "water" and rng.random() < 0.3:
        n = rng.choice([2, 3, 5])
        s1, ex = rw.set_sections(spec, n)
        out.append(("sections_telescope", (s1, ex), "all"))
    if multi:
        out.append(("sections_eq_series", rw.split_series(spec), "all"))
    if any(fn in rw.LOADS for fn, kw in spec["ops"]):
        out.append(("load_merge", rw.merge_loads(spec, as_source=rng.random() < 0.5), "all"))
    s1, ex = rw.delete_disabled(spec)
    if ex["deleted"]:
        out.append(("disabled_is_absent", (s1, ex), "all"))
    if profile != "gas":
        out.append(("pressure_shift", rw.shift_pressure(spec, rng.choice([1.5, -0.75, 4.0])), "all"))
    return out


def compare_specs(spec, s1, r0, r1, ex):
    sec = lambda sp: {kw["index"]: kw.get("sections", 1) for fn, kw in sp["ops"] if fn == PIPE}   # noqa: E731
    return rw.compare(r0, r1, ex, atol=ATOL, tol_m=TIGHT["tol_m"], gas=spec["fluid"] != "water",
                      sections0=sec(spec), sections1=sec(s1))


def lift_direction_differs(r0, r1):
    for t in ("res_pump", "res_compressor"):
        if t in r0 and t in r1:
            a = dict(zip(r0[t]["index"], r0[t]["cols"].get("mdot_from_kg_per_s", [])))
            b = dict(zip(r1[t]["index"], r1[t]["cols"].get("mdot_from_kg_per_s", [])))
            for i, x in a.items():
                y = b.get(i)
                if x is not None and y is not None and (x > 0) != (y > 0):
                    return True
    return False


# columns fixed by the hydraulic stage of a sequential run (v, vdot use the density at the final temperatures)
HYD_ONLY = ("p_bar", "p_from_bar", "p_to_bar", "mdot_from_kg_per_s", "mdot_to_kg_per_s", "mdot_kg_per_s",
            "mdot_flow_kg_per_s", "reynolds", "lambda", "dp_friction_loss_bar", "deltap_bar")


def monitor_net(ctx, profile, name, spec, rng, counters, reverse_all=False, bidir=None):
    if profile == "heat":
        # sequential: hydraulics at the start temperatures, then heat; bidirectional: coupled (density and viscosity
        # at the calculated temperatures enter the hydraulics)
        bidir = (rng.random() < 0.4) if bidir is None else bidir
        kw = dict(TIGHT, mode="bidirectional" if bidir else "sequential", tol_T=1e-9)
    else:
        bidir = False
        kw = dict(TIGHT, mode="hydraulics")
    st0, r0 = run_spec(spec, **kw)
    ctx.count("base_%s%s_%s" % (profile, "_bidirectional" if bidir else "", st0))
    if st0 != "ok":
        return
    d = gen.describe(spec)
    for clause, (s1, ex), scope in rewrites_for(ctx, profile, spec, rng, reverse_all, bidir):
        st1, r1 = run_spec(s1, **kw)
        ctx.count("%s_%s" % (clause, st1))
        ok = st1 == "ok"
        nontrivial = ok and rw.finite(r1) > 0
        ctx.case({"net": name, "profile": profile, "mode": kw["mode"], "clause": clause, "describe": d,
                  "expect": {k: (sorted(map(str, v)) if isinstance(v, set) else str(v)[:200]) for k, v in ex.items()}},
                 nontrivial, key="%s:%s:%s:%s" % (clause, kw["mode"], gen.spec_key(spec)[:20000], gen.spec_key(s1)[:20000]))
        if not ok:
            if st1 != "PipeflowNotConverged":
                ctx.violation({"clause": clause, "exception": st1},
                              "the rewritten description raises %s while the original converges" % st1,
                              {"spec": spec, "rewritten": s1, "options": kw})
            continue
        counters["pairs"] += 1
        report_diffs(ctx, clause, profile, spec, s1, ex, scope, kw, r0, r1, counters)


def report_diffs(ctx, clause, profile, spec, s1, ex, scope, kw, r0, r1, counters, extra_sig=None):
    if True:
        diffs = compare_specs(spec, s1, r0, r1, ex)
        if scope == "hyd":
            diffs = [x for x in diffs if x[1].split("<->")[0].split("(")[0] in HYD_ONLY]
        if diffs and lift_direction_differs(r0, r1):
            # pumps / compressors have a non-monotone law (no lift for reverse flow): such a network can have
            # two solutions (circulation vs backflow), C08's uniqueness hypothesis fails and which one Newton finds
            # depends on the description.  Not decidable by comparing results: counted, not reported.
            ctx.count("skipped_nonunique_lift_direction_" + clause)
            return
        seen = set()
        for df in diffs:
            sig = classify(clause, profile, spec, df, s1)
            sig.update(extra_sig or {})
            k = json.dumps(sig, sort_keys=True)
            if k in seen:
                continue
            seen.add(k)
            ctx.count("diff_" + clause)
            if counters.get("reported_" + clause, 0) >= 3 and not any(
                    kn.get("status") == "known" and all(sig.get(a) == b for a, b in kn["signature"].items())
                    for kn in ctx.known):
                continue                   # enough concrete inputs reported for this clause; the rest is counted
            res = ctx.violation(sig, "%s: %s.%s of row %s is %r in the original and %r in the equivalent description "
                               "(%d differing entries, |diff| bound %g)" % (clause, df[0], df[1], df[2], df[3], df[4],
                                                                             len(diffs), ATOL),
                          {"spec": spec, "rewritten": s1, "options": kw, "clause": clause, "scope": scope,
                           "expect": rw.expect_to_json(ex), "diffs": [list(map(str, x)) for x in diffs[:10]],
                           "how": "./check C09 --replay <this file>: builds both specs through the public API "
                                  "(harness.gen.build), runs pipeflow(**options) on each and compares p / mdot / T"})
            if res == "violation":
                counters["reported_" + clause] = counters.get("reported_" + clause, 0) + 1
                break                      # one report per (net, rewrite); known findings do not hide others


def corpus_disabled():
    """fixed nets holding at least one element of every kind in a place where both of its junctions stay supplied when
    it is switched off (disabled_is_absent does not depend on VERIF_SEED)"""
    def J(i, t=293.15):
        return ["create_junction", dict(index=i, pn_bar=5.0, tfluid_k=t, height_m=0.)]

    def P(i, a, b, n=1, L=0.3, **kw):
        return [PIPE, dict(index=i, from_junction=a, to_junction=b, sections=n, length_km=L, inner_diameter_mm=80.,
                           k_mm=0.1, **kw)]

    def mesh(gas):           # two ext grids, active flow control, valve, pump / compressor, loads of all kinds
        sc = 0.03 if gas else 1.0
        ops = [J(i) for i in range(5)]
        ops += [["create_ext_grid", dict(index=0, junction=0, p_bar=5.0, t_k=293.15)],
                ["create_ext_grid", dict(index=1, junction=4, p_bar=4.9, t_k=293.15)]]
        ops += [P(0, 0, 1), P(1, 1, 2, n=2), P(2, 2, 3), P(3, 3, 4, n=3), P(4, 1, 3)]
        ops += [["create_flow_control", dict(index=0, from_junction=1, to_junction=2, controlled_mdot_kg_per_s=0.3 * sc,
                                             control_active=True)],
                ["create_valve", dict(index=0, junction=2, element=3, et="ju", inner_diameter_mm=80., opened=True,
                                      loss_coefficient=0.5)]]
        ops += [["create_compressor", dict(index=0, from_junction=0, to_junction=1, pressure_ratio=1.02)] if gas else
                ["create_pump", dict(index=0, from_junction=0, to_junction=1, std_type="P1")]]
        ops += [["create_sink", dict(index=0, junction=2, mdot_kg_per_s=0.8 * sc)],
                ["create_sink", dict(index=1, junction=3, mdot_kg_per_s=0.6 * sc, scaling=0.5)],
                ["create_source", dict(index=0, junction=3, mdot_kg_per_s=0.2 * sc)],
                ["create_mass_storage", dict(index=0, junction=2, mdot_kg_per_s=0.1 * sc)]]
        return {"fluid": "hgas" if gas else "water", "ops": ops}

    def controls(gas):       # pressure control, passive flow control, heat exchanger, each parallel to pipes
        sc = 0.03 if gas else 1.0
        ops = [J(i) for i in range(4)] + [["create_ext_grid", dict(index=0, junction=0, p_bar=5.0, t_k=293.15)]]
        ops += [P(0, 0, 1), P(1, 1, 2), P(2, 2, 3, n=2), P(3, 0, 2)]
        ops += [["create_pressure_control", dict(index=0, from_junction=1, to_junction=3, controlled_junction=3,
                                                 controlled_p_bar=4.5)],
                ["create_flow_control", dict(index=0, from_junction=1, to_junction=2, controlled_mdot_kg_per_s=0.2 * sc,
                                             control_active=False)],
                ["create_heat_exchanger", dict(index=0, from_junction=0, to_junction=1, qext_w=1000.,
                                               inner_diameter_mm=80., loss_coefficient=1.0)],
                ["create_sink", dict(index=0, junction=3, mdot_kg_per_s=0.7 * sc)],
                ["create_sink", dict(index=1, junction=2, mdot_kg_per_s=0.4 * sc)]]
        return {"fluid": "hgas" if gas else "water", "ops": ops}

    def loop():              # heating loop: three consumers (two in parallel), flow control + heat exchanger rung, two pumps
        ops = [J(i, 350.) for i in range(3)] + [J(10 + i, 320.) for i in range(3)]
        ops += [P(0, 0, 1, n=2, u_w_per_m2k=2., text_k=283.), P(1, 1, 2, u_w_per_m2k=2., text_k=283.),
                P(2, 11, 10, n=2, u_w_per_m2k=2., text_k=283.), P(3, 12, 11, u_w_per_m2k=2., text_k=283.)]
        ops += [["create_heat_consumer", dict(index=0, from_junction=1, to_junction=11, controlled_mdot_kg_per_s=0.5,
                                              qext_w=30000.)],
                ["create_heat_consumer", dict(index=1, from_junction=2, to_junction=12, controlled_mdot_kg_per_s=0.4,
                                              deltat_k=20.)],
                ["create_heat_consumer", dict(index=2, from_junction=2, to_junction=12, controlled_mdot_kg_per_s=0.3,
                                              qext_w=20000.)],
                J(20, 340.),
                ["create_flow_control", dict(index=0, from_junction=1, to_junction=20, controlled_mdot_kg_per_s=0.3)],
                ["create_heat_exchanger", dict(index=0, from_junction=20, to_junction=11, qext_w=15000.,
                                               inner_diameter_mm=80.)],
                ["create_circ_pump_const_pressure", dict(index=0, return_junction=10, flow_junction=0, p_flow_bar=6.0,
                                                         plift_bar=1.0, t_flow_k=360.)],
                ["create_circ_pump_const_mass_flow", dict(index=0, return_junction=10, flow_junction=0, p_flow_bar=6.0,
                                                          mdot_flow_kg_per_s=0.4, t_flow_k=360.)]]
        return {"fluid": "water", "ops": ops}
    return [("water", "dis_mesh_water", mesh(False)), ("gas", "dis_mesh_gas", mesh(True)),
            ("water", "dis_controls_water", controls(False)), ("gas", "dis_controls_gas", controls(True)),
            ("heat", "dis_heat_loop", loop())]


def monitor_disabled(ctx, profile, name, spec, rng, counters, every=False, bidir=None):
    """disabled_is_absent for every kind of element: the net with one more element switched off (in_service=False,
    opened=False) against the net in which that element (and everything else that is switched off) is deleted"""
    if profile == "heat":
        bidir = (rng.random() < 0.4) if bidir is None else bidir
        kw = dict(TIGHT, mode="bidirectional" if bidir else "sequential", tol_T=1e-9)
    else:
        kw = dict(TIGHT, mode="hydraulics")
    cand = rw.disable_candidates(spec)
    kinds = sorted(cand)
    if not every:
        kinds = rng.sample(kinds, min(2, len(kinds)))
    for kind in kinds:
        for pos in (cand[kind] if every else [rng.choice(cand[kind])]):
            a = rw.disable(spec, pos)
            b, ex = rw.delete_disabled(a)
            st0, r0 = run_spec(a, **kw)
            st1, r1 = run_spec(b, **kw) if st0 == "ok" else ("-", None)
            ctx.count("disabled_%s_%s_%s" % (kind, st0, st1))
            ok = st0 == "ok" and st1 == "ok"
            ctx.case({"net": name, "profile": profile, "mode": kw["mode"], "clause": "disabled_is_absent",
                      "disabled": [kind, spec["ops"][pos][1]["index"]]}, ok and rw.finite(r1) > 0,
                     key="dis:%s:%s:%s" % (kw["mode"], pos, gen.spec_key(spec)[:20000]))
            if st0 == "ok" and st1 not in ("ok", "PipeflowNotConverged"):
                ctx.violation({"clause": "disabled_is_absent", "kind": kind, "exception": st1},
                              "the net without the switched-off %s raises %s" % (kind, st1),
                              {"spec": a, "rewritten": b, "options": kw})
            if not ok:
                continue
            counters["pairs"] += 1
            report_diffs(ctx, "disabled_is_absent", profile, a, b, ex, "all", kw, r0, r1, counters, {"kind": kind})


def run(ctx):
    ctx.extra["rule"] = ("correspondence: pipes-only nets (1-6 pipes, 1-8 sections, random labels / row order, dyadic "
                         "lengths, loss coefficients and heights) and load nets (sinks / sources / mass storages, several "
                         "per junction, scaling, out of service, NaN flow) built through the public API; distinct = spec "
                         "JSON. monitors: fixed corpus + generated water / gas / heat nets (tools/harness/gen.py), a case = "
                         "(net, rewrite); non-trivial = both descriptions converged and the rewritten net has finite "
                         "results")
    ctx.assumptions.append("C09: exactness of the correspondence rests on dyadic inputs (no rounding in length*1000/n, "
                           "zeta/n, vinterp, load sums); junction node positions are taken from the implementation's lookup")
    ctx.assumptions.append("C09 monitors: two converged runs are compared with tolerances derived from the solver "
                           "tolerances (see design_notes/C09.md); pairs on different branches of a pump / compressor law "
                           "are not compared")
    import vlib
    for name, fn in GEN:
        try:
            text = fn()
            path = os.path.join(vlib.COQ, "Gen", name + ".v")
            # an unchanged file needs no write and hence no wait for the shared build lock
            if not (os.path.exists(path) and open(path).read() == text):
                ctx.gen(name, text)
        except Exception as e:
            ctx.broken("translator", name, repr(e))
    import time
    t0 = time.time()
    phases = ctx.extra.setdefault("phase_s", {})
    proved = ctx.prove("C09")
    phases["build"] = round(time.time() - t0, 1)
    t0 = time.time()
    rng = ctx.rng
    # ---- H-tie: exact correspondences
    n_pipe = 120 if ctx.quick else 2000
    n_load = 120 if ctx.quick else 2000
    pipe_specs = [gen_pipe_spec(rng) for _ in range(n_pipe)]
    load_specs = [gen_load_spec(rng) for _ in range(n_load)]
    for s in pipe_specs:
        ctx.case({"corr": "pipe_pit", "spec": s}, any(k.get("sections", 1) > 1 for _, k in s["ops"]))
        ctx.count("corr_pipe_sections_max_%d" % max(k.get("sections", 1) for _, k in s["ops"]))
    for s in load_specs:
        ctx.case({"corr": "load", "spec": s}, sum(1 for f, _ in s["ops"] if f in rw.LOADS) > 1)
    bad_pipe = correspondence(ctx, "C09.Model.chain/col_length/col_zeta/col_int_height == pipe rows of net._pit "
                                   "(FROM_NODE, TO_NODE, LENGTH, LOSS_COEFFICIENT, HEIGHT of pipe nodes)",
                              pipe_specs, observe_pipe_pit, pipe_case_coq, "pipe_case_ok", "pipe_case")
    bad_load = correspondence(ctx, "C09.Model.load_column == LOAD column of the junction nodes of net._pit",
                              load_specs, observe_load, load_case_coq, "load_case_ok", "load_case")
    for s, o in bad_pipe[:1]:
        ctx.broken("correspondence", "section expansion model vs pit",
                   "first disagreeing net: %s observed %s" % (json.dumps(s)[:700], str(o)[:500]))
    for s, o in bad_load[:1]:
        ctx.broken("correspondence", "load aggregation model vs pit",
                   "first disagreeing net: %s observed %s" % (json.dumps(s)[:700], str(o)[:500]))
    phases["correspondence"] = round(time.time() - t0, 1)
    t0 = time.time()
    # ---- monitors / failing-input search
    counters = {"pairs": 0}
    for profile, name, spec in corpus():
        for rep in range(2):
            monitor_net(ctx, profile, name, spec, rng, counters, reverse_all=(rep == 0), bidir=(rep == 1))
    for profile, name, spec in corpus_disabled():
        for bd in ((False, True) if profile == "heat" else (False,)):
            monitor_disabled(ctx, profile, name, spec, rng, counters, every=True, bidir=bd)
    # the nets on which the model and the code disagree are the first candidates of the search
    for s, _ in bad_pipe[:5] + bad_load[:5]:
        s2 = json.loads(json.dumps(s))
        if not any(f in rw.LOADS for f, _ in s2["ops"]):
            js = [k["index"] for f, k in s2["ops"] if f == "create_junction"]
            s2["ops"].append(["create_sink", {"index": 0, "junction": js[-1], "mdot_kg_per_s": 1.0}])
        monitor_net(ctx, "water", "corr_mismatch", s2, rng, counters)
    n_nets = 45 if ctx.quick else 600
    if (not proved or ctx.brokens) and not ctx.violations:
        n_nets *= 2                                   # widen the search
    for k in range(n_nets):
        profile = rng.choice(["water", "water", "gas", "heat"])
        spec = gen.gen_net(rng, profile, size=(None if ctx.quick or profile == "heat" else rng.randint(3, 30)))
        monitor_net(ctx, profile, "gen%d" % k, spec, rng, counters)
        monitor_disabled(ctx, profile, "gen%d" % k, spec, rng, counters)
    phases["monitors"] = round(time.time() - t0, 1)
    ctx.extra["converged_pairs"] = counters["pairs"]
    if counters["pairs"] == 0:
        ctx.broken("monitor", "no converged pair", "generator produced no usable case")


def replay(ctx, path):
    obj = json.load(open(path))
    rp = obj["replay"]
    if "rewritten" not in rp:
        print("replay: obligation-kind file, nothing to run: %s" % json.dumps(obj.get("broken", obj))[:2000])
        return
    st0, r0 = run_spec(rp["spec"], **rp["options"])
    st1, r1 = run_spec(rp["rewritten"], **rp["options"])
    print("replay: original %s, rewritten %s" % (st0, st1))
    if st0 != "ok" or st1 != "ok":
        if st0 == "ok":
            ctx.violation({"clause": rp.get("clause"), "exception": st1}, "rewritten description fails: %s" % st1, rp)
        return
    ex = rw.expect_from_json(rp.get("expect", {}))
    diffs = compare_specs(rp["spec"], rp["rewritten"], r0, r1, ex)
    if rp.get("scope") == "hyd":
        diffs = [x for x in diffs if x[1].split("<->")[0].split("(")[0] in HYD_ONLY]
    for d in diffs[:20]:
        print("  differs: %s.%s row %s: %r vs %r" % d)
    if diffs and lift_direction_differs(r0, r1):
        print("replay: a pump / compressor runs forward in one description and backward in the other: the network has "
              "two solutions (non-monotone lift law); not decidable by comparison")
        return
    if not diffs:
        print("replay: the two descriptions agree on the current tree")
    for d in diffs:
        sig = classify(rp.get("clause"), None, rp["spec"], d, rp["rewritten"])
        if ctx.violation(sig, "%s: %s.%s of row %s: %r vs %r" % ((rp.get("clause"),) + tuple(d)), rp) == "violation":
            break
