"""store_seed.py <src dir> <ID e.g. C05-2> <property> <status> <note...>  -> seeded/<ID>/ with meta.json updated"""
import json, os, shutil, sys
src, sid, prop, status = sys.argv[1:5]
note = " ".join(sys.argv[5:])
dst = os.path.join("/verif/seeded", sid)
os.makedirs(dst, exist_ok=True)
for f in ("patch.diff", "demo.py", "meta.json"):
    if os.path.exists(os.path.join(src, f)):
        shutil.copy(os.path.join(src, f), dst)
p = os.path.join(dst, "meta.json")
d = json.load(open(p)) if os.path.exists(p) else {}
d["id"], d["breaks_property"] = sid, prop
d.setdefault("confirmed", {}).update({"demo_clean_tree_exit": 0, "demo_changed_tree_exit": 1,
                                       "how": "tools/seedtest.sh seeded/%s %s (scratch worktree of /repo HEAD + private Coq copy)" % (sid, prop)})
d.setdefault("check_history", []).append({"status": status, "note": note})
json.dump(d, open(p, "w"), indent=1)
print("stored", sid, status)
