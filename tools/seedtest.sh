#!/bin/sh
# tools/seedtest.sh <seed-dir with patch.diff [demo.py]> <Cxx> [tier]
# Applies the seeded change to a scratch worktree of /repo (never to /repo itself), runs the demo on
# the clean and the changed tree, runs the check against the changed tree, removes the worktree and
# re-runs nothing else.  Prints one summary line.
D="$(cd "$1" && pwd)"; P="$2"; TIER="${3:-quick}"   # absolute seed dir
WT="/tmp/seedwt_$$"
cd "$(dirname "$0")/.."
git -C /repo worktree add --detach "$WT" HEAD >/dev/null 2>&1 || { echo "worktree failed"; exit 2; }
demo_clean="-"; demo_changed="-"
if [ -f "$D/demo.py" ]; then
  (cd "$D" && PYTHONPATH="$WT/src" timeout 600 /venv/bin/python demo.py >/dev/null 2>&1); demo_clean=$?
fi
if ! git -C "$WT" apply "$D/patch.diff" 2>/dev/null; then
  echo "SEED $D: patch does not apply"; git -C /repo worktree remove --force "$WT"; exit 2
fi
if [ -f "$D/demo.py" ]; then
  (cd "$D" && PYTHONPATH="$WT/src" timeout 600 /venv/bin/python demo.py >/dev/null 2>&1); demo_changed=$?
fi
mkdir -p .scratch/seed
# private copy of the Coq tree so that regenerated Gen files of the changed tree never touch the shared one
SC="$(pwd)/.scratch/seedcoq_$$"
rm -rf "$SC"; cp -r coq "$SC"
export VERIF_COQ="$SC"
LOG=".scratch/seed/$(basename $(dirname $D))_$(basename $D)_$P.log"
VERIF_REPO="$WT" ./check "$P" --tier "$TIER" > "$LOG" 2>&1
rc=$?
git -C /repo worktree remove --force "$WT"
rm -rf "$SC"
echo "SEED $D $P: demo clean=$demo_clean changed=$demo_changed | check rc=$rc | $(grep -c '^VIOLATION' $LOG) VIOLATION lines | $(grep '^VIOLATION' $LOG | head -1 | cut -c1-160)"
grep -A1 '^VIOLATION' "$LOG" | grep 'what:' | head -2 | cut -c1-220
