"""Single source for MANIFEST.json: per property what is claimed and how. `python tools/registry.py`
rewrites /verif/MANIFEST.json."""
import json
import os

VERIF = os.path.dirname(os.path.dirname(os.path.abspath(__file__)))
ALL = ["C%02d" % i for i in range(1, 21)]

TB = ("Trusted base: Coq 8.16.1 kernel + vm_compute (no native_compute); axioms as Print Assumptions lists them "
      "(written into the evidence file on every run); the generators/translators under /verif/tools; the "
      "correspondence harness; oracles listed in DESIGN.md 2.4 (spsolve, scipy newton, interp1d, pandas, networkx, "
      "numba codegen, pandapower) are modelled, not verified.")

def load_claims():
    """each finished property module tools/props/cXX.py defines CLAIM = {text, note, technique, design}"""
    import importlib
    import sys
    sys.path.insert(0, os.path.join(VERIF, "tools"))
    out = {}
    acc = os.path.join(VERIF, "tools", "accepted.txt")
    accepted = set(open(acc).read().split()) if os.path.exists(acc) else set(ALL)
    for pid in ALL:
        if pid not in accepted:
            continue
        try:
            mod = importlib.import_module("props." + pid.lower())
        except ModuleNotFoundError:
            continue
        c = getattr(mod, "CLAIM", None)
        if c:
            c = dict(c)
            c["note"] = c["note"] + " " + TB
            out[pid] = c
    return out


CLAIMS = load_claims()

NOT_YET = "check not built yet in this round; see DESIGN.md section 4 for the planned model and theorems"


def manifest():
    checks = []
    for pid in ALL:
        if pid not in CLAIMS:
            continue
        c = CLAIMS[pid]
        checks.append({
            "property_id": pid,
            "quick_cmd": "./check %s --tier quick" % pid,
            "thorough_cmd": "./check %s --tier thorough" % pid,
            "evidence_file": "/verif/evidence/%s.json" % pid,
            "replay_cmd_template": "./check %s --replay {path}" % pid,
            "engine": "coq-proof",
            "level_claimed": {"category": "proof", "text": c["text"], "design_ref": c["design"]},
            "level_note": c["note"],
            "technique": c["technique"],
        })
    return {
        "version": 1,
        "setup_cmd": "sh tools/setup.sh",
        "hooks": {"guard": "PANDAPIPES_VERIF", "enable": "no source hooks: the harness wraps functions at import time "
                  "(sys.modules[...]) and drives the pipeline stage by stage; PANDAPIPES_VERIF=1 is exported by ./check "
                  "but no code in /repo reads it",
                  "baseline_off_cmd": "cd /repo && /venv/bin/python -m pytest -ra -q -p no:cacheprovider --timeout=900 "
                                      "--continue-on-collection-errors",
                  "source_commits": [], "add_only": True},
        "engines": [{"name": "coq-proof", "path": "/verif/coq", "serves_properties": sorted(CLAIMS),
                     "kind_free_text": "Coq 8.16.1 development (models, proofs, property theorems) + Python "
                                       "translators and correspondence harness under /verif/tools"}],
        "checks": checks,
        "not_applicable": [{"property_id": p, "reason": NOT_YET} for p in ALL if p not in CLAIMS],
        "notes": "Every check: regenerate Gen/*.v from /repo -> rebuild the property's theorems -> run the "
                 "model/implementation correspondence inside Coq -> monitors on real pipeflow runs -> verdict "
                 "(DESIGN.md 2.5). known_findings.json lists genuine defects (known / fixed).",
    }


if __name__ == "__main__":
    with open(os.path.join(VERIF, "MANIFEST.json"), "w") as f:
        json.dump(manifest(), f, indent=1)
    print("MANIFEST.json written: %d checks" % len(manifest()["checks"]))
