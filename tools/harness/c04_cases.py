"""C04: capture the structural state of the real pipeline (pit columns, masks, reduced columns, lookups)
and render it as Coq cases for coq/C04/Model.v."""
import os
import sys

import numpy as np

sys.path.insert(0, os.path.dirname(os.path.dirname(os.path.abspath(__file__))))
from vlib import cz, cnat, cbool, clist  # noqa: E402
from harness import drive  # noqa: E402
from harness import c0406_common as cm  # noqa: E402


def idx():
    import pandapipes.idx_node as n
    import pandapipes.idx_branch as b
    return n, b


def setup_pit(net, **kw):
    s = drive.psetup()
    s.init_options(net, **kw)
    s.init_all_result_tables(net)
    s.create_lookups(net)
    s.initialize_pit(net)
    net.converged = False
    return s


DIRECTED_KINDS = ("press_control",)                 # documented: only the pressure controller acts one way
FRC_ALWAYS = ("heat_consumer",)                     # documented: never a hydraulic connection by itself
FRC_IF_CONTROL_ACTIVE = ("flow_control",)           # a flow controller that controls fixes the flow, a passive one connects


def doc_flags(net):
    """DIRECTED / FLOW_RETURN_CONNECT per branch pit row as the component documentation defines them (from the
    table kinds and control_active), independent of what the pit columns hold"""
    L = net["_lookups"]
    nb = L["branch_length"]
    dr, frc = np.zeros(nb, dtype=bool), np.zeros(nb, dtype=bool)
    for tbl, (f, t) in L["branch_from_to"].items():
        if tbl in DIRECTED_KINDS:
            dr[f:t] = True
        if tbl in FRC_ALWAYS:
            frc[f:t] = True
        if tbl in FRC_IF_CONTROL_ACTIVE and t > f:
            frc[f:t] = net[tbl].control_active.values.astype(bool)
    return dr, frc


def doc_slack(net):
    """pressure-fixed start nodes as documented: junctions of IN-SERVICE ext grids of type p / pt and flow junctions of
    IN-SERVICE circulation pumps (type p / pt) - taken from the tables, not from the NODE_TYPE column of the pit"""
    L = net["_lookups"]
    out = np.zeros(L["node_length"], dtype=bool)
    jl = L["node_index"]["junction"]
    for tbl, col in (("ext_grid", "junction"), ("circ_pump_pressure", "flow_junction"), ("circ_pump_mass", "flow_junction")):
        if tbl in net and len(net[tbl]):
            t = net[tbl]
            m = t.in_service.values.astype(bool) & np.isin(t.type.values, ["p", "pt"])
            out[jl[t[col].values[m].astype(int)]] = True
    return out


def branches_literal(bp, net=None):
    """structural branch rows; DIRECTED / FRC are the *documented* flags when the net is given (the model then says
    what the property says; a pit that flags other kinds shows up as a mask mismatch)"""
    n, b = idx()
    fr = cm.as_int_list(bp[:, b.FROM_NODE], "FROM_NODE")
    to = cm.as_int_list(bp[:, b.TO_NODE], "TO_NODE")
    act = bp[:, b.ACTIVE].astype(bool)
    if net is not None:
        dr, frc = doc_flags(net)
    else:
        dr = bp[:, b.DIRECTED].astype(bool)
        frc = bp[:, b.FLOW_RETURN_CONNECT].astype(bool)
    return clist(["{| b_from := %s; b_to := %s; b_active := %s; b_directed := %s; b_frc := %s |}"
                  % (cnat(f), cnat(t), cbool(a), cbool(d), cbool(c)) for f, t, a, d, c in zip(fr, to, act, dr, frc)])


def masks_literal(obs):
    if obs is None:
        return "None"
    return "(Some (%s, %s))" % (cm.bl(obs[0]), cm.bl(obs[1]))


def conn_case(net, check=True):
    """(coq text, info) for identify_active_nodes_branches(hydraulic=True) on the freshly built pit"""
    n, b = idx()
    s = setup_pit(net, check_connectivity=check)
    npit, bpit = net["_pit"]["node"], net["_pit"]["branch"]
    lit_bs = branches_literal(bpit, net)
    ddr, dfrc = doc_flags(net)
    nact = npit[:, n.ACTIVE].astype(bool)
    slack = doc_slack(net)           # documented supplies; a pit that fixes other nodes shows up as a mask mismatch
    slack_as_documented = bool(np.array_equal(slack, npit[:, n.NODE_TYPE] == n.P))
    try:
        s.identify_active_nodes_branches(net)
        obs = (net["_lookups"]["node_active_hydraulics"].copy(), net["_lookups"]["branch_active_hydraulics"].copy())
    except s.PipeflowNotConverged:
        obs = None
    txt = ("{| cc_n := %s; cc_bs := %s; cc_nact := %s; cc_slack := %s; cc_check := %s; cc_obs := %s |}"
           % (cnat(len(npit)), lit_bs, cm.bl(nact), cm.bl(slack), cbool(check), masks_literal(obs)))
    info = {"nodes": len(npit), "branches": len(bpit), "failed": obs is None,
            "unsupplied_nodes": int(np.sum(~obs[0])) if obs else len(npit),
            "frc": int(np.sum(dfrc)), "directed": int(np.sum(ddr)),
            "slack_as_documented": slack_as_documented,
            "flags_as_documented": bool(np.array_equal(ddr, bpit[:, b.DIRECTED].astype(bool)) and
                                        np.array_equal(dfrc, bpit[:, b.FLOW_RETURN_CONNECT].astype(bool)))}
    return txt, info, obs


def heat_case(net):
    """identify_active_nodes_branches(hydraulic=False) right after the hydraulic identification"""
    n, b = idx()
    s = drive.psetup()
    npit, bpit = net["_pit"]["node"], net["_pit"]["branch"]
    L = net["_lookups"]
    nact, bact = L["node_active_hydraulics"].copy(), L["branch_active_hydraulics"].copy()
    tsl = (npit[:, n.NODE_TYPE_T] == n.T) | (npit[:, n.NODE_TYPE_T] == n.GE)
    try:
        s.identify_active_nodes_branches(net, False)
        obs = (L["node_active_heat_transfer"].copy(), L["branch_active_heat_transfer"].copy())
    except s.PipeflowNotConverged:
        obs = None
    return ("{| hc_n := %s; hc_bs := %s; hc_bact := %s; hc_nact := %s; hc_tslack := %s; hc_obs := %s |}"
            % (cnat(len(npit)), branches_literal(bpit, net), cm.bl(bact), cm.bl(nact), cm.bl(tsl), masks_literal(obs)))


def tabs_literal(net, kind, names):
    """[(table, (f, t), (labels, start))] for the tables of this pit type that own an index lookup"""
    L = net["_lookups"]
    out = []
    for tbl in L[kind + "_index"].keys():
        f, t = L[kind + "_from_to"][tbl]
        labels = [int(i) for i in net[tbl].index.values]
        out.append("(%s, (%s, %s), (%s, %s))" % (cnat(names(tbl)), cnat(f), cnat(t), cm.zl(labels), cz(f)))
    return clist(out)


def fts_literal(net, kind, names):
    L = net["_lookups"]
    n2t = L[kind + "_table"]["n2t"]
    out = []
    for _, tbl in sorted(n2t.items()):
        f, t = L[kind + "_from_to"][tbl]
        out.append("(%s, (%s, %s))" % (cnat(names(tbl)), cnat(f), cnat(t)))
    return clist(out)


def red_case(net, mode="hydraulics"):
    """reduce_pit on the identified masks; everything reduce_pit / reduce_lookups produce that is structural"""
    n, b = idx()
    s = drive.psetup()
    s.reduce_pit(net, mode=mode)
    L = net["_lookups"]
    npit, bpit = net["_pit"]["node"], net["_pit"]["branch"]
    anp, abp = net["_active_pit"]["node"], net["_active_pit"]["branch"]
    names = cm.Names()
    nmask, bmask = L["node_active_" + mode], L["branch_active_" + mode]
    ft = list(zip(cm.as_int_list(abp[:, b.FROM_NODE], "aFROM"), cm.as_int_list(abp[:, b.TO_NODE], "aTO")))
    txt = ("{| rc_bs := %s; rc_nmask := %s; rc_bmask := %s; rc_ft := %s; rc_node_elm := %s; rc_branch_elm := %s; "
           "rc_node_tabs := %s; rc_branch_tabs := %s; rc_node_fts := %s; rc_branch_fts := %s; "
           "rc_node_idx_active := %s; rc_branch_idx_active := %s; rc_node_ft_active := %s; rc_branch_ft_active := %s; "
           "rc_active_node_elm := %s; rc_active_branch_elm := %s |}"
           % (branches_literal(bpit), cm.bl(nmask), cm.bl(bmask), cm.zpl(ft),
              cm.zl(cm.as_int_list(npit[:, n.ELEMENT_IDX], "nELM")), cm.zl(cm.as_int_list(bpit[:, b.ELEMENT_IDX], "bELM")),
              tabs_literal(net, "node", names), tabs_literal(net, "branch", names),
              fts_literal(net, "node", names), fts_literal(net, "branch", names),
              cm.idx_list(L["node_index_active_" + mode], names), cm.idx_list(L["branch_index_active_" + mode], names),
              cm.ft_list(L["node_from_to_active_" + mode], names), cm.ft_list(L["branch_from_to_active_" + mode], names),
              cm.zl(cm.as_int_list(anp[:, n.ELEMENT_IDX], "anELM")), cm.zl(cm.as_int_list(abp[:, b.ELEMENT_IDX], "abELM"))))
    return txt


def apply_flags(net, flags, bits):
    for (tbl, col, i), bit in zip(flags, bits):
        net[tbl].at[i, col] = bool(bit)


def restart_case(net, rng):
    """drive the real pipeflow._restart_connectivity_check: a 'component' switches some active rows off in the active
    pit; returns the Coq literal or None"""
    n, b = idx()
    pf = drive.ppipeflow()
    L = net["_lookups"]
    npit, bpit = net["_pit"]["node"], net["_pit"]["branch"]
    anp, abp = net["_active_pit"]["node"], net["_active_pit"]["branch"]
    if rng.random() < 0.8 and len(abp):
        for _ in range(rng.randint(1, 2)):
            abp[rng.randrange(len(abp)), b.ACTIVE] = 0.0
    if rng.random() < 0.2 and len(anp) > 2:
        anp[rng.randrange(len(anp)), n.ACTIVE] = 0.0
    st = ("{| r_pn := %s; r_pb := %s; r_mn := %s; r_mb := %s; r_an := %s; r_ab := %s |}"
          % (cm.bl(npit[:, n.ACTIVE]), cm.bl(bpit[:, b.ACTIVE]), cm.bl(L["node_active_hydraulics"]),
             cm.bl(L["branch_active_hydraulics"]), cm.bl(anp[:, n.ACTIVE]), cm.bl(abp[:, b.ACTIVE])))
    s = drive.psetup()
    try:
        flag = pf._restart_connectivity_check(net)
    except s.PipeflowNotConverged:
        return None
    L = net["_lookups"]
    return ("{| rs_state := %s; rs_masks := (%s, %s); rs_flag := %s; rs_pn := %s; rs_pb := %s; rs_an := %s; rs_ab := %s |}"
            % (st, cm.bl(L["node_active_hydraulics"]), cm.bl(L["branch_active_hydraulics"]), cbool(bool(flag)),
               cm.bl(net["_pit"]["node"][:, n.ACTIVE]), cm.bl(net["_pit"]["branch"][:, b.ACTIVE]),
               cm.bl(net["_active_pit"]["node"][:, n.ACTIVE]), cm.bl(net["_active_pit"]["branch"][:, b.ACTIVE])))
