"""C09 - rewrites of a network spec (tools/harness/gen.py) into a physically equivalent description,
and the comparison of the two result sets.

Every rewrite returns (new_spec, expect) where `expect` tells compare() how rows of the rewritten net
correspond to rows of the original one:
    expect = {"reversed": {table: set(labels)},        from/to columns swapped for these rows
              "p_shift": c,                            all pressures of the rewritten net are higher by c
              "skip_tables": set(res tables),          tables whose rows are not comparable (merged loads)
              "row_map": {table: {label_orig: label_new | None}},   None: row has no counterpart
              "series": {pipe_label: [piece labels]}}  pipe split into pieces
"""
import copy
import math

PIPE = "create_pipe_from_parameters"
LOADS = {"create_sink": 1.0, "create_source": -1.0, "create_mass_storage": 1.0}
TBL = {"create_junction": "junction", PIPE: "pipe", "create_valve": "valve", "create_sink": "sink",
       "create_source": "source", "create_mass_storage": "mass_storage", "create_ext_grid": "ext_grid",
       "create_pump": "pump", "create_compressor": "compressor", "create_flow_control": "flow_control",
       "create_pressure_control": "press_control", "create_heat_exchanger": "heat_exchanger",
       "create_heat_consumer": "heat_consumer", "create_circ_pump_const_pressure": "circ_pump_pressure",
       "create_circ_pump_const_mass_flow": "circ_pump_mass"}

# result columns that are the unknowns of the calculation (see compare())
NODE_COLS = ("p_bar", "t_k")
FROM_TO = [("p_from_bar", "p_to_bar"), ("t_from_k", "t_to_k"), ("mdot_from_kg_per_s", "mdot_to_kg_per_s")]
OTHER = ("t_outlet_k", "mdot_kg_per_s", "mdot_flow_kg_per_s")
PRESSURE_COLS = ("p_bar", "p_from_bar", "p_to_bar")


def pi_valve_pipes(spec):
    return {kw["element"] for fn, kw in spec["ops"] if fn == "create_valve" and kw.get("et") == "pi"}


def labels(spec, fn):
    return [kw["index"] for f, kw in spec["ops"] if f == fn]


# ------------------------------------------------------------------------------------------ 1 reversal
def reversible_ops(spec):
    """positions of ops whose from / to may be swapped: pipes, junction-junction valves, heat exchangers
    (pumps, compressors, controllers and heat consumers are directional by definition)"""
    out = []
    for i, (fn, kw) in enumerate(spec["ops"]):
        if fn == PIPE or fn == "create_heat_exchanger" or (fn == "create_valve" and kw.get("et", "ju") == "ju"):
            out.append(i)
    return out


def reverse(spec, positions):
    s = copy.deepcopy(spec)
    rev = {}
    for i in positions:
        fn, kw = s["ops"][i]
        if fn == "create_valve":
            kw["junction"], kw["element"] = kw["element"], kw["junction"]
        else:
            kw["from_junction"], kw["to_junction"] = kw["to_junction"], kw["from_junction"]
        rev.setdefault(TBL[fn], set()).add(kw["index"])
    return s, {"reversed": rev}


# ------------------------------------------------------------------------------------------ 2 sections -> 1
def one_section(spec):
    s = copy.deepcopy(spec)
    n = 0
    for fn, kw in s["ops"]:
        if fn == PIPE and kw.get("sections", 1) > 1:
            kw["sections"] = 1
            n += 1
    return s, {"changed": n}


def set_sections(spec, n, only=None):
    s = copy.deepcopy(spec)
    for fn, kw in s["ops"]:
        if fn == PIPE and (only is None or kw["index"] in only):
            kw["sections"] = n
    return s, {}


# ------------------------------------------------------------------------------------------ 3 series split
def split_series(spec, only=None, force_n=None):
    """every in-service multi-section pipe (not referenced by a pi valve) becomes `sections` one-section pipes
    of length / n, loss coefficient / n, joined by new junctions at interpolated heights"""
    s = copy.deepcopy(spec)
    jl = labels(s, "create_junction")
    plabels = labels(s, PIPE)
    nextj = max(jl) + 1000
    nextp = max(plabels) + 1000
    heights = {kw["index"]: kw.get("height_m", 0.) for fn, kw in s["ops"] if fn == "create_junction"}
    jkw = {kw["index"]: kw for fn, kw in s["ops"] if fn == "create_junction"}
    skip = pi_valve_pipes(s)
    ops, series = [], {}
    for fn, kw in s["ops"]:
        n = kw.get("sections", 1) if force_n is None else force_n
        if fn != PIPE or n <= 1 or kw["index"] in skip or kw.get("in_service", True) is False or \
                (only is not None and kw["index"] not in only):
            ops.append([fn, kw])
            continue
        a, b = kw["from_junction"], kw["to_junction"]
        ha, hb = heights[a], heights[b]
        nodes = [a]
        for k in range(1, n):
            j = nextj
            nextj += 1
            ops.append(["create_junction", {"index": j, "pn_bar": jkw[a]["pn_bar"], "tfluid_k": jkw[a]["tfluid_k"],
                                            "height_m": ha + (hb - ha) * k / n}])
            nodes.append(j)
        nodes.append(b)
        pieces = []
        for k in range(n):
            pk = dict(kw)
            pk.update(from_junction=nodes[k], to_junction=nodes[k + 1], sections=1,
                      length_km=kw["length_km"] / n, loss_coefficient=kw.get("loss_coefficient", 0.) / n)
            pk["index"] = kw["index"] if k == 0 else nextp
            if k:
                nextp += 1
            pieces.append(pk["index"])
            ops.append([PIPE, pk])
        series[kw["index"]] = pieces
    s["ops"] = ops
    return s, {"series": series}


# ------------------------------------------------------------------------------------------ 4 load merge
def merge_loads(spec, as_source=False):
    """all sinks / sources / mass storages of a junction -> one sink (or one source of the negated flow) with the
    summed scaled mass flow of those in service"""
    s = copy.deepcopy(spec)
    total, first_pos = {}, {}
    ops = []
    for i, (fn, kw) in enumerate(s["ops"]):
        if fn in LOADS:
            j = kw["junction"]
            if kw.get("in_service", True):
                total[j] = total.get(j, 0.0) + LOADS[fn] * kw.get("scaling", 1.0) * (kw["mdot_kg_per_s"] or 0.0)  # None = NaN -> 0
            else:
                total.setdefault(j, 0.0)
            if j not in first_pos:
                first_pos[j] = len(ops)
                ops.append(None)
        else:
            ops.append([fn, kw])
    lab = 0
    for j, pos in first_pos.items():
        if as_source:
            ops[pos] = ["create_source", {"index": lab, "junction": j, "mdot_kg_per_s": -total[j], "scaling": 1.0}]
        else:
            ops[pos] = ["create_sink", {"index": lab, "junction": j, "mdot_kg_per_s": total[j], "scaling": 1.0}]
        lab += 1
    s["ops"] = ops
    return s, {"skip_tables": {"res_sink", "res_source", "res_mass_storage"}, "merged": len(first_pos)}


# ------------------------------------------------------------------------------------------ 5 disabled = absent
def delete_disabled(spec):
    """drop every out-of-service element and closed junction-junction valve (out-of-service junctions together with
    what is attached to them); elements referenced by a kept pi valve are kept"""
    s = copy.deepcopy(spec)
    keep_pipes = pi_valve_pipes(s)
    dead_j = {kw["index"] for fn, kw in s["ops"] if fn == "create_junction" and kw.get("in_service", True) is False}
    ops, row_map, n = [], {}, 0

    def touches_dead(kw):
        return any(kw.get(c) in dead_j for c in ("junction", "from_junction", "to_junction", "return_junction",
                                                 "flow_junction")) or \
            (kw.get("et", "ju") == "ju" and "element" in kw and kw["element"] in dead_j)
    for fn, kw in s["ops"]:
        tbl = TBL[fn]
        dead = False
        if fn == "create_junction":
            dead = kw["index"] in dead_j
        elif touches_dead(kw):
            dead = True
        elif fn == "create_valve":
            dead = kw.get("opened", True) is False and kw.get("et", "ju") == "ju"
        elif kw.get("in_service", True) is False:
            dead = not (fn == PIPE and kw["index"] in keep_pipes)
        if dead:
            row_map.setdefault(tbl, {})[kw["index"]] = None
            n += 1
        else:
            ops.append([fn, kw])
    s["ops"] = ops
    return s, {"row_map": row_map, "deleted": n}


def disable_candidates(spec):
    """{kind: [op positions]} of elements that are in service and can be switched off on their own: every element kind
    with an in_service flag, valves (opened); ext grids and circulation pumps only next to a second one in service"""
    out = {}
    for i, (fn, kw) in enumerate(spec["ops"]):
        if fn == "create_junction":
            continue
        if fn == "create_valve":
            on = kw.get("opened", True) and kw.get("et", "ju") == "ju"
        else:
            on = kw.get("in_service", True)
        if on:
            kind = TBL[fn]
            if fn == "create_flow_control":
                kind += "_active" if kw.get("control_active", True) else "_passive"
            out.setdefault(kind, []).append(i)
    supplies = ("ext_grid", "circ_pump_pressure", "circ_pump_mass")
    if sum(len(out.get(k, [])) for k in supplies) < 2:       # the last pressure-fixing element stays
        for k in supplies:
            out.pop(k, None)
    keep = pi_valve_pipes(spec)
    if "pipe" in out:
        out["pipe"] = [i for i in out["pipe"] if spec["ops"][i][1]["index"] not in keep]
        if not out["pipe"]:
            out.pop("pipe")
    return out


def disable(spec, position):
    """the same net with one more element switched off (opened=False for a valve, in_service=False otherwise)"""
    s = copy.deepcopy(spec)
    fn, kw = s["ops"][position]
    if fn == "create_valve":
        kw["opened"] = False
    else:
        kw["in_service"] = False
    return s


# ------------------------------------------------------------------------------------------ 6 pressure shift
def shift_pressure(spec, c):
    s = copy.deepcopy(spec)
    n = 0
    for fn, kw in s["ops"]:
        if fn == "create_ext_grid":
            kw["p_bar"] = kw["p_bar"] + c
            n += 1
        elif fn in ("create_circ_pump_const_pressure", "create_circ_pump_const_mass_flow"):
            kw["p_flow_bar"] = kw["p_flow_bar"] + c
            n += 1
        elif fn == "create_pressure_control":
            kw["controlled_p_bar"] = kw["controlled_p_bar"] + c
            n += 1
    return s, {"p_shift": c, "shifted": n}


# ------------------------------------------------------------------------------------------ comparison
def _get(res, tbl, col, lab):
    t = res.get(tbl)
    if t is None or col not in t["cols"]:
        return "absent"
    try:
        p = t["index"].index(lab)
    except ValueError:
        return "absent"
    return t["cols"][col][p]


def _differs(x, y, atol):
    if x is None or y is None:
        return x is not y
    return not (x == y or abs(x - y) <= atol)


def stalled_flow(*results, small=1e-5):
    """Sum of |m| over all branches with 0 < |m| < small.  A branch whose law has no linear term (valve, gas pipe:
    dp = c m|m|) and whose end pressures coincide has a double root at m = 0: Newton stalls there at |m| ~ sqrt(eps_p / c)
    >> tol_m, on either side of zero depending on the declared direction.  The stalled value bounds its own error and
    mass balance hands that error on to the neighbouring branches, so it is added to the mass-flow tolerance."""
    tot = 0.0
    for r in results:
        for t in r.values():
            col = t["cols"].get("mdot_from_kg_per_s")
            if col:
                tot += sum(abs(x) for x in col if x is not None and 0.0 < abs(x) < small)
    return tot


def min_flow(*results, floor=1e-6):
    """smallest |m| >= floor over all branches of the given results (1.0 if none)"""
    best = 1.0
    for r in results:
        for t in r.values():
            col = t["cols"].get("mdot_from_kg_per_s")
            if col:
                for x in col:
                    if x is not None and floor <= abs(x) < best:
                        best = abs(x)
    return best


TEMP_COLS = ("t_k", "t_from_k", "t_to_k", "t_outlet_k")
MASS_COLS = ("mdot_from_kg_per_s", "mdot_to_kg_per_s", "mdot_kg_per_s", "mdot_flow_kg_per_s")


# how a column behaves:  kind  p: pressure (shifted by p_shift), dp: pressure difference, t: temperature, m: mass flow,
#                              d: derived from the flow of the row (v, vdot, Re, lambda, normfactor, friction loss), q: heat
KIND = {"p_bar": "p", "p_from_bar": "p", "p_to_bar": "p", "deltap_bar": "dp",
        "t_k": "t", "t_from_k": "t", "t_to_k": "t", "t_outlet_k": "t", "deltat_k": "t",
        "mdot_kg_per_s": "m", "mdot_from_kg_per_s": "m", "mdot_to_kg_per_s": "m", "mdot_flow_kg_per_s": "m",
        "qext_w": "q", "compr_power_mw": "q"}
# from / to pairs: (from column, to column, sign of the exchanged value for a reversed row)
PAIRS = [("p_from_bar", "p_to_bar", 1.0), ("t_from_k", "t_to_k", 1.0), ("mdot_from_kg_per_s", "mdot_to_kg_per_s", 1.0),
         ("v_from_m_per_s", "v_to_m_per_s", -1.0), ("normfactor_from", "normfactor_to", 1.0)]
# single columns that change sign with the declared direction (dp_friction_loss_bar: liquids only, gases report |.|)
ODD = ("v_mean_m_per_s", "vdot_m3_per_s", "vdot_norm_m3_per_s")
# per-section quantities reported as the mean over the sections of a pipe
MEAN_COLS = ("v_mean_m_per_s", "vdot_m3_per_s", "vdot_norm_m3_per_s", "reynolds", "lambda")
DPF = "dp_friction_loss_bar"


def compare(r0, r1, expect, atol=1e-8, tol_m=1e-10, gas=False, sections0=None, sections1=None):
    """r0, r1: drive.snapshot_results of the original and the rewritten net.  Every numeric result column is compared.
    Tolerances are derived from the solver tolerances:
      pressures 1e-8; mass flows 1e-8 + stalled flows; temperatures 1e-8 + 40 tol_m / min|m|;
      a column X that is a function of the row's flow m (v, vdot, Re, lambda, normfactor, friction loss) moves by at most
      |X| dm/|m| when m moves by dm (X ~ m, lambda ~ c + 64/Re, dp ~ m|m|: factor 2), so |X|(3 atol_m/|m| + 1e-7); rows
      with |m| < 1e-6 are not compared on such columns.  (Grouped sums are np.add.reduceat since /repo fafb76b: plain
      round-off, covered by the 1e-7 relative term.)
    sections0 / sections1: {pipe label: sections} of the two descriptions (kept for callers; not needed any more).
    Returns a list of (table, column, label, original, rewritten)."""
    diffs = []
    atol_m = atol + 4.0 * stalled_flow(r0, r1)
    # outlet temperature of a cooling branch: T_out = T_ext + (T_in - T_ext) exp(-beta/|m|), so
    # |dT_out/dm| <= (T_in - T_ext)/(e |m|) <= 40 K / |m|: an admissible flow error tol_m moves temperatures by
    # up to 40 tol_m / min|m| (and mixing hands it on downstream)
    atol_t = atol + 40.0 * tol_m / min_flow(r0, r1)
    # a stalled branch (flow at noise level, sign undetermined - see stalled_flow) feeds |m| cp dT of energy into a node
    # whose throughput is at least min|m|: mixing temperatures move by up to dT_max * stalled / min|m|, dT_max <= 100 K
    atol_t += 100.0 * stalled_flow(r0, r1) / min_flow(r0, r1)
    rev = expect.get("reversed", {})
    c = expect.get("p_shift", 0.0)
    skip = expect.get("skip_tables", set())
    row_map = expect.get("row_map", {})
    series = expect.get("series", {})
    sections0, sections1 = sections0 or {}, sections1 or {}

    def tol_of(col, x, m_row):
        k = KIND.get(col, "d")
        if k in ("p", "dp"):
            return atol
        if k == "t":
            return atol_t
        if k == "m":
            return atol_m
        if k == "q":
            return 1e-6 * abs(x) + 4200.0 * (atol_t * abs(m_row or 1.0) + 100.0 * atol_m)
        if m_row is None:
            return 1e-7 * abs(x) + 1e-12
        if abs(m_row) < 1e-6:
            return None
        return abs(x) * (3.0 * atol_m / abs(m_row) + 1e-7) + 1e-12

    def check(tbl, lab, name, col, x, y, m_row):
        if y == "absent":
            diffs.append((tbl, name, lab, x, "row/column missing in rewritten net"))
            return
        if x is None or y is None:
            if x is not y:
                diffs.append((tbl, name, lab, x, y))
            return
        t = tol_of(col, x, m_row)
        if t is not None and not (x == y or abs(x - y) <= t):
            diffs.append((tbl, name, lab, x, y))

    for tbl in sorted(r0):
        if tbl in skip:
            continue
        name = tbl[4:]
        cols = r0[tbl]["cols"]
        paired = {}
        for a, b, sg in PAIRS:
            paired[a] = (b, sg)
            paired[b] = (a, sg)
        for lab in r0[tbl]["index"]:
            lab1 = row_map.get(name, {}).get(lab, lab)
            if lab1 is None:
                continue
            is_rev = lab in rev.get(name, ())
            pieces = series.get(lab) if name == "pipe" else None
            m_row = _get(r0, tbl, "mdot_from_kg_per_s", lab)
            m_row = None if m_row in ("absent", None) else m_row
            backward = m_row is not None and m_row < 0
            for col in sorted(cols):
                x = _get(r0, tbl, col, lab)
                if isinstance(x, str):
                    continue
                col1, sg, l1 = col, 1.0, lab1
                if col in paired:
                    if is_rev:
                        col1, sg = paired[col]
                    if pieces:
                        is_from = any(col == a for a, _, _ in PAIRS)
                        l1 = pieces[0] if is_from else pieces[-1]
                elif is_rev and (col in ODD or (col == DPF and not gas)):
                    sg = -1.0
                if pieces and col == "t_outlet_k":
                    l1 = pieces[0] if backward else pieces[-1]       # the piece at the outlet in flow direction
                if pieces and col in MEAN_COLS:
                    ys = [_get(r1, tbl, col, pc) for pc in pieces]
                    y = "absent" if any(v == "absent" for v in ys) else None if any(v is None for v in ys) \
                        else sum(ys) / len(ys)
                elif col == DPF and pieces:
                    # friction loss of the element = sum over the pieces of the series (n sections = 1 section = series sum;
                    # with equal labels the plain comparison below applies)
                    ys = [_get(r1, tbl, col, pc) for pc in pieces]
                    y = "absent" if any(v == "absent" for v in ys) else None if any(v is None for v in ys) else sum(ys)
                else:
                    y = _get(r1, tbl, col1, l1)
                if y not in ("absent", None):
                    y = sg * y
                    if KIND.get(col) == "p":
                        y = y - c
                check(tbl, lab, col + ("<->" + col1 if col1 != col else ""), col, x, y, m_row)
            if pieces:   # every piece carries the same mass flow; inner pressures are those of a chain
                for pc in pieces:
                    y = _get(r1, tbl, "mdot_from_kg_per_s", pc)
                    if y == "absent" or _differs(m_row, y, atol_m):
                        diffs.append((tbl, "mdot_from_kg_per_s(piece %s)" % pc, lab, m_row, y))
    return diffs


def finite(res):
    n = 0
    for t in res.values():
        for col in t["cols"].values():
            n += sum(1 for x in col if isinstance(x, float) and not math.isnan(x))
    return n


def expect_to_json(ex):
    out = {}
    for k, v in ex.items():
        if k == "reversed":
            out[k] = {t: sorted(ls) for t, ls in v.items()}
        elif k == "skip_tables":
            out[k] = sorted(v)
        elif k == "row_map":
            out[k] = {t: [[a, b] for a, b in m.items()] for t, m in v.items()}
        elif k == "series":
            out[k] = [[a, b] for a, b in v.items()]
        else:
            out[k] = v
    return out


def expect_from_json(js):
    ex = {}
    for k, v in js.items():
        if k == "reversed":
            ex[k] = {t: set(ls) for t, ls in v.items()}
        elif k == "skip_tables":
            ex[k] = set(v)
        elif k == "row_map":
            ex[k] = {t: {a: b for a, b in m} for t, m in v.items()}
        elif k == "series":
            ex[k] = {a: b for a, b in v}
        else:
            ex[k] = v
    return ex
