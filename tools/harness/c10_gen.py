"""Generators of thermal networks for C10 / C11 (spec format of tools/harness/gen.py: {"fluid", "ops"}).

  star(rng)     k = 2..4 temperature-fixing feeders of different temperatures feed one mixing junction through
                pipes (some declared against the flow), a sink behind it; optionally a second mixing stage.
                Several inflows per junction, reverse flow, 1-4 sections, with / without heat losses.
  mesh(rng)     meshed supply net with one or two feeders and several sinks: junctions with 2+ inflows whose
                flow direction is decided by the hydraulics, not by the declaration.
  loop(rng)     district-heating loop with a circulation pump and 1-6 consumers / exchangers in all five
                heat-consumer modes, positive and negative heat flows (C11), optional extra feed-in.
  mixing_witness()  the two-stream net of DESIGN 8/#4: 370 K and 280 K, equal mass flows.
All random choices come from the rng passed in.
"""


class B:
    def __init__(self, rng, label_mode="contig"):
        self.rng = rng
        self.ops = []
        self.counters = {}
        self.label_mode = label_mode
        self.pools = {}

    def label(self, table):
        if self.label_mode == "contig":
            i = self.counters.get(table, 0)
            self.counters[table] = i + 1
            return i
        pool = self.pools.get(table)
        if pool is None:
            if self.label_mode == "sparse":
                pool = self.rng.sample(range(0, 900), 120)
            elif self.label_mode == "large":
                pool = self.rng.sample(range(100000, 100900), 120)
            elif self.label_mode == "reversed":
                pool = list(range(0, 40))             # popped from the end: 39, 38, ... (creation order != label order)
            else:                                     # "shuffled": small labels in random order, gaps at the start
                pool = self.rng.sample(range(0, 24), 24) + list(range(24, 60))[::-1]
                pool = pool[::-1]
            self.pools[table] = pool
        return pool.pop()

    def add(self, fn, table, **kw):
        kw["index"] = self.label(table)
        self.ops.append([fn, kw])
        return kw["index"]

    def junction(self, t=300.0, p=5.0):
        return self.add("create_junction", "junction", pn_bar=p, tfluid_k=t)

    def pipe(self, a, c, reverse=False, lossless=None, **kw):
        rng = self.rng
        if reverse:
            a, c = c, a
        u = 0. if lossless else rng.choice([0., 0.8, 2.5, 6.0]) if lossless is None else rng.choice([0.8, 2.5, 6.0])
        d = dict(from_junction=a, to_junction=c, length_km=rng.choice([0.05, 0.2, 0.5, 1.2]),
                 inner_diameter_mm=rng.choice([60., 80., 100., 150.]), k_mm=rng.choice([0.05, 0.2]),
                 sections=rng.choice([1, 1, 2, 3, 4]), u_w_per_m2k=u,
                 text_k=rng.choice([268.15, 283.15, 293.15]))
        d.update(kw)
        if "text_k" not in kw and rng.random() < 0.25:
            d["text_k"] = None                       # ambient of this pipe = the pipeflow option ambient_temperature
        r = rng.random()
        if r < 0.2 and not lossless and "inner_diameter_mm" not in kw:
            # library standard type with insulation: outer != inner diameter, u from u_w_per_mk
            return self.add("create_pipe", "pipe", from_junction=d["from_junction"], to_junction=d["to_junction"],
                            std_type=rng.choice(["ISOPLUS_DRE80_STD", "ISOPLUS_DRE100_STD", "ISOPLUS_DRE150_STD"]),
                            length_km=d["length_km"], sections=d["sections"], text_k=d["text_k"])
        if r < 0.55:
            d["outer_diameter_mm"] = d["inner_diameter_mm"] * rng.choice([1.1, 1.25, 1.6])     # wall + insulation
        return self.add("create_pipe_from_parameters", "pipe", **d)

    def spec(self, **extra):
        s = {"fluid": "water", "ops": self.ops}
        s.update(extra)
        return s


def mixing_witness():
    b = B(None)
    j = [b.add("create_junction", "junction", pn_bar=5., tfluid_k=320.) for _ in range(4)]
    b.add("create_ext_grid", "ext_grid", junction=j[0], p_bar=5., t_k=370., type="pt")
    b.add("create_ext_grid", "ext_grid", junction=j[1], p_bar=5., t_k=280., type="pt")
    for a in (j[0], j[1]):
        b.add("create_pipe_from_parameters", "pipe", from_junction=a, to_junction=j[2], length_km=0.1,
              inner_diameter_mm=100., k_mm=0.1, sections=1, u_w_per_m2k=0., text_k=293.15)
    b.add("create_pipe_from_parameters", "pipe", from_junction=j[2], to_junction=j[3], length_km=0.1,
          inner_diameter_mm=100., k_mm=0.1, sections=1, u_w_per_m2k=0., text_k=293.15)
    b.add("create_sink", "sink", junction=j[3], mdot_kg_per_s=2.0)
    return b.spec(kind="witness", heat_sources=False)


def star(rng):
    b = B(rng, rng.choice(["contig", "contig", "sparse", "large"]))
    k = rng.choice([2, 2, 3, 3, 4])
    lossless = rng.random() < 0.4
    temps = rng.sample([275., 285., 300., 320., 340., 355., 370.], k)
    p0 = rng.choice([4., 6.])
    feeders = [b.junction(t=rng.choice([290., 330.]), p=p0) for _ in range(k)]
    mixj = b.junction(t=rng.choice([290., 330.]), p=p0)
    for j, t in zip(feeders, temps):
        b.add("create_ext_grid", "ext_grid", junction=j, p_bar=p0, t_k=t, type="pt")
    for j in feeders:
        b.pipe(j, mixj, reverse=rng.random() < 0.4, lossless=lossless)
        if rng.random() < 0.25:
            b.pipe(j, mixj, reverse=rng.random() < 0.4, lossless=lossless)      # parallel branch
    out = b.junction(p=p0)
    b.pipe(mixj, out, reverse=rng.random() < 0.4, lossless=lossless)
    b.add("create_sink", "sink", junction=out, mdot_kg_per_s=rng.choice([0.8, 2.0, 4.0]))
    if rng.random() < 0.5:
        # second stage: another feeder joins behind the first mixing junction
        f2 = b.junction(p=p0)
        b.add("create_ext_grid", "ext_grid", junction=f2, p_bar=p0 * rng.choice([1.0, 1.02]),
              t_k=rng.choice([280., 310., 365.]), type="pt")
        b.pipe(f2, out, reverse=rng.random() < 0.4, lossless=lossless)
        out2 = b.junction(p=p0)
        b.pipe(out, out2, reverse=rng.random() < 0.4, lossless=lossless)
        b.add("create_sink", "sink", junction=out2, mdot_kg_per_s=rng.choice([1.0, 3.0]))
    if rng.random() < 0.3:
        b.add("create_sink", "sink", junction=mixj, mdot_kg_per_s=0.5)
    return b.spec(kind="star", heat_sources=False)


def mesh(rng):
    b = B(rng, rng.choice(["contig", "sparse", "large"]))
    n = rng.randint(4, 8)
    lossless = rng.random() < 0.3
    p0 = rng.choice([4., 6.])
    js = [b.junction(t=rng.choice([290., 310., 330.]), p=p0) for _ in range(n)]
    b.add("create_ext_grid", "ext_grid", junction=js[0], p_bar=p0, t_k=rng.choice([340., 360., 370.]), type="pt")
    two = rng.random() < 0.5
    if two:
        b.add("create_ext_grid", "ext_grid", junction=js[1], p_bar=p0 * rng.choice([1.0, 0.99, 1.01]),
              t_k=rng.choice([285., 300., 352.]), type="pt")
    for i in range(1, n):
        b.pipe(js[rng.randrange(0, i)], js[i], reverse=rng.random() < 0.4, lossless=lossless)
    for _ in range(rng.randint(1, 3)):
        a, c = rng.sample(js, 2)
        b.pipe(a, c, lossless=lossless)
    for j in js[2:]:
        if rng.random() < 0.7:
            b.add("create_sink", "sink", junction=j, mdot_kg_per_s=rng.choice([0.3, 0.8, 1.5]))
    b.add("create_sink", "sink", junction=js[-1], mdot_kg_per_s=1.0)
    return b.spec(kind="mesh", heat_sources=False)


HC_MODES = ["MF_QE", "MF_DT", "MF_TR", "QE_DT", "QE_TR"]


def loop(rng, n_cons=None, pump=None, modes=None, bidirectional_ok=True, p_only=None):
    """supply / return ladder with a circulation pump; rung i carries a heat consumer (any mode), or a
    flow control + heat exchanger.  With a mass pump the last rung is a bypass pipe."""
    b = B(rng, rng.choice(["contig", "shuffled", "reversed", "sparse", "large"]))
    k = n_cons or rng.randint(1, 6)
    p0, tf = rng.choice([5., 8.]), rng.choice([350.15, 365.15, 380.15])
    pump = pump or rng.choice(["pressure", "pressure", "mass"])
    lossless = rng.random() < 0.3
    if rng.random() < 0.4:
        # junctions that are out of service / unused in front of the loop: internal positions != creation order
        for _ in range(rng.randint(1, 3)):
            b.add("create_junction", "junction", pn_bar=p0, tfluid_k=tf - rng.choice([10, 60]), in_service=rng.random() < 0.5)
    ponly = (rng.random() < 0.35) if p_only is None else p_only
    ponly_first = rng.random() < 0.6

    def p_only_part():
        # a part of the net that is pressure-fed but has no temperature feed (ext_grid type "p"): hydraulically
        # active, thermally inactive - the thermal active set is a strict subset of the hydraulic one
        js = [b.junction(t=tf - 30, p=p0) for _ in range(rng.randint(2, 3))]
        b.add("create_ext_grid", "ext_grid", junction=js[0], p_bar=p0, t_k=tf - 30, type="p")
        for x, y in zip(js, js[1:]):
            b.pipe(x, y, reverse=rng.random() < 0.3)
        b.add("create_sink", "sink", junction=js[-1], mdot_kg_per_s=rng.choice([0.5, 1.0]))
    if ponly and ponly_first:
        p_only_part()
    sup = [b.junction(t=tf - 5, p=p0) for _ in range(k + 1)]
    ret = [b.junction(t=tf - 40, p=p0) for _ in range(k + 1)]
    for i in range(k):
        b.pipe(sup[i], sup[i + 1], reverse=rng.random() < 0.3, lossless=lossless,
               inner_diameter_mm=rng.choice([100., 150.]), length_km=rng.choice([0.1, 0.3, 0.8]))
        b.pipe(ret[i + 1], ret[i], reverse=rng.random() < 0.3, lossless=lossless,
               inner_diameter_mm=rng.choice([100., 150.]), length_km=rng.choice([0.1, 0.3, 0.8]))
    rungs = []
    for i in range(1, k + 1):
        md = rng.choice([0.3, 0.6, 1.0])
        mode = (modes[i - 1] if modes else
                rng.choice(HC_MODES + ["FC_HEX", "FC_HEX"] if pump == "pressure" else HC_MODES[:3] + ["FC_HEX"]))
        kw = dict(from_junction=sup[i], to_junction=ret[i])
        neg = rng.random() < 0.2
        if mode == "MF_QE":
            kw.update(controlled_mdot_kg_per_s=md, qext_w=rng.choice([20000., 50000.]) * (-0.5 if neg else 1))
        elif mode == "MF_DT":
            kw.update(controlled_mdot_kg_per_s=md, deltat_k=rng.choice([15., 25.]) * (-0.4 if neg else 1))
        elif mode == "MF_TR":
            kw.update(controlled_mdot_kg_per_s=md, treturn_k=rng.choice([320.15, 330.15]) if not neg else tf + 8.)
        elif mode == "QE_DT":
            kw.update(qext_w=rng.choice([30000., 60000.]), deltat_k=rng.choice([20., 30.]))
        elif mode == "QE_TR":
            kw.update(qext_w=rng.choice([30000., 60000.]), treturn_k=rng.choice([320.15, 330.15]))
        if mode == "FC_HEX":
            mid = b.junction(t=tf - 20, p=p0)
            b.add("create_flow_control", "flow_control", from_junction=sup[i], to_junction=mid,
                  controlled_mdot_kg_per_s=md)
            hx = dict(from_junction=mid, to_junction=ret[i])
            against = rng.random() < 0.5
            if against:                                  # drawn against the flow: inlet is the to_junction
                hx = dict(from_junction=ret[i], to_junction=mid)
            b.add("create_heat_exchanger", "heat_exchanger", qext_w=rng.choice([20000., 40000., 90000.]) * (-0.5 if neg else 1),
                  inner_diameter_mm=80., **hx)
            if against:
                mode = "FC_HEX<"
        else:
            b.add("create_heat_consumer", "heat_consumer", **kw)
        rungs.append(mode + ("-" if neg else ""))
    if pump == "mass":
        b.add("create_circ_pump_const_mass_flow", "circ_pump_mass", return_junction=ret[0], flow_junction=sup[0],
              p_flow_bar=p0, mdot_flow_kg_per_s=0.8 * k + 1.0, t_flow_k=tf)
        b.pipe(sup[k], ret[k], lossless=True, length_km=0.05, inner_diameter_mm=50., sections=1)
    else:
        b.add("create_circ_pump_const_pressure", "circ_pump_pressure", return_junction=ret[0], flow_junction=sup[0],
              p_flow_bar=p0, plift_bar=rng.choice([1.0, 2.0]), t_flow_k=tf)
    if ponly and not ponly_first:
        p_only_part()
    if ponly:
        rungs.append("p-only-part")
    if rng.random() < 0.35:
        # stand-by elements that are not calculated: an out-of-service second pump and an out-of-service consumer
        if rng.random() < 0.7:
            b.add("create_circ_pump_const_pressure", "circ_pump_pressure", return_junction=ret[0], flow_junction=sup[0],
                  p_flow_bar=p0, plift_bar=1.5, t_flow_k=tf - 7., in_service=False)
        if rng.random() < 0.7:
            b.add("create_heat_consumer", "heat_consumer", from_junction=sup[k], to_junction=ret[k],
                  controlled_mdot_kg_per_s=0.4, qext_w=15000., in_service=False)
        rungs.append("standby")
    return b.spec(kind="loop", heat_sources=True, rungs=rungs, pump=pump,
                  has_q_modes=any(r.startswith("QE") for r in rungs))
