"""Nets for the C15 save/load differential (every component type, odd dtypes, custom fluids, controllers, multinets).
All random choices come from the rng passed in.  Each builder returns (net, description dict)."""
import numpy as np


def all_components(rng, fluid="water"):
    """one element of every component type, created through the public API"""
    import pandapipes as pp
    gas = fluid != "water"
    net = pp.create_empty_network("all_comp_%s" % fluid, fluid=fluid)
    labs = rng.sample(range(0, 60), 10)
    for l in labs:
        pp.create_junction(net, 5.0, 320.0, height_m=rng.choice([0., 2.5]), index=l, name="j%d" % l,
                           geodata=(float(l), float(l) / 3))
    j = labs
    pp.create_ext_grid(net, j[0], p_bar=5.0, t_k=330.0, name="eg")
    pp.create_pipe(net, j[0], j[1], "100_GGG", 0.4, name="std pipe", geodata=[(0, 0), (1, 1.5)])
    pp.create_pipe_from_parameters(net, j[1], j[2], 0.3, 90.0, k_mm=0.15, sections=3, u_w_per_m2k=1.5, text_k=283.0,
                                   index=7)
    pp.create_pipes_from_parameters(net, [j[2], j[3]], [j[3], j[4]], [0.2, 0.123456789012345678], 80.0)
    pp.create_valve(net, j[4], j[5], "ju", 80.0, opened=True)
    pp.create_valve(net, j[1], 7, "pi", 80.0, opened=True, name="pipe valve")
    pp.create_sink(net, j[5], 0.1 / 3)
    pp.create_source(net, j[4], 0.01)
    pp.create_mass_storage(net, j[3], 0.02, max_m_stored_kg=50.0)
    pp.create_flow_control(net, j[5], j[6], 0.02)
    pp.create_heat_exchanger(net, j[6], j[7], 1500.0, 80.0)
    pp.create_sink(net, j[7], 0.02, index=11)
    pp.create_pressure_control(net, j[2], j[8], j[8], 4.0, check_controllability=False)
    pp.create_sink(net, j[8], 0.01)
    if gas:
        pp.create_compressor(net, j[8], j[9], 1.1)
    else:
        pp.create_pump(net, j[8], j[9], "P1")
        pp.create_pump_from_parameters(net, j[8], j[9], "my_pump", [6.1, 5.8, 4.0], [0.0, 19.0, 83.0], 2, in_service=False)
    pp.create_sink(net, j[9], 0.01)
    return net


def heat_net(rng):
    import pandapipes as pp
    net = pp.create_empty_network("heat", fluid="water")
    j = [pp.create_junction(net, 6.0, 350.0) for _ in range(6)]
    pp.create_circ_pump_const_pressure(net, j[5], j[0], 6.0, 1.5, t_flow_k=360.0)
    pp.create_pipe_from_parameters(net, j[0], j[1], 0.3, 100.0, u_w_per_m2k=2.0, text_k=283.0, sections=2)
    pp.create_heat_consumer(net, j[1], j[4], qext_w=20000.0, controlled_mdot_kg_per_s=0.4)
    pp.create_pipe_from_parameters(net, j[1], j[2], 0.2, 100.0, u_w_per_m2k=2.0, text_k=283.0)
    pp.create_heat_consumer(net, j[2], j[3], controlled_mdot_kg_per_s=0.3, treturn_k=320.0)
    pp.create_pipe_from_parameters(net, j[3], j[4], 0.2, 100.0, u_w_per_m2k=2.0, text_k=283.0)
    pp.create_pipe_from_parameters(net, j[4], j[5], 0.3, 100.0, u_w_per_m2k=2.0, text_k=283.0)
    return net


def mass_pump_net(rng):
    import pandapipes as pp
    net = pp.create_empty_network("mass pump", fluid="water")
    j = [pp.create_junction(net, 6.0, 350.0) for _ in range(4)]
    pp.create_circ_pump_const_mass_flow(net, j[3], j[0], 6.0, 1.0, t_flow_k=355.0)
    pp.create_pipe_from_parameters(net, j[0], j[1], 0.3, 100.0, u_w_per_m2k=1.0, text_k=283.0)
    pp.create_heat_exchanger(net, j[1], j[2], 10000.0, 80.0)
    pp.create_pipe_from_parameters(net, j[2], j[3], 0.3, 100.0, u_w_per_m2k=1.0, text_k=283.0)
    return net


def odd_cells(rng):
    """NaN / None cells, custom columns of every dtype, unsorted sparse labels, an emptied table"""
    import pandapipes as pp
    net = pp.create_empty_network("odd cells", fluid="lgas")
    labs = [40, 3, 100007, 12]
    for l in labs:
        pp.create_junction(net, 1.0, 290.0, index=l)
    pp.create_ext_grid(net, 40, 1.0, 290.0)
    pp.create_pipe_from_parameters(net, 40, 3, 0.5, 100.0, index=9)
    pp.create_pipe_from_parameters(net, 3, 100007, 0.5, 100.0, index=2, outer_diameter_mm=114.3)
    pp.create_pipe_from_parameters(net, 100007, 12, 1 / 3, 100.0, index=100)
    pp.create_sink(net, 12, 0.001, name=None)
    pp.create_sink(net, 100007, 0.002, name="named")
    net.pipe["c_obj"] = ["a", None, "c"]
    net.pipe["c_int"] = np.array([3, -1, 2 ** 40], dtype=np.int64)
    net.pipe["c_bool"] = [True, False, True]
    net.pipe["c_float"] = [0.1, np.nan, 1e-300]
    net.pipe["c_int32"] = np.array([1, 2, 3], dtype=np.int32)
    net.junction["c_mixed"] = [1, "x", None, 2.5]
    net.sink.loc[net.sink.index[0], "scaling"] = np.nan
    net.source = net.source.iloc[0:0]
    pp.create_valve(net, 3, 12, "ju", 50.0)
    net.valve = net.valve.drop(net.valve.index)            # emptied table keeps its schema
    net["user_pf_options"] = {"tol_m": 1e-7, "friction_model": "colebrook"}
    return net


def custom_fluid(rng):
    """liquid whose properties use every property class (polynomial and bounded interpolation included since
    /repo 6484bf8 / 912ff6d made them storable)"""
    import pandapipes as pp
    from pandapipes.properties.fluids import Fluid, FluidPropertyConstant, FluidPropertyLinear, \
        FluidPropertyInterExtra, FluidPropertyPolynominal, FluidPropertySutherland
    t = np.array([273.15, 293.15, 313.15, 333.15, 373.15])
    fl = Fluid("my_liquid", "liquid",
               density=FluidPropertyInterExtra(t, np.array([999.8, 998.2, 992.2, 983.2, 958.4])),
               viscosity=FluidPropertyPolynominal(t, np.array([1.79e-3, 1.0e-3, 0.65e-3, 0.47e-3, 0.28e-3]), 2),
               thermal_conductivity=FluidPropertyLinear(1.2e-3, 0.25),
               heat_capacity=FluidPropertyLinear(0.1 / 3, 4170.0),
               molar_mass=FluidPropertyConstant(18.015),
               der_compressibility=FluidPropertyConstant(0.0),
               compressibility=FluidPropertyConstant(1.0),
               lhv=FluidPropertySutherland(1.2e-5, 273.0, 110.4),
               bounded=FluidPropertyInterExtra(t, t * 2.0, method="interpolate"))
    net = pp.create_empty_network("custom fluid", fluid=fl)
    j = [pp.create_junction(net, 5.0, 300.0) for _ in range(3)]
    pp.create_ext_grid(net, j[0], 5.0, 300.0)
    pp.create_pipe_from_parameters(net, j[0], j[1], 0.4, 80.0)
    pp.create_pipe_from_parameters(net, j[1], j[2], 0.4, 80.0, u_w_per_m2k=1.0, text_k=285.0)
    pp.create_sink(net, j[2], 0.3)
    return net


def custom_gas(rng):
    import pandapipes as pp
    from pandapipes.properties.fluids import Fluid, FluidPropertyConstant, FluidPropertyLinear, \
        FluidPropertySutherland
    fl = Fluid("my_gas", "gas", density=FluidPropertyConstant(0.8), viscosity=FluidPropertySutherland(1.1e-5, 273.0, 120.0),
               heat_capacity=FluidPropertyConstant(2200.0), molar_mass=FluidPropertyConstant(16.6),
               compressibility=FluidPropertyLinear(-0.0022, 1.0), der_compressibility=FluidPropertyConstant(-0.0022),
               lhv=FluidPropertyConstant(13.2), hhv=FluidPropertyConstant(14.6))
    net = pp.create_empty_network("custom gas", fluid=fl)
    j = [pp.create_junction(net, 2.0, 288.0) for _ in range(3)]
    pp.create_ext_grid(net, j[0], 2.0, 288.0)
    pp.create_pipe_from_parameters(net, j[0], j[1], 0.8, 100.0)
    pp.create_pipe_from_parameters(net, j[1], j[2], 0.8, 100.0)
    pp.create_sink(net, j[2], 0.01)
    return net


def with_controller(rng):
    import pandas as pd
    import pandapipes as pp
    from pandapower.control import ConstControl
    from pandapower.timeseries import DFData
    net = pp.create_empty_network("ctrl", fluid="water")
    j = [pp.create_junction(net, 5.0, 300.0) for _ in range(3)]
    pp.create_ext_grid(net, j[0], 5.0, 300.0)
    pp.create_pipe_from_parameters(net, j[0], j[1], 0.4, 80.0)
    pp.create_pipe_from_parameters(net, j[1], j[2], 0.4, 80.0)
    pp.create_sinks(net, [j[1], j[2]], [0.1, 0.2])
    ds = DFData(pd.DataFrame({"a": [0.1, 0.15, 0.1 / 3], "b": [0.2, 0.25, 0.3]}))
    ConstControl(net, "sink", "mdot_kg_per_s", element_index=net.sink.index.values, data_source=ds,
                 profile_name=["a", "b"])
    return net


def empty_net(rng):
    import pandapipes as pp
    return pp.create_empty_network("empty")


def no_fluid_no_std(rng):
    import pandapipes as pp
    net = pp.create_empty_network("bare", fluid=None, add_stdtypes=False)
    pp.create_junction(net, 1.0, 300.0)
    return net


def multinet(rng):
    import pandapipes as pp
    import pandapower as ppower
    from pandapipes.multinet.create_multinet import create_empty_multinet, add_net_to_multinet
    from pandapipes.multinet.control.controller.multinet_control import P2GControlMultiEnergy
    mn = create_empty_multinet("mn")
    gas = pp.create_empty_network("gas part", fluid="hgas")
    j = [pp.create_junction(gas, 20.0, 288.0) for _ in range(3)]
    pp.create_ext_grid(gas, j[0], 20.0, 288.0)
    pp.create_pipe_from_parameters(gas, j[0], j[1], 1.0, 200.0)
    pp.create_pipe_from_parameters(gas, j[1], j[2], 1.0, 200.0)
    pp.create_sink(gas, j[2], 0.05)
    src = pp.create_source(gas, j[1], 0.001)
    pw = ppower.create_empty_network()
    b = [ppower.create_bus(pw, 20.0) for _ in range(2)]
    ppower.create_ext_grid(pw, b[0])
    ppower.create_line_from_parameters(pw, b[0], b[1], 1.0, 0.1, 0.1, 10.0, 1.0)
    ld = ppower.create_load(pw, b[1], 1.0 / 3)
    add_net_to_multinet(mn, gas, "gas")
    add_net_to_multinet(mn, pw, "power")
    P2GControlMultiEnergy(mn, ld, src, efficiency=0.7, name_power_net="power", name_gas_net="gas")
    return mn


def custom_pump_types(rng, degree):
    """water net with user-defined pump types fitted with the given regression degree (sampling points kept),
    one through create_pump_from_parameters, one registered from PumpStdType.from_list, plus one from coefficients"""
    import pandapipes as pp
    from pandapipes.std_types.std_type_class import PumpStdType
    from pandapipes.std_types.std_types import create_pump_std_type
    net = pp.create_empty_network("pump degree %d" % degree, fluid="water")
    j = pp.create_junctions(net, 4, 4.0, 293.15)
    pp.create_ext_grid(net, j[0], 4.0, 293.15)
    pp.create_pipe_from_parameters(net, j[0], j[1], 0.2, 100.0)
    flow = [0.0, 10.0, 25.0, 40.0, 60.0, 83.0]                       # m3/h
    pres = [6.1, 6.0, 5.6, 4.9 + 0.01 * rng.randint(0, 9), 3.7, 1.9]  # bar
    pp.create_pump_from_parameters(net, j[1], j[2], "fit_deg_%d" % degree, pres, flow, degree)
    create_pump_std_type(net, "list_deg_%d" % degree, PumpStdType.from_list("list_deg_%d" % degree, flow, pres[::-1][::-1], degree))
    pp.create_pump(net, j[1], j[2], "list_deg_%d" % degree, in_service=False)
    pp.create_pump_from_parameters(net, j[1], j[2], "coef_only", poly_coefficents=[-0.0004, -0.02, 6.0], in_service=False)
    pp.create_pipe_from_parameters(net, j[2], j[3], 0.2, 100.0)
    pp.create_sink(net, j[3], rng.choice([3.0, 5.0, 8.0]))
    return net


def library_fluid_overwritten(rng, lib):
    """fluid that carries a library NAME but whose property VALUES were replaced by properties of the same class
    (and one of another class) - a save that relies on the library would restore the wrong numbers"""
    import numpy as np
    import pandapipes as pp
    from pandapipes.properties import fluids as F
    net = pp.create_empty_network("overwritten " + lib, fluid=lib)
    fl = net.fluid
    changed = []
    for name, prop in list(fl.all_properties.items()):
        f = rng.choice([0.9, 1.1, 1.25])
        if isinstance(prop, F.FluidPropertyConstant):
            fl.add_property(name, F.FluidPropertyConstant(prop.value * f), overwrite=True, warn_on_duplicates=False)
        elif isinstance(prop, F.FluidPropertyLinear):
            fl.add_property(name, F.FluidPropertyLinear(prop.slope * f, prop.offset * f), overwrite=True, warn_on_duplicates=False)
        elif isinstance(prop, F.FluidPropertyInterExtra):
            x, y = np.array(prop.prop_getter.x), np.array(prop.prop_getter.y)
            fl.add_property(name, F.FluidPropertyInterExtra(x, y * f), overwrite=True, warn_on_duplicates=False)
        else:
            continue
        changed.append(name)
    gas = fl.is_gas
    j = pp.create_junctions(net, 3, 3.0 if gas else 5.0, 295.0)
    pp.create_ext_grid(net, j[0], 3.0 if gas else 5.0, 295.0)
    pp.create_pipe_from_parameters(net, j[0], j[1], 0.5, 100.0)
    pp.create_pipe_from_parameters(net, j[1], j[2], 0.5, 100.0, u_w_per_m2k=1.0, text_k=280.0)
    pp.create_sink(net, j[2], 0.02 if gas else 1.0)
    return net


def library_fluid_one_property(rng, lib):
    """library fluid with exactly one property replaced through the public helpers"""
    import pandapipes as pp
    from pandapipes.properties import fluids as F
    net = pp.create_empty_network("one property " + lib, fluid=lib)
    consts = [k for k, p in net.fluid.all_properties.items() if isinstance(p, F.FluidPropertyConstant)]
    lins = [k for k, p in net.fluid.all_properties.items() if isinstance(p, F.FluidPropertyLinear)]
    if lins and rng.random() < 0.5:
        k = rng.choice(lins)
        F.create_linear_property(net, k, net.fluid.all_properties[k].slope * 1.5, net.fluid.all_properties[k].offset, overwrite=True, warn_on_duplicates=False)
    elif consts:
        k = rng.choice(consts)
        F.create_constant_property(net, k, net.fluid.all_properties[k].value * 1.5, overwrite=True, warn_on_duplicates=False)
    gas = net.fluid.is_gas
    j = pp.create_junctions(net, 2, 3.0, 295.0)
    pp.create_ext_grid(net, j[0], 3.0, 295.0)
    pp.create_pipe_from_parameters(net, j[0], j[1], 2.0, 100.0)
    pp.create_sink(net, j[1], 0.05 if gas else 1.0)
    return net


def sector_net(rng, sector):
    """net created with a non-default sector (component list / tables / std types of that sector only)"""
    import pandapipes as pp
    from pandapipes.pandapipes_net import Sector
    sec = Sector(sector)
    fluid = {"heat": "water", "water": "water", "gas": "lgas", "None": "water"}[sector]
    net = pp.create_empty_network("sector " + sector, fluid=fluid, sector=sec)
    if sector == "heat":
        j = [pp.create_junction(net, 6.0, 350.0) for _ in range(4)]
        pp.create_circ_pump_const_pressure(net, j[3], j[0], 6.0, 1.0, t_flow_k=355.0)
        pp.create_pipe_from_parameters(net, j[0], j[1], 0.3, 100.0, u_w_per_m2k=1.0, text_k=283.0)
        pp.create_heat_consumer(net, j[1], j[2], qext_w=15000.0, controlled_mdot_kg_per_s=0.3)
        pp.create_pipe_from_parameters(net, j[2], j[3], 0.3, 100.0, u_w_per_m2k=1.0, text_k=283.0)
    else:
        p0 = 1.0 if sector == "gas" else 5.0
        j = [pp.create_junction(net, p0, 293.0) for _ in range(3)]
        pp.create_ext_grid(net, j[0], p0, 293.0)
        pp.create_pipe_from_parameters(net, j[0], j[1], 0.4, 100.0)
        pp.create_pipe_from_parameters(net, j[1], j[2], 0.4, 100.0)
        pp.create_sink(net, j[2], 0.01 if sector == "gas" else 0.5)
    return net


def sector_empty(rng, sector):
    import pandapipes as pp
    from pandapipes.pandapipes_net import Sector
    return pp.create_empty_network("empty " + sector, sector=Sector(sector))


def empty_tables_user_columns(rng, populated=True):
    """tables WITHOUT rows that carry user-defined columns of every dtype, a changed dtype of a component column and
    a re-ordered column set - next to populated tables (or in an otherwise empty net)"""
    import pandas as pd
    import pandapipes as pp
    net = pp.create_empty_network("empty tables with user columns", fluid="water")
    if populated:
        j = pp.create_junctions(net, 3, 5.0, 300.0)
        pp.create_ext_grid(net, j[0], 5.0, 300.0)
        pp.create_pipes_from_parameters(net, [j[0], j[1]], [j[1], j[2]], 0.5, 100.0)
        pp.create_sink(net, j[2], 0.3)
    dtypes = [("u_float", "float64"), ("u_int", "int64"), ("u_bool", "bool"), ("u_obj", object), ("u_i32", "int32")]
    empties = [t for t in ("source", "valve", "pump", "heat_exchanger", "mass_storage", "compressor", "flow_control",
                           "press_control", "heat_consumer", "circ_pump_mass", "circ_pump_pressure") if t in net and len(net[t]) == 0]
    if not populated:
        empties += ["junction", "pipe", "sink", "ext_grid"]
    for i, t in enumerate(empties):
        col, dt = dtypes[i % len(dtypes)]
        net[t][col] = pd.Series(dtype=dt)
        if i % 3 == 0:
            col2, dt2 = dtypes[(i + 2) % len(dtypes)]
            net[t]["second_" + col2] = pd.Series(dtype=dt2)
    # a component column with a non-default dtype and a re-ordered column set on empty tables
    if "scaling" in net.source.columns:
        net.source["scaling"] = net.source["scaling"].astype("float32")
    net.valve = net.valve[list(net.valve.columns[::-1])]
    return net


def failed_run(rng):
    """a net whose last pipeflow did not converge (converged flag False) and a default-created mass storage"""
    import pandapipes as pp
    net = pp.create_empty_network("failed run", fluid="water")
    j = pp.create_junctions(net, 3, 5.0, 300.0)
    pp.create_ext_grid(net, j[0], 5.0, 300.0)
    pp.create_pipes_from_parameters(net, [j[0], j[1]], [j[1], j[2]], 1.0, 80.0)
    pp.create_sink(net, j[2], 0.4)
    pp.create_mass_storage(net, j[1], 0.01)
    try:
        pp.pipeflow(net, max_iter_hyd=1, use_numba=False)
    except Exception:  # noqa: BLE001 - PipeflowNotConverged is the point
        pass
    return net


BUILDERS = [("all_components_water", lambda r: all_components(r, "water")),
            ("all_components_gas", lambda r: all_components(r, "hgas")),
            ("heat_net", heat_net), ("mass_pump_net", mass_pump_net), ("odd_cells", odd_cells),
            ("custom_fluid", custom_fluid), ("custom_gas", custom_gas), ("with_controller", with_controller),
            ("failed_run", failed_run), ("empty_net", empty_net),
            ("empty_tables_user_columns", empty_tables_user_columns),
            ("only_empty_tables_user_columns", lambda r: empty_tables_user_columns(r, populated=False)),
            ("sector_heat", lambda r: sector_net(r, "heat")), ("sector_gas", lambda r: sector_net(r, "gas")),
            ("sector_water", lambda r: sector_net(r, "water")), ("sector_none", lambda r: sector_net(r, "None")),
            ("sector_empty_heat", lambda r: sector_empty(r, "heat")), ("sector_empty_gas", lambda r: sector_empty(r, "gas")),
            ("sector_empty_water", lambda r: sector_empty(r, "water")), ("sector_empty_none", lambda r: sector_empty(r, "None")),
            ("pump_types_deg1", lambda r: custom_pump_types(r, 1)), ("pump_types_deg3", lambda r: custom_pump_types(r, 3)),
            ("pump_types_deg4", lambda r: custom_pump_types(r, 4)),
            ("libfluid_overwritten_water", lambda r: library_fluid_overwritten(r, "water")),
            ("libfluid_overwritten_lgas", lambda r: library_fluid_overwritten(r, "lgas")),
            ("libfluid_overwritten_hydrogen", lambda r: library_fluid_overwritten(r, "hydrogen")),
            ("libfluid_one_property_hgas", lambda r: library_fluid_one_property(r, "hgas")),
            ("libfluid_one_property_water", lambda r: library_fluid_one_property(r, "water")), ("no_fluid_no_std", no_fluid_no_std), ("multinet", multinet)]
