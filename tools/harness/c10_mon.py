"""Thermal monitors shared by C10 and C11: the property's conclusion evaluated on a converged net.

Everything is read from what pipeflow leaves behind: the result tables and the full internal tables
net["_pit"] (the solver state the result tables are extracted from).  No source hooks.
"""
import math
import sys

import numpy as np


def idx():
    import pandapipes.idx_branch as ib
    import pandapipes.idx_node as inode
    return ib, inode


def corrected(branch_pit):
    ib, _ = idx()
    sw = branch_pit[:, ib.FROM_NODE_T_SWITCHED].astype(bool)
    f = branch_pit[:, ib.FROM_NODE].astype(int)
    t = branch_pit[:, ib.TO_NODE].astype(int)
    return np.where(sw, t, f), np.where(sw, f, t)


def flowing(branch_pit):
    ib, _ = idx()
    m = branch_pit[:, ib.MDOTINIT]
    return ~np.isnan(m) & (np.abs(m) > 1e-10)


def active_masks(net):
    """rows of the full pit that took part in the thermal calculation"""
    lk = net["_lookups"]
    nb = lk.get("node_active_heat_transfer", lk.get("node_active"))
    bb = lk.get("branch_active_heat_transfer", lk.get("branch_active"))
    return np.asarray(nb, bool), np.asarray(bb, bool)


def cp_of(net):
    return net.fluid.get_heat_capacity


def junction_of_node(net):
    """pit node position -> (table, label) for junction nodes"""
    _, inode = idx()
    npit = net["_pit"]["node"]
    out = {}
    tbl = net["_lookups"]["node_table"] if "node_table" in net["_lookups"] else None
    jlk = net["_lookups"]["node_index"]["junction"] if "node_index" in net["_lookups"] else None
    if jlk is not None:
        for lab in net.junction.index:
            out[int(jlk[lab])] = int(lab)
    return out


def energy_balance(net, rel=1e-7):
    """per node of the thermal system: sum over incoming flowing branches of |m| cbar (T_out - T_node).
    -> list of (node position, residual [W], scale [W], n_inflows, T_node, streams)"""
    ib, inode = idx()
    bp, npit = net["_pit"]["branch"], net["_pit"]["node"]
    na, ba = active_masks(net)
    fl = flowing(bp) & ba
    fnc, tnc = corrected(bp)
    cp = cp_of(net)
    out = []
    T = npit[:, inode.TINIT]
    for i in np.where(na)[0]:
        rows = np.where(fl & (tnc == i))[0]
        if len(rows) == 0:
            continue
        if npit[i, inode.INFEED]:
            continue
        m = np.abs(bp[rows, ib.MDOTINIT])
        tout = bp[rows, ib.TOUTINIT]
        cb = (cp(tout) + cp(np.full(len(rows), T[i]))) / 2
        res = float(np.sum(m * cb * (tout - T[i])))
        scale = float(np.sum(m * cb * (np.abs(tout - T[i]) + 1.0)))
        out.append((int(i), res, scale, len(rows), float(T[i]),
                    [(float(a), float(b)) for a, b in zip(bp[rows, ib.MDOTINIT], tout)]))
    return out


def conserving_mix(net, streams, lo=200., hi=500.):
    """temperature T with sum |m| cbar(T_b, T) (T_b - T) = 0 (bisection; the residual is decreasing in T)"""
    cp = cp_of(net)

    def r(T):
        return sum(abs(m) * (float(cp(np.array([tb]))[0]) + float(cp(np.array([T]))[0])) / 2 * (tb - T)
                   for m, tb in streams)
    a, b = lo, hi
    for _ in range(200):
        c = (a + b) / 2
        if r(c) > 0:
            a = c
        else:
            b = c
    return (a + b) / 2


def cooling_law(net):
    """per flowing row of the thermal system: T_out - documented law -> list of (row, deviation [K], data)"""
    ib, inode = idx()
    bp, npit = net["_pit"]["branch"], net["_pit"]["node"]
    na, ba = active_masks(net)
    fl = flowing(bp) & ba
    fnc, tnc = corrected(bp)
    cp = cp_of(net)
    out = []
    for r in np.where(fl)[0]:
        tin = npit[fnc[r], inode.TINIT]
        tout = bp[r, ib.TOUTINIT]
        m = abs(bp[r, ib.MDOTINIT])
        c = (float(cp(np.array([tin]))[0]) + float(cp(np.array([tout]))[0])) / 2
        text = bp[r, ib.TEXT]
        law = text + (tin - text) * math.exp(-bp[r, ib.ALPHA] * bp[r, ib.LENGTH] * math.pi * bp[r, ib.DO] / (c * m)) \
            + bp[r, ib.TL] - bp[r, ib.QEXT] / (c * m)
        out.append((int(r), float(tout - law), {"t_in": float(tin), "t_out": float(tout), "mdot": float(bp[r, ib.MDOTINIT]),
                                                "alpha": float(bp[r, ib.ALPHA]), "length": float(bp[r, ib.LENGTH]),
                                                "d_o": float(bp[r, ib.DO]), "t_ext": float(text),
                                                "qext": float(bp[r, ib.QEXT]), "tl": float(bp[r, ib.TL]),
                                                "table": int(bp[r, ib.TABLE_IDX]), "switched": bool(bp[r, ib.FROM_NODE_T_SWITCHED])}))
    return out


def fixed_row_tables(net):
    """branch-table numbers whose T_out row is an identity row (circulation pumps; heat consumers in QE_TR)"""
    return {}


def pipe_sections_from_results(net):
    """documented law per pipe section from the *result* side: res_pipe + Pipe.get_internal_results.
    -> list of (pipe label, section, deviation [K]) for pipes with flow; temperatures in flow order."""
    import pandapipes as pp
    from pandapipes.component_models.pipe_component import Pipe
    cp = cp_of(net)
    out = []
    if "pipe" not in net or len(net.pipe) == 0:
        return out
    # Pipe.get_internal_results indexes a positional array by pipe label and needs equal section counts for
    # the pipes asked for: it is only usable pipe by pipe on tables labelled 0..n-1 (noted for C06)
    if [int(i) for i in net.pipe.index] != list(range(len(net.pipe))):
        return out
    labels = [int(i) for i in net.pipe.index[net.pipe.in_service.values]]
    internal = {}
    for l in labels:
        if int(net.pipe.at[l, "sections"]) > 1:
            res = Pipe.get_internal_results(net, np.array([l]))
            internal[l] = [float(v) for pidx, v in res["TINIT"]]
    for l in labels:
        row = net.pipe.loc[l]
        r = net.res_pipe.loc[l]
        m = float(r.mdot_from_kg_per_s)
        if not np.isfinite(m) or abs(m) <= 1e-10 or not np.isfinite(r.t_from_k):
            continue
        n = int(row.sections)
        ints = internal.get(l, [])
        if len(ints) != n - 1:
            out.append((l, -1, float("nan")))
            continue
        fwd = m > 0
        t_in = float(r.t_from_k) if fwd else float(r.t_to_k)
        chain = [t_in] + (ints if fwd else ints[::-1])
        # t_outlet_k is the outlet in flow direction (last section for forward, first section for reverse flow)
        chain.append(float(r.t_outlet_k))
        alpha = float(row.u_w_per_m2k)
        d_o = float(row.outer_diameter_mm) if "outer_diameter_mm" in row and np.isfinite(row.outer_diameter_mm) \
            else float(row.inner_diameter_mm)
        d_o /= 1000.
        length = float(row.length_km) * 1000. / n
        text = float(row.text_k) if np.isfinite(row.text_k) else float(net["_options"]["ambient_temperature"])
        qext = float(row.qext_w) / n if "qext_w" in row else 0.
        for s in range(len(chain) - 1):
            a, b = chain[s], chain[s + 1]
            c = (float(cp(np.array([a]))[0]) + float(cp(np.array([b]))[0])) / 2
            law = text + (a - text) * math.exp(-alpha * length * math.pi * d_o / (c * abs(m))) - qext / (c * abs(m))
            out.append((l, s, b - law))
    return out
