"""C06: exact correspondences for extract_branch_results_with_internals and the structural pit (filled below)."""


def corr_extract(ctx):
    pass


def corr_pit_relabel(ctx):
    pass
