"""C06: exact correspondences for
   * result_extraction.extract_branch_results_with_internals  (real function, real net, integer branch results)
   * the structural pipe pit (ELEMENT_IDX, FROM_NODE, TO_NODE) of real nets and of their relabelled twins
against coq/C06/ModelExtract.v, compared inside Coq."""
import os
import sys

import numpy as np

sys.path.insert(0, os.path.dirname(os.path.dirname(os.path.abspath(__file__))))
from vlib import cz, cnat, cbool, clist  # noqa: E402
from harness import gen, drive  # noqa: E402
from harness import c0406_common as cm  # noqa: E402
from harness import c06_monitors as mon  # noqa: E402

HDR = ("From Coq Require Import ZArith List Bool.\nFrom PP Require Import C06.Model C06.ModelExtract.\n"
       "Import ListNotations.\nOpen Scope Z_scope.\n")
SENTINEL = -7


def natl(xs):
    return clist([cnat(int(x)) for x in xs])


def multi_section_spec(rng, i):
    mode = ["shuffled", "sparse", "large", "contig"][i % 4]
    if i % 2 == 0:
        sp = gen.gen_net(rng, "heat", label_mode=mode)
    else:
        sp = gen.gen_net(rng, "water", label_mode=mode, features={"pi_valve": rng.random() < 0.3})
    return sp


def extract_case(rng, sp):
    """run the real extract_branch_results_with_internals on integer branch results; returns (coq text, oracle dict)"""
    import pandapipes  # noqa: F401
    import pandapipes.idx_branch as ib
    import pandapipes.idx_node as inode
    rex = sys.modules["pandapipes.pf.result_extraction"]
    s = drive.psetup()
    net = gen.build(sp)
    if not len(net.pipe) or not np.any(net.pipe.sections.values > 1):
        return None        # Pipe.extract_results calls the function only if some pipe has internal nodes
    # some outages so that the connected mask is not all True
    for i in net.pipe.index:
        if rng.random() < 0.2:
            net.pipe.at[i, "in_service"] = False
    use_numba = rng.random() < 0.3
    try:
        drive.stages(net, use_numba=use_numba)
    except s.PipeflowNotConverged:
        return None
    mode = "hydraulics"
    if rng.random() < 0.4:
        try:
            s.identify_active_nodes_branches(net, False)
            mode = "sequential"
        except s.PipeflowNotConverged:
            mode = "hydraulics"
    L = net["_lookups"]
    f, t = L["branch_from_to"]["pipe"]
    bpit, npit = net["_pit"]["branch"], net["_pit"]["node"]
    nb = len(bpit)
    br = {"from_nodes": bpit[:, ib.FROM_NODE].astype(np.int32), "to_nodes": bpit[:, ib.TO_NODE].astype(np.int32)}
    for k in ("p_from", "p_to", "mf_from", "mf_to", "lambda", "reynolds", "dp_frict_loss", "v_mps", "vf", "temp_from",
              "temp_to", "t_outlet", "v_gas_from", "v_gas_to", "v_gas_mean", "normfactor_from", "normfactor_to"):
        br[k] = np.array([12.0 * rng.randint(-500, 500) for _ in range(nb)])
    # flow direction flags: random per section (the code reads the flag at the last section of each element)
    bpit[:, ib.FROM_NODE_T_SWITCHED] = [float(rng.random() < 0.4) for _ in range(nb)]
    switched = bpit[f:t, ib.FROM_NODE_T_SWITCHED].astype(bool).copy()
    for c in net.res_pipe.columns:
        net.res_pipe[c] = float(SENTINEL)
    rex.extract_branch_results_with_internals(
        net, br, "pipe", [("p_from_bar", "p_from")], [("t_from_k", "temp_from")], [("p_to_bar", "p_to")],
        [("t_to_k", "temp_to")], [("lambda", "lambda"), ("reynolds", "reynolds"), ("dp_friction_loss_bar", "dp_frict_loss")],
        [("t_outlet_k", "t_outlet")], [],
        "pipe_nodes", mode)
    labels = [int(x) for x in net.pipe.index.values]
    secs = [int(x) for x in net.pipe.sections.values]
    idx_pit = cm.as_int_list(bpit[f:t, ib.ELEMENT_IDX], "ELEMENT_IDX")
    tn = L["node_table"]["t2n"].get("pipe_nodes", None)
    from_ext = npit[br["from_nodes"][f:t], inode.TABLE_IDX] != tn
    to_ext = npit[br["to_nodes"][f:t], inode.TABLE_IDX] != tn
    out = []
    # hydraulic pass (mask: hydraulics) and heat pass (mask: heat_transfer when the mode computes heat)
    for (mask_name, cfrom, vfrom, cto, vto, cmean, vmean, csum, vsum, clast, vlast) in (
            ("hydraulics", "p_from_bar", "p_from", "p_to_bar", "p_to", "lambda", "lambda", "dp_friction_loss_bar",
             "dp_frict_loss", None, None),
            ("heat_transfer" if mode == "sequential" else "hydraulics", "t_from_k", "temp_from", "t_to_k", "temp_to",
             None, None, None, None, "t_outlet_k", "t_outlet")):
        conn = L["branch_active_" + mask_name][f:t]
        old = [SENTINEL] * len(labels)
        res = {c: cm.as_int_list(net.res_pipe[c].values, c) for c in (cfrom, cto, cmean, csum, clast) if c}
        z = [0] * len(idx_pit)
        txt = ("{| ec_numba := %s; ec_labels := %s; ec_secs := %s; ec_idx_pit := %s; ec_conn := %s; ec_from_ext := %s; "
               "ec_to_ext := %s; ec_switched := %s; ec_v_from := %s; ec_v_to := %s; ec_v_mean := %s; ec_v_sum := %s; ec_v_last := %s; "
               "ec_old := %s; ec_res_from := %s; ec_res_to := %s; ec_res_mean := %s; ec_res_sum := %s; ec_res_last := %s |}"
               % (cbool(use_numba), cm.zl(labels), natl(secs), cm.zl(idx_pit), cm.bl(conn), cm.bl(from_ext), cm.bl(to_ext), cm.bl(switched),
                  cm.zl(br[vfrom][f:t]), cm.zl(br[vto][f:t]),
                  cm.zl(br[vmean][f:t]) if vmean else cm.zl(z), cm.zl(br[vsum][f:t]) if vsum else cm.zl(z),
                  cm.zl(br[vlast][f:t]) if vlast else cm.zl(z),
                  cm.zl(old), cm.zl(res[cfrom]), cm.zl(res[cto]),
                  cm.zl(res[cmean]) if cmean else cm.zl(model_mean_of_zeros(labels, secs, conn)),
                  cm.zl(res[csum]) if csum else cm.zl(model_mean_of_zeros(labels, secs, conn)),
                  cm.zl(res[clast]) if clast else cm.zl(oracle_outlet(secs, conn, switched, z, old))))
        # the property as a python oracle, used to classify a disagreement
        bad = None
        exp_from = oracle_rows(secs, conn, [int(x) for x in br[vfrom][f:t]], old, last=False)
        exp_to = oracle_rows(secs, conn, [int(x) for x in br[vto][f:t]], old, last=True)
        if res[cfrom] != exp_from:
            bad = (cfrom, res[cfrom], exp_from)
        elif res[cto] != exp_to:
            bad = (cto, res[cto], exp_to)
        elif clast and res[clast] != oracle_outlet(secs, conn, switched, [int(x) for x in br[vlast][f:t]], old):
            bad = (clast, res[clast], oracle_outlet(secs, conn, switched, [int(x) for x in br[vlast][f:t]], old))
        elif cmean and res[cmean] != oracle_mean(secs, conn, [int(x) for x in br[vmean][f:t]], old):
            bad = (cmean, res[cmean], oracle_mean(secs, conn, [int(x) for x in br[vmean][f:t]], old))
        elif csum and res[csum] != oracle_mean(secs, conn, [int(x) for x in br[vsum][f:t]], old, is_sum=True):
            bad = (csum, res[csum], oracle_mean(secs, conn, [int(x) for x in br[vsum][f:t]], old, is_sum=True))
        out.append((txt, bad, {"labels": labels, "sections": secs, "connected": [bool(x) for x in conn], "mode": mode,
                                "switched": [bool(x) for x in switched]}))
    return out


def model_mean_of_zeros(labels, secs, conn):
    return oracle_mean(secs, conn, [0] * sum(secs), [SENTINEL] * len(labels))


def oracle_rows(secs, conn, vals, old, last):
    out, p = [], 0
    for r, s in enumerate(secs):
        q = p + s - 1 if last else p
        out.append(vals[q] if conn[q] else old[r])
        p += s
    return out


def oracle_outlet(secs, conn, switched, vals, old):
    """outlet section of a row = last section, first section with flow against the declared direction"""
    out, p = [], 0
    for r, s in enumerate(secs):
        last = p + s - 1
        out.append(vals[p if switched[last] else last] if conn[last] else old[r])
        p += s
    return out


def oracle_mean(secs, conn, vals, old, is_sum=False):
    """mean over the element's own sections; the friction loss (is_sum) is their sum"""
    out, p = [], 0
    for r, s in enumerate(secs):
        if any(conn[p:p + s]):
            tot = sum(vals[p:p + s])
            out.append(tot if is_sum else (tot // s if tot % s == 0 else None))
        else:
            out.append(old[r])
        p += s
    return out


def corr_extract(ctx, pool):
    rng = ctx.rng
    n = 40 if ctx.quick else 800
    body, meta = [], []
    # fixed corpus, always first: unsorted pipe labels with differing section counts (the shapes that exposed the former
    # t_outlet_k / mean placement defects), labels on both sides of 1e5, rotations
    corpus = [mon.witness_spec(l, s) for l, s in (([7, 3, 5], [1, 3, 2]), ([2, 0, 1], [3, 1, 2]), ([100003, 4, 17], [2, 4, 1]),
                                                  ([5, 9, 1], [4, 2, 3]), ([30, 10, 20], [2, 3, 1]))]
    for i in range(-len(corpus), n):
        sp = corpus[i] if i < 0 else multi_section_spec(rng, i)
        try:
            cs = extract_case(rng, sp)
        except Exception as e:  # noqa: BLE001
            import traceback
            ctx.broken("correspondence", "extract_branch_results_with_internals harness", traceback.format_exc()[-700:])
            return lambda: None
        if cs is None:
            ctx.count("extract_skipped_unsupplied")
            continue
        for txt, bad, info in cs:
            body.append(txt)
            meta.append((sp, bad, info))
            unsorted = info["labels"] != sorted(info["labels"])
            ctx.case({"extract": info}, unsorted and len(set(info["sections"])) > 1)
            ctx.count("extract_unsorted_labels" if unsorted else "extract_sorted_labels")
            if bad:
                col, got, exp = bad
                ctx.violation({"fn": "extract_branch_results_with_internals", "column": col},
                              "res_pipe.%s after extraction is %r; every row's own section value gives %r "
                              "(labels %r, sections %r)" % (col, got, exp, info["labels"], info["sections"]),
                              {"kind": "extract", "net": sp, "info": info, "observed": got, "expected": exp})
    size = 80
    jobs = []
    for s0 in range(0, len(body), size):
        txt = HDR + "Definition cs : list ext_case := [\n%s\n].\nEval vm_compute in (summary ext_case_ok cs).\n" \
            % ";\n".join(body[s0:s0 + size])
        jobs.append((s0, pool.submit(ctx.coq_counts_gated, txt, "ext_%d" % (s0 // size))))

    def finish():
        n_tot = n_mis = 0
        for s0, fut in jobs:
            trip, out = fut.result()
            if not trip:
                ctx.broken("correspondence", "extract model (coqc failed)", out[-800:])
                return
            nn, m, first = trip[0]
            n_tot += nn
            n_mis += m
            if m and not any(b for _, b, _ in meta[s0:s0 + size]):
                sp, bad, info = meta[s0 + first]
                ctx.broken("correspondence", "ModelExtract vs extract_branch_results_with_internals",
                           "model and implementation differ although the implementation satisfies the row-wise "
                           "property: %r" % info)
        ctx.corr("C06.ModelExtract.place_ext / place_outlet / place_mean == extract_branch_results_with_internals "
                 "(== row-wise property) on real nets with integer branch results and random flow-direction flags",
                 n_tot, n_mis)
    return finish


# ------------------------------------------------------------------------------------------ structural pit + relabel
def pit_case(net):
    import pandapipes.idx_branch as ib
    s = drive.psetup()
    s.init_options(net)
    s.init_all_result_tables(net)
    s.create_lookups(net)
    s.initialize_pit(net)
    L = net["_lookups"]
    f, t = L["branch_from_to"]["pipe"]
    bp = net["_pit"]["branch"][f:t]
    int_start = L["node_from_to"]["pipe_nodes"][0] if "pipe_nodes" in L["node_from_to"] else 0
    js = [int(x) for x in net.junction.index.values]
    elm = cm.as_int_list(bp[:, ib.ELEMENT_IDX], "elm")
    ft = list(zip(cm.as_int_list(bp[:, ib.FROM_NODE], "from"), cm.as_int_list(bp[:, ib.TO_NODE], "to")))
    txt = ("{| pc_js := %s; pc_tab := {| w_labels := %s; w_from := %s; w_to := %s; w_secs := %s |}; pc_int_start := %s; "
           "pc_elm := %s; pc_ft := %s |}"
           % (cm.zl(js), cm.zl(net.pipe.index.values), cm.zl(net.pipe.from_junction.values),
              cm.zl(net.pipe.to_junction.values), natl(net.pipe.sections.values), cz(int_start), cm.zl(elm), cm.zpl(ft)))
    return txt, ft


def corr_pit_relabel(ctx, pool):
    rng = ctx.rng
    n = 24 if ctx.quick else 400
    body = []
    for i in range(n):
        prof = ["water", "heat", "gas"][i % 3]
        sp = gen.gen_net(rng, prof, label_mode=rng.choice(["contig", "shuffled", "sparse", "large"]),
                         features=None if prof == "heat" else {"pi_valve": False})
        try:
            t1, ft1 = pit_case(gen.build(sp))
            maps = mon.random_maps(rng, sp)
            sp2 = mon.relabel_spec(sp, maps)
            t2, ft2 = pit_case(gen.build(sp2))
        except Exception as e:  # noqa: BLE001
            ctx.broken("correspondence", "pit capture", repr(e)[:300])
            return lambda: None
        body += [t1, t2]
        ctx.case({"pit_relabel": sp, "maps": {k: list(v.items()) for k, v in maps.items()}},
                 any(a != b for m in maps.values() for a, b in m.items()))
        if ft1 != ft2:
            ctx.violation({"fn": "create_pit_branch_entries", "column": "FROM_NODE/TO_NODE", "transform": "relabel"},
                          "FROM_NODE / TO_NODE of the pipe pit change under an injective relabelling",
                          {"kind": "relabel", "net": sp, "net_b": sp2, "options": {"use_numba": False},
                           "maps": {t: [[k, v] for k, v in m.items()] for t, m in maps.items()}})
    size = 100
    jobs = []
    for s0 in range(0, len(body), size):
        txt = HDR + "Definition cs : list pit_case := [\n%s\n].\nEval vm_compute in (summary pit_case_ok cs).\n" \
            % ";\n".join(body[s0:s0 + size])
        jobs.append((s0, pool.submit(ctx.coq_counts_gated, txt, "pit_%d" % (s0 // size))))

    def finish():
        n_tot = n_mis = 0
        for s0, fut in jobs:
            trip, out = fut.result()
            if not trip:
                ctx.broken("correspondence", "pit model (coqc failed)", out[-800:])
                return
            nn, m, first = trip[0]
            n_tot += nn
            n_mis += m
            if m:
                ctx.broken("correspondence", "ModelExtract.pit_of vs the real pipe pit", "case %d differs" % (s0 + first))
        ctx.corr("C06.ModelExtract.pit_of == ELEMENT_IDX / FROM_NODE / TO_NODE of the real pipe pit, for generated "
                 "nets and their relabelled twins (positions equal across the twins)", n_tot, n_mis)
    return finish


# ------------------------------------------------------------------------------------------ set_fixed_node_entries
def fixed_case(rng, sp, juncts=None, use_numba=None):
    """the real set_fixed_node_entries on the node pit of a real net with integer set-points (multiples of 12, at most
    four per junction, so the mean is exact); fresh counters"""
    import pandapipes.idx_node as inode
    from pandapipes.component_models.junction_component import Junction
    ct = sys.modules["pandapipes.component_models.component_toolbox"]
    net = gen.build(sp)
    s = drive.psetup()
    use_numba = (rng.random() < 0.4) if use_numba is None else use_numba
    s.init_options(net, use_numba=use_numba)
    s.init_all_result_tables(net)
    s.create_lookups(net)
    s.initialize_pit(net)
    L = net["_lookups"]
    f, t = L["node_from_to"]["junction"]
    npit = net["_pit"]["node"]
    js = [int(x) for x in net.junction.index.values]
    if juncts is None:
        pool = rng.sample(js, min(len(js), rng.randint(2, 4)))
        juncts = [rng.choice(pool) for _ in range(rng.randint(2, 6))]
        juncts = [j for k, j in enumerate(juncts) if juncts[:k].count(j) < 4]
    vals = [12 * rng.randint(1, 400) for _ in juncts]
    npit[:, inode.EXT_GRID_OCCURENCE] = 0
    npit[f:t, inode.PINIT] = SENTINEL
    npit[:, inode.NODE_TYPE] = inode.L
    ct.set_fixed_node_entries(net, npit, np.array(juncts), np.array(["p"] * len(juncts)), np.array(vals, dtype=np.float64),
                              Junction, "p")
    val = cm.as_int_list(npit[f:t, inode.PINIT], "PINIT")
    cnt = cm.as_int_list(npit[f:t, inode.EXT_GRID_OCCURENCE], "EXT_GRID_OCCURENCE")
    typ = [int(x) == inode.P for x in npit[f:t, inode.NODE_TYPE]]
    exp_val = [(sum(v for j, v in zip(juncts, vals) if j == l) // juncts.count(l)) if l in juncts else SENTINEL for l in js]
    exp_cnt = [juncts.count(l) for l in js]
    bad = None
    if val != exp_val or cnt != exp_cnt or typ != [c > 0 for c in exp_cnt]:
        bad = {"labels_in_row_order": js, "fixed_at": juncts, "values": vals, "observed_value": val, "observed_count": cnt,
               "observed_fixed_type": typ, "expected_value": exp_val, "expected_count": exp_cnt}
    txt = ("{| fx_numba := %s; fx_js := %s; fx_juncts := %s; fx_vals := %s; fx_old := %s; fx_val := %s; fx_count := %s |}"
           % (cbool(use_numba), cm.zl(js), cm.zl(juncts), cm.zl(vals), cm.zl([SENTINEL] * len(js)), cm.zl(val), cm.zl(cnt)))
    return txt, bad


def corr_fixed(ctx, pool):
    rng = ctx.rng
    body, any_bad = [], False
    trials = []
    for labels in ([4, 3, 2, 1, 0], [7, 2, 9, 0, 5], [100004, 3, 100001, 8, 100000], [0, 1, 2, 3, 4]):
        sp = mon.two_supply_spec(labels)
        for nb in (False, True):
            trials.append((sp, [labels[0], labels[-1], labels[0]], nb))
            trials.append((sp, [labels[-1], labels[2], labels[0], labels[2]], nb))
    for i in range(16 if ctx.quick else 400):
        prof = ["water", "heat", "gas"][i % 3]
        trials.append((gen.gen_net(rng, prof, label_mode=rng.choice(["shuffled", "sparse", "large", "contig"])), None, None))
    for sp, juncts, nb in trials:
        try:
            txt, bad = fixed_case(rng, sp, juncts, nb)
        except Exception:  # noqa: BLE001
            import traceback
            ctx.broken("correspondence", "set_fixed_node_entries harness", traceback.format_exc()[-600:])
            return lambda: None
        body.append(txt)
        ctx.case({"fixed_entries": txt[:200]}, True)
        if bad:
            any_bad = True
            ctx.violation({"fn": "set_fixed_node_entries", "what": "placement"},
                          "fixed values %r given for junctions %r: the node pit holds %r (counts %r) for the junction rows "
                          "%r; every junction's own mean is %r" % (bad["values"], bad["fixed_at"], bad["observed_value"],
                                                                   bad["observed_count"], bad["labels_in_row_order"],
                                                                   bad["expected_value"]),
                          {"kind": "fixed_entries", "net": sp, "info": bad})
    txt = HDR + "Definition cs : list fx_case := [\n%s\n].\nEval vm_compute in (summary fx_case_ok cs).\n" % ";\n".join(body)
    fut = pool.submit(ctx.coq_counts_gated, txt, "fx_0")

    def finish():
        trip, out = fut.result()
        if not trip:
            ctx.broken("correspondence", "fixed entries model (coqc failed)", out[-800:])
            return
        nn, m, first = trip[0]
        if m and not any_bad:
            ctx.broken("correspondence", "ModelExtract.fixed_code vs set_fixed_node_entries", "case %d differs" % first)
        ctx.corr("C06.ModelExtract.fixed_code == fixed_spec == component_toolbox.set_fixed_node_entries (value, count "
                 "and type columns of the junction rows; reversed / shuffled / large labels first)", nn, m)
    return finish
