"""C06 monitors: the conclusion of the property on real pipeflow runs (tests, not obligations).

transformations of a net spec (tools/harness/gen.py):
  relabel   injective random label maps per table, applied consistently to all references
  permute   rows of every table shuffled, index labels kept  (df.sample(frac=1))
  recreate  the create_* calls issued in another (dependency-respecting) order
and comparison of all res_* tables joined on element identity.
"""
import copy
import os
import sys

import numpy as np

sys.path.insert(0, os.path.dirname(os.path.dirname(os.path.abspath(__file__))))
from harness import gen, drive  # noqa: E402

TABLE_OF = {
    "create_junction": "junction", "create_pipe_from_parameters": "pipe", "create_pipe": "pipe", "create_valve": "valve",
    "create_flow_control": "flow_control", "create_pump": "pump", "create_compressor": "compressor",
    "create_ext_grid": "ext_grid", "create_sink": "sink", "create_source": "source",
    "create_mass_storage": "mass_storage", "create_heat_consumer": "heat_consumer",
    "create_heat_exchanger": "heat_exchanger", "create_circ_pump_const_mass_flow": "circ_pump_mass",
    "create_circ_pump_const_pressure": "circ_pump_pressure", "create_pressure_control": "press_control",
}
JREFS = ("junction", "from_junction", "to_junction", "return_junction", "flow_junction", "controlled_junction")

RTOL = {"relabel": 1e-10, "permute": 1e-9, "recreate": 1e-9}
# absolute floor: relabelling leaves the pit identical (only the summation order inside _sum_by_group_np may change);
# a row permutation changes the elimination order of spsolve, and near-stagnant branches of a mesh amplify that
# round-off to ~1e-9 in velocities of ~1e-5 m/s (observed), hence 1e-8
ATOL = {"relabel": 1e-10, "permute": 1e-8, "recreate": 1e-8}


def labels_of(spec):
    out = {}
    for fn, kw in spec["ops"]:
        out.setdefault(TABLE_OF[fn], []).append(kw["index"])
    return out


def random_maps(rng, spec):
    """injective map per table; styles: permutation of the same labels, sparse, >= 1e5, and pipe labels
    drawn from the junction labels (collision across tables)"""
    maps = {}
    labs = labels_of(spec)
    for tbl, ls in labs.items():
        style = rng.choice(["perm", "sparse", "large", "contig", "identity"])
        if tbl in ("junction", "pipe"):
            style = rng.choice(["perm", "sparse", "large", "contig"])
        n = len(ls)
        if style == "perm":
            new = list(ls)
            rng.shuffle(new)
        elif style == "sparse":
            new = rng.sample(range(0, 9 * n + 7), n)
        elif style == "large":
            new = rng.sample(range(100000, 100000 + 40 * n + 40), n)
        elif style == "contig":
            new = list(range(n))
            if rng.random() < 0.5:
                rng.shuffle(new)
        else:
            new = list(ls)
        maps[tbl] = dict(zip(ls, new))
    if "pipe" in maps and rng.random() < 0.4:       # colliding pipe / junction labels
        pool = list(maps["junction"].values())
        n = len(maps["pipe"])
        if len(pool) >= n:
            new = rng.sample(pool, n)
            maps["pipe"] = dict(zip(list(maps["pipe"].keys()), new))
    return maps


def relabel_spec(spec, maps):
    out = copy.deepcopy(spec)
    for fn, kw in out["ops"]:
        tbl = TABLE_OF[fn]
        kw["index"] = maps[tbl][kw["index"]]
        for r in JREFS:
            if r in kw:
                kw[r] = maps["junction"][kw[r]]
        if fn == "create_valve":
            kw["element"] = maps["junction"][kw["element"]] if kw["et"] == "ju" else maps["pipe"][kw["element"]]
    return out


def recreate_spec(rng, spec):
    ops = copy.deepcopy(spec["ops"])
    js = [o for o in ops if o[0] == "create_junction"]
    ps = [o for o in ops if o[0] == "create_pipe_from_parameters"]
    rest = [o for o in ops if o[0] not in ("create_junction", "create_pipe_from_parameters")]
    for l in (js, ps, rest):
        rng.shuffle(l)
    out = copy.deepcopy(spec)
    out["ops"] = js + ps + rest
    return out


BULK = {  # single create function -> (bulk function, {single kwarg: bulk kwarg}), everything passed as lists
    "create_junction": ("create_junctions", {}),
    "create_pipe_from_parameters": ("create_pipes_from_parameters", {"from_junction": "from_junctions",
                                                                      "to_junction": "to_junctions"}),
    "create_pipe": ("create_pipes", {"from_junction": "from_junctions", "to_junction": "to_junctions"}),
    "create_sink": ("create_sinks", {"junction": "junctions"}),
    "create_source": ("create_sources", {"junction": "junctions"}),
    "create_ext_grid": ("create_ext_grids", {"junction": "junctions"}),
    "create_valve": ("create_valves", {"junction": "junctions", "element": "elements"}),
    "create_flow_control": ("create_flow_controls", {"from_junction": "from_junctions", "to_junction": "to_junctions"}),
    "create_heat_exchanger": ("create_heat_exchangers", {"from_junction": "from_junctions", "to_junction": "to_junctions"}),
}
BULK_DEFAULTS = {"create_junction": {"height_m": 0.0, "in_service": True},
                 "create_pipe_from_parameters": {"loss_coefficient": 0.0, "sections": 1, "u_w_per_m2k": 0.0,
                                                 "in_service": True, "k_mm": 0.2},
                 "create_pipe": {"loss_coefficient": 0.0, "sections": 1, "in_service": True},
                 "create_sink": {"scaling": 1.0, "in_service": True}, "create_source": {"scaling": 1.0, "in_service": True},
                 "create_ext_grid": {"in_service": True}, "create_valve": {"opened": True, "loss_coefficient": 0.0},
                 "create_flow_control": {"control_active": True, "in_service": True},
                 "create_heat_exchanger": {"loss_coefficient": 0.0, "in_service": True}}


def bulk_spec(rng, spec):
    """the same net built through the bulk create functions: all elements of a kind in ONE call, listed in a shuffled
    order, every parameter as a per-element list (std types included).  Kinds without a bulk twin keep single calls."""
    groups, rest = {}, []
    for fn, kw in spec["ops"]:
        if fn in BULK:
            groups.setdefault(fn, []).append(copy.deepcopy(kw))
        else:
            rest.append([fn, copy.deepcopy(kw)])
    ops = []
    for fn in ("create_junction", "create_pipe_from_parameters", "create_pipe", "create_valve", "create_flow_control",
               "create_heat_exchanger", "create_ext_grid", "create_sink", "create_source"):
        rows = groups.get(fn)
        if not rows:
            continue
        rng.shuffle(rows)
        keys = sorted(set(k for r in rows for k in r) | set(BULK_DEFAULTS.get(fn, {})))
        bfn, ren = BULK[fn]
        kw = {}
        for k in keys:
            col = [r.get(k, BULK_DEFAULTS.get(fn, {}).get(k)) for r in rows]
            if all(v is None for v in col):
                continue
            if any(v is None for v in col):       # no list form for a partly absent parameter: keep single calls
                kw = None
                break
            kw[ren.get(k, k)] = col
        if kw is None:
            rest = [[fn, r] for r in rows] + rest
            continue
        if fn == "create_junction":
            kw["nr_junctions"] = len(rows)
        ops.append([bfn, kw])
    out = copy.deepcopy(spec)
    # junctions first, then pipes, then the rest (single calls keep their order)
    out["ops"] = ops[:1] + [o for o in ops[1:] if o[0].startswith("create_pipes")] + \
        [o for o in ops[1:] if not o[0].startswith("create_pipes")] + rest
    return out


STD_TYPES = ["80_GGG", "200_GGG", "125_GGG", "100_GGG", "150_GGG"]


def std_type_spec(order):
    """a tree net whose pipes use different std types; pipes are listed in [order] (identity = pipe label)"""
    k = len(STD_TYPES)
    ops = [["create_junction", {"index": j, "pn_bar": 5.0, "tfluid_k": 300.0}] for j in range(k + 1)]
    for i in order:
        ops.append(["create_pipe", {"index": 10 + i, "from_junction": i // 2, "to_junction": i + 1, "std_type": STD_TYPES[i],
                                    "length_km": 0.3 + 0.1 * i}])
    ops.append(["create_ext_grid", {"index": 0, "junction": 0, "p_bar": 5.0, "t_k": 300.0}])
    for i in range(k):
        ops.append(["create_sink", {"index": i, "junction": i + 1, "mdot_kg_per_s": 0.5 + 0.25 * i}])
    return {"fluid": "water", "ops": ops}


def two_supply_spec(labels, swap_egs=False):
    """a line of junctions (row order = position along the line, labels as given) fed from both ends by ext grids with
    DIFFERENT pressure and temperature, plus a second ext grid on the first junction with a third set-point"""
    n = len(labels)
    ops = [["create_junction", {"index": l, "pn_bar": 5.0, "tfluid_k": 320.0}] for l in labels]
    for i in range(n - 1):
        ops.append(["create_pipe_from_parameters", {"index": i, "from_junction": labels[i], "to_junction": labels[i + 1],
                                                     "length_km": 0.4, "inner_diameter_mm": 80.0, "k_mm": 0.1,
                                                     "sections": 1 + i % 2, "u_w_per_m2k": 5.0, "text_k": 283.15}])
    egs = [["create_ext_grid", {"index": 0, "junction": labels[0], "p_bar": 6.0, "t_k": 350.0}],
           ["create_ext_grid", {"index": 1, "junction": labels[-1], "p_bar": 4.5, "t_k": 310.0}],
           ["create_ext_grid", {"index": 2, "junction": labels[0], "p_bar": 5.0, "t_k": 330.0}]]
    ops += egs[::-1] if swap_egs else egs
    for i in range(1, n - 1):
        ops.append(["create_sink", {"index": i, "junction": labels[i], "mdot_kg_per_s": 0.3 * i}])
    return {"fluid": "water", "ops": ops}


def fixed_setpoint_oracle(ctx, spec, kw, tag):
    """every junction with in-service ext grids reports the mean of THEIR pressures"""
    net = gen.build(spec)
    st, msg = drive.run(net, **kw)
    if st != "ok":
        return
    eg = net.ext_grid[net.ext_grid.in_service]
    for j, grp in eg.groupby("junction"):
        for col, rcol in (("p_bar", "p_bar"), ("t_k", "t_k")):
            if rcol == "t_k" and kw.get("mode") != "hydraulics":
                continue
            exp = float(grp[col].mean())
            got = float(net.res_junction[rcol].at[j])
            if not abs(got - exp) <= 1e-9:
                ctx.violation({"monitor": "fixed_setpoint", "table": "res_junction", "column": rcol},
                              "junction %d carries ext grids with %s %r but reports %s = %r (junction labels in row "
                              "order %r)" % (j, col, grp[col].tolist(), rcol, got, net.junction.index.tolist()),
                              {"kind": tag, "net": spec, "options": kw})
                return


def monitor_corpus(ctx):
    """fixed families that run first in every run (no dependence on VERIF_SEED):
       * std-type nets built by single calls vs create_pipes with a std-type LIST in several listing orders
       * two (three) ext grids with different set-points on a line whose junction labels are reversed / shuffled /
         large, vs the contiguously labelled twin; permuted junction table; bulk re-creation; set-point oracle"""
    rng = ctx.rng
    kw = {"use_numba": False, "mode": "hydraulics"}
    k = len(STD_TYPES)
    ref = std_type_spec(list(range(k)))
    for order in ([2, 0, 4, 1, 3], [4, 3, 2, 1, 0], [1, 2, 3, 4, 0], list(range(k))):
        single = std_type_spec(order)
        b = bulk_spec(rng, single)
        # keep the listing order of this trial inside the bulk call
        for op in b["ops"]:
            if op[0] == "create_pipes":
                pos = [op[1]["index"].index(10 + i) for i in order]
                op[1] = {kk: [v[p] for p in pos] for kk, v in op[1].items()}
        for name, sp in (("single", single), ("bulk", b)):
            status, diffs, sa, sb = compare("recreate", ref, lambda sp=sp: gen.build(sp), kw)
            ctx.count("monitor_corpus_stdtype_" + status)
            ctx.case({"monitor": "stdtype_" + name, "order": order}, order != sorted(order))
            if status in ("diff", "outcome"):
                report(ctx, "recreate", ref, {"net_b": sp, "built": name + " calls, pipes listed in order %r" % (order,)},
                       kw, diffs, snaps=list(LAST_SNAPS) if status == "diff" else ())
    kw = {"use_numba": False, "mode": "hydraulics"}      # fixed p and T are both visible in res_junction
    base = two_supply_spec([0, 1, 2, 3, 4])
    for labels, swap in (([4, 3, 2, 1, 0], False), ([7, 2, 9, 0, 5], True), ([100004, 3, 100001, 8, 100000], False),
                         ([1, 0, 3, 2, 4], True)):
        sp = two_supply_spec(labels, swap)
        maps = {"junction": dict(zip(range(5), labels)), "pipe": {i: i for i in range(4)},
                "ext_grid": {i: i for i in range(3)}, "sink": {i: i for i in range(1, 4)}}
        status, diffs, sa, sb = compare("relabel", base, lambda sp=sp: gen.build(sp), kw, index_map=maps)
        ctx.count("monitor_corpus_two_supply_" + status)
        ctx.case({"monitor": "two_supply", "labels": labels}, True)
        if status in ("diff", "outcome"):
            report(ctx, "relabel", base, {"net_b": sp, "maps": {t: [[a, c] for a, c in m.items()] for t, m in maps.items()}},
                   kw, diffs, snaps=list(LAST_SNAPS) if status == "diff" else ())
        fixed_setpoint_oracle(ctx, sp, kw, "two_supply")
        for kind in ("permute", "recreate"):
            one_case(ctx, kind, sp, rng, kw)
        one_case(ctx, "bulk", sp, rng, kw)


def permute_rows(net, seed):
    import pandas as pd
    n2 = copy.deepcopy(net)
    moved = False
    for t in drive.user_tables(n2):
        df = n2[t]
        if isinstance(df, pd.DataFrame) and len(df) > 1 and not t.endswith("geodata") and t in [
                "junction", "pipe", "valve", "sink", "source", "ext_grid", "flow_control", "pump", "compressor",
                "mass_storage", "heat_consumer", "heat_exchanger", "circ_pump_mass", "circ_pump_pressure"]:
            new = df.sample(frac=1, random_state=seed)
            if list(new.index) != list(df.index):
                moved = True
            n2[t] = new
    return n2, moved


def add_pi_valves(rng, spec, k):
    """up to k further open junction-pipe valves on randomly chosen pipes (rows in random order, so that the
    (junction, pipe) pairs of the valve table are neither sorted nor in pipe row order)"""
    pipes = [kw for fn, kw in spec["ops"] if fn == "create_pipe_from_parameters" and kw.get("in_service", True)]
    used = {kw["element"] for fn, kw in spec["ops"] if fn == "create_valve" and kw["et"] == "pi"}
    pipes = [p for p in pipes if p["index"] not in used]
    rng.shuffle(pipes)
    vl = [kw["index"] for fn, kw in spec["ops"] if fn == "create_valve"]
    nxt = (max(vl) + 1) if vl else 0
    for p in pipes[:k]:
        spec["ops"].append(["create_valve", {"index": nxt, "junction": rng.choice([p["from_junction"], p["to_junction"]]),
                                             "element": p["index"], "et": "pi", "inner_diameter_mm": 80.0, "opened": True,
                                             "loss_coefficient": 0.0}])
        nxt += 1
    return spec


def options_for(spec, rng=None, thermal=None):
    heat = "heat_modes" in spec
    if thermal is None:
        thermal = heat or (spec["fluid"] == "water" and rng is not None and rng.random() < 0.4)
    kw = {"use_numba": False, "mode": "sequential" if thermal else "hydraulics"}
    if heat:
        kw["iter"] = 100
    return kw


def run_and_snap(net, kw):
    st, msg = drive.run(net, **kw)
    return st, msg, (drive.snapshot_results(net) if st == "ok" else None)


def compare(kind, spec_a, net_b_builder, kw, index_map=None):
    """returns (status, diffs, st_a, st_b)"""
    net_a = gen.build(spec_a)
    st_a, msg_a, snap_a = run_and_snap(net_a, kw)
    net_b = net_b_builder()
    st_b, msg_b, snap_b = run_and_snap(net_b, kw)
    if st_a != "ok" and st_b != "ok":
        return "skip", [], st_a, st_b          # both fail (the exception class of a singular system may differ)
    if st_a != st_b:
        return "outcome", [("outcome", "%s (%s) vs %s (%s)" % (st_a, msg_a[:80], st_b, msg_b[:80]))], st_a, st_b
    diffs = drive.same_results(snap_a, snap_b, rtol=RTOL[kind], atol=ATOL[kind], index_map=index_map)
    diffs = [d for d in diffs if not stagnant_noise(d, snap_a)]
    if diffs and kind in ("permute", "recreate") and not kw.get("tol_p"):
        # a different elimination order perturbs the Newton iterates; at round-off tolerances the difference of two
        # equivalent systems shrinks to round-off, a difference of the assembled systems persists
        from harness import c0406_common as cm
        sa2, _, snap_a2 = run_and_snap(net_a, cm.tight(kw))
        sb2, _, snap_b2 = run_and_snap(net_b, cm.tight(kw))
        if sa2 == "ok" and sb2 == "ok":
            snap_a, snap_b = snap_a2, snap_b2
            diffs = drive.same_results(snap_a, snap_b, rtol=RTOL[kind], atol=ATOL[kind], index_map=index_map)
            diffs = [d for d in diffs if not stagnant_noise(d, snap_a)]
    LAST_SNAPS[:] = [snap_a, snap_b]
    return ("diff" if diffs else "same"), diffs, st_a, st_b


LAST_SNAPS = []
ILL_CONDITIONED = ("lambda", "reynolds")
STAGNANT_MDOT = 1e-6


def stagnant_noise(diff, snap_a):
    """lambda = 64/Re and Re of a branch without flow amplify the rounding noise of a mass flow that is zero up to
    1e-16; these two derived columns are compared only on rows that carry flow"""
    t, d = diff
    col = d.split("[")[0]
    if col not in ILL_CONDITIONED or "mdot_from_kg_per_s" not in snap_a.get(t, {}).get("cols", {}):
        return False
    try:
        lab = int(d.split("[")[1].split("]")[0])
        row = snap_a[t]["index"].index(lab)
        m = snap_a[t]["cols"]["mdot_from_kg_per_s"][row]
    except (ValueError, IndexError):
        return False
    return m is not None and abs(m) < STAGNANT_MDOT


MEAN_COLUMNS = ("lambda", "reynolds", "dp_friction_loss_bar", "v_mean_m_per_s", "vdot_m3_per_s", "vdot_norm_m3_per_s")


def cancellation_cause(diffs, snaps):
    """all differences are small relative errors (<= 1e-3) in section-mean columns of a table in which another row
    of the same column is >= 1e6 times larger: the cumsum-difference of _sum_by_group_sorted cancels"""
    import re
    for t, d in diffs:
        m = re.match(r"(\w+)\[(-?\d+)\]: (\S+) vs (\S+)$", d)
        if not m or m.group(1) not in MEAN_COLUMNS:
            return False
        try:
            x, y = float(m.group(3)), float(m.group(4))
        except ValueError:
            return False
        if abs(x - y) > 1e-3 * max(abs(x), abs(y)):
            return False
        big = 0.0
        for sn in snaps:
            vals = [abs(v) for v in sn.get(t, {}).get("cols", {}).get(m.group(1), []) if v is not None]
            big = max([big] + vals)
        if big < 1e6 * max(abs(x), abs(y)):
            return False
    return True


def report(ctx, kind, spec, extra, kw, diffs, snaps=()):
    t, d = diffs[0]
    col = d.split("[")[0] if "[" in d else d
    sig = {"transform": kind, "table": t, "column": col}
    if snaps and cancellation_cause(diffs, snaps):
        sig = {"transform": kind, "table": t, "cause": "cumsum_cancellation"}
    what = ("%s: %s differs for the same element after %s (%d differences, first: %s); options %r"
            % (kind, t, {"relabel": "an injective relabelling", "permute": "a row permutation",
                         "recreate": "re-creation in another order"}[kind], len(diffs), d, kw))
    rp = {"kind": kind, "net": spec, "options": kw}
    rp.update(extra)
    ctx.violation(sig, what, rp)


def one_case(ctx, kind, spec, rng, kw):
    if kind == "relabel":
        maps = random_maps(rng, spec)
        spec_b = relabel_spec(spec, maps)
        nontrivial = any(k != v for m in maps.values() for k, v in m.items())
        status, diffs, sa, sb = compare(kind, spec, lambda: gen.build(spec_b), kw, index_map=maps)
        extra = {"net_b": spec_b, "maps": {t: [[k, v] for k, v in m.items()] for t, m in maps.items()}}
    elif kind in ("recreate", "bulk"):
        spec_b = recreate_spec(rng, spec) if kind == "recreate" else bulk_spec(rng, spec)
        nontrivial = spec_b["ops"] != spec["ops"]
        kind = "recreate"
        status, diffs, sa, sb = compare(kind, spec, lambda: gen.build(spec_b), kw)
        extra = {"net_b": spec_b}
    else:
        seed = rng.randint(0, 10 ** 6)
        box = {}

        def builder():
            n2, moved = permute_rows(gen.build(spec), seed)
            box["moved"] = moved
            return n2
        status, diffs, sa, sb = compare(kind, spec, builder, kw)
        nontrivial = box.get("moved", False)
        extra = {"sample_seed": seed}
    ctx.count("monitor_%s_%s" % (kind, status if status != "skip" else "skip_" + sa))
    d = gen.describe(spec)
    ctx.case({"monitor": kind, "net": spec, "options": kw}, nontrivial and status in ("same", "diff", "outcome"))
    if status in ("diff", "outcome"):
        report(ctx, kind, spec, extra, kw, diffs, snaps=list(LAST_SNAPS) if status == "diff" else ())
    return status


def monitors(ctx, widen=False):
    rng = ctx.rng
    n = (16 if ctx.quick else 330)
    if widen:
        n *= 3
    for i in range(n):
        prof = ["heat", "water", "gas"][i % 3]
        mode = rng.choice(["shuffled", "sparse", "large", "contig"])
        spec = gen.gen_net(rng, prof, label_mode=mode)
        if prof != "heat" and rng.random() < 0.5:
            add_pi_valves(rng, spec, rng.randint(2, 4))
        kw = options_for(spec, rng)
        for kind in ("relabel", "permute", "recreate", "bulk"):
            try:
                one_case(ctx, kind, spec, rng, kw)
            except Exception as e:  # noqa: BLE001
                ctx.broken("harness", "monitor %s" % kind, repr(e))
                return


def witness_spec(labels, sections):
    """DESIGN 4/C06.6: three pipes in series with differing section counts and heat loss"""
    ops = [["create_junction", {"index": j, "pn_bar": 5.0, "tfluid_k": 350.0}] for j in range(4)]
    for k, (l, s) in enumerate(zip(labels, sections)):
        ops.append(["create_pipe_from_parameters", {"index": l, "from_junction": k, "to_junction": k + 1,
                                                     "length_km": 0.4 + 0.3 * k, "inner_diameter_mm": 60.0, "k_mm": 0.1,
                                                     "sections": s, "u_w_per_m2k": 8.0, "text_k": 280.0}])
    ops.append(["create_ext_grid", {"index": 0, "junction": 0, "p_bar": 5.0, "t_k": 360.0}])
    ops.append(["create_sink", {"index": 0, "junction": 3, "mdot_kg_per_s": 0.4}])
    return {"fluid": "water", "ops": ops}


def monitor_t_outlet_witness(ctx):
    """the labelling that exposed the former t_outlet_k misplacement, plus random ones of the same shape"""
    rng = ctx.rng
    trials = [([7, 3, 5], [1, 3, 2]), ([2, 0, 1], [3, 1, 2]), ([100003, 4, 17], [2, 4, 1])]
    for _ in range(3 if ctx.quick else 30):
        k = 3
        trials.append((rng.sample(range(0, 30), k), [rng.randint(1, 4) for _ in range(k)]))
    for labels, sections in trials:
        spec_b = witness_spec(labels, sections)
        spec_a = witness_spec(list(range(len(labels))), sections)
        maps = {"junction": {j: j for j in range(4)}, "pipe": dict(zip(range(len(labels)), labels)),
                "ext_grid": {0: 0}, "sink": {0: 0}}
        kw = {"use_numba": False, "mode": "sequential"}
        status, diffs, sa, sb = compare("relabel", spec_a, lambda: gen.build(spec_b), kw, index_map=maps)
        ctx.count("monitor_witness_" + status)
        ctx.case({"monitor": "t_outlet_witness", "labels": labels, "sections": sections}, labels != sorted(labels))
        if status in ("diff", "outcome"):
            report(ctx, "relabel", spec_a, {"net_b": spec_b, "maps": {t: [[k, v] for k, v in m.items()]
                                                                     for t, m in maps.items()}}, kw, diffs)
        # independent oracle: outlet temperature of a series pipe = inlet temperature of the next one
        net = gen.build(spec_b)
        st, _ = drive.run(net, **kw)
        if st == "ok":
            for k in range(len(labels) - 1):
                a = float(net.res_pipe.t_outlet_k.at[labels[k]])
                b = float(net.res_pipe.t_from_k.at[labels[k + 1]])
                if not abs(a - b) <= 1e-6:
                    ctx.violation({"transform": "series", "table": "res_pipe", "column": "t_outlet_k"},
                                  "t_outlet_k of pipe %d (%r) is not the inlet temperature of the next pipe in "
                                  "series (%r); labels %r sections %r" % (labels[k], a, b, labels, sections),
                                  {"kind": "series", "net": spec_b, "options": kw})
                    break


def pi_valve_structure(net):
    """exact, structural: every junction-pipe valve leads from its junction to a valve node, and that valve node is the
    end of exactly the pipe named in valve.element (at the end where the pipe is declared at that junction).
    Returns None or a description of the first valve for which this fails.  Needs an initialised pit."""
    import pandapipes.idx_branch as ib
    L = net["_lookups"]
    if "valve" not in L["branch_from_to"] or not len(net.valve) or not (net.valve.et == "pi").any():
        return None
    bp = net["_pit"]["branch"]
    fv, _ = L["branch_from_to"]["valve"]
    fp, _ = L["branch_from_to"]["pipe"]
    jl = L["node_index"]["junction"]
    internal = L["internal_branches"]["pipe"]
    vn_f, vn_t = L["node_from_to"].get("valve_nodes", (0, 0))
    prow = {int(l): r for r, l in enumerate(net.pipe.index.values)}
    for k, (vi, row) in enumerate(net.valve.iterrows()):
        if row.et != "pi":
            continue
        vfrom, vto = int(bp[fv + k, ib.FROM_NODE]), int(bp[fv + k, ib.TO_NODE])
        r = prow[int(row.element)]
        first, last = fp + int(internal[r, 0]), fp + int(internal[r, 1])
        at_from = int(net.pipe.from_junction.values[r]) == int(row.junction)
        pipe_end = int(bp[first, ib.FROM_NODE]) if at_from else int(bp[last, ib.TO_NODE])
        if vfrom != int(jl[int(row.junction)]) or not (vn_f <= vto < vn_t) or pipe_end != vto:
            return ("valve %d (junction %d, pipe %d): valve pit row %d -> %d, the %s of pipe %d is node %d, valve nodes "
                    "are [%d, %d)" % (vi, row.junction, row.element, vfrom, vto,
                                      "inlet" if at_from else "outlet", row.element, pipe_end, vn_f, vn_t))
    return None


def pi_family_spec(labels_j, labels_p, valve_order, at_hub):
    """hub junction with k spokes; spoke i = pipe labels_p[i] to junction labels_j[i] with its own sink; one pi valve per
    spoke, created in valve_order, sitting at the hub end (at_hub) or at the far end of its pipe"""
    k = len(labels_p)
    hub = max(labels_j) + 1
    ops = [["create_junction", {"index": hub, "pn_bar": 5.0, "tfluid_k": 300.0}]]
    ops += [["create_junction", {"index": j, "pn_bar": 5.0, "tfluid_k": 300.0}] for j in labels_j]
    for i in range(k):
        ops.append(["create_pipe_from_parameters", {"index": labels_p[i], "from_junction": hub, "to_junction": labels_j[i],
                                                     "length_km": 0.1 + 0.05 * i, "inner_diameter_mm": 80.0, "k_mm": 0.1,
                                                     "sections": 1 + (i % 3)}])
    for n, i in enumerate(valve_order):
        ops.append(["create_valve", {"index": n, "junction": hub if at_hub else labels_j[i], "element": labels_p[i],
                                     "et": "pi", "inner_diameter_mm": 80.0, "opened": True, "loss_coefficient": 0.2}])
    ops.append(["create_ext_grid", {"index": 0, "junction": hub, "p_bar": 5.0, "t_k": 300.0}])
    for i in range(k):
        ops.append(["create_sink", {"index": i, "junction": labels_j[i], "mdot_kg_per_s": 0.1 * (i + 1)}])
    return {"fluid": "water", "ops": ops}, hub


def monitor_pi_valve_family(ctx):
    """3-5 junction-pipe valves on differently labelled pipes, label orders rotated / permuted against the row order:
    structure of the pit, flow of every valve = flow of its own pipe = its sink, and equality with the contiguously
    labelled twin"""
    rng = ctx.rng
    s = drive.psetup()
    trials = []
    for k in (3, 4, 5):
        for rot in range(1, k):
            base = [10 * (i + 1) for i in range(k)]
            trials.append((base[rot:] + base[:rot], list(range(k)), True))       # rotated pipe labels
    for _ in range(6 if ctx.quick else 120):
        k = rng.randint(3, 5)
        trials.append((rng.sample(range(0, 60), k), rng.sample(range(k), k), rng.random() < 0.5))
    for labels_p, valve_order, at_hub in trials:
        k = len(labels_p)
        labels_j = rng.sample(range(0, 40), k)
        spec, hub = pi_family_spec(labels_j, labels_p, valve_order, at_hub)
        ctx.case({"monitor": "pi_family", "pipes": labels_p, "junctions": labels_j, "valves": valve_order,
                  "at_hub": at_hub}, labels_p != sorted(labels_p))
        ctx.count("monitor_pi_family")
        net = gen.build(spec)
        rp = {"kind": "pi_family", "net": spec, "options": {"use_numba": False}}
        try:
            s.init_options(net)
            s.init_all_result_tables(net)
            s.create_lookups(net)
            s.initialize_pit(net)
            bad = pi_valve_structure(net)
        except Exception as e:  # noqa: BLE001
            bad = "building the pit raised %r" % (e,)
        if bad:
            ctx.violation({"fn": "Valve.create_pit_branch_entries", "what": "pi_valve_attachment"}, bad, rp)
            continue
        net = gen.build(spec)
        st, msg = drive.run(net, use_numba=False)
        if st != "ok":
            ctx.violation({"monitor": "pi_family", "outcome": st}, "spoke net with %d pi valves: %s %s" % (k, st, msg[:80]), rp)
            continue
        for n, i in enumerate(valve_order):
            mv = abs(float(net.res_valve.mdot_from_kg_per_s.at[n]))
            mp = abs(float(net.res_pipe.mdot_from_kg_per_s.at[labels_p[i]]))
            if abs(mv - mp) > 1e-9 or abs(mp - 0.1 * (i + 1)) > 1e-9:
                ctx.violation({"monitor": "pi_family", "table": "res_valve", "column": "mdot_from_kg_per_s"},
                              "valve %d sits on pipe %d (sink %.1f kg/s): valve carries %r, pipe carries %r; pipe labels "
                              "in row order %r" % (n, labels_p[i], 0.1 * (i + 1), mv, mp, labels_p), rp)
                break
        # contiguously labelled twin
        twin, _ = pi_family_spec(list(range(k)), list(range(k)), valve_order, at_hub)
        maps = {"junction": dict([(k, hub)] + list(zip(range(k), labels_j))), "pipe": dict(zip(range(k), labels_p)),
                "valve": {n: n for n in range(k)}, "ext_grid": {0: 0}, "sink": {i: i for i in range(k)}}
        status, diffs, sa, sb = compare("relabel", twin, lambda: gen.build(spec), {"use_numba": False}, index_map=maps)
        if status in ("diff", "outcome"):
            report(ctx, "relabel", twin, {"net_b": spec, "maps": {t: [[a, b] for a, b in m.items()] for t, m in maps.items()}},
                   {"use_numba": False}, diffs, snaps=list(LAST_SNAPS) if status == "diff" else ())


def lookup_property_check(net):
    """lookup_correct evaluated directly on the real lookups (used to classify a model disagreement)"""
    s = drive.psetup()
    s.init_options(net)
    s.create_lookups(net)
    L = net["_lookups"]
    for kind in ("node", "branch"):
        for tbl, arr in L[kind + "_index"].items():
            f, t = L[kind + "_from_to"][tbl]
            idx = net[tbl].index.values
            if len(idx) and len(arr) != idx.max() + 1:
                return ("length", "%s_index[%s] has %d entries, max label %d" % (kind, tbl, len(arr), idx.max()))
            for k, l in enumerate(idx):
                if arr[l] != f + k:
                    return ("entry", "%s_index[%s][%d] = %d, row %d starts at %d" % (kind, tbl, l, arr[l], k, f + k))
            if np.sum(arr != -1) != len(idx):
                return ("stray", "%s_index[%s] has stray entries" % (kind, tbl))
    return None


def replay(ctx, rp):
    kind = rp.get("kind")
    if kind in ("relabel", "recreate") and "net_b" in rp:
        maps = None
        if "maps" in rp:
            maps = {t: {a: b for a, b in m} for t, m in rp["maps"].items()}
        status, diffs, sa, sb = compare(kind, rp["net"], lambda: gen.build(rp["net_b"]), rp["options"], index_map=maps)
    elif kind == "permute":
        status, diffs, sa, sb = compare(kind, rp["net"], lambda: permute_rows(gen.build(rp["net"]), rp["sample_seed"])[0],
                                        rp["options"])
    elif kind == "pi_family":
        net = gen.build(rp["net"])
        s = drive.psetup()
        s.init_options(net); s.init_all_result_tables(net); s.create_lookups(net); s.initialize_pit(net)
        bad = pi_valve_structure(net)
        print("replay pi_family: %s" % (bad or "valve nodes attached to their own pipes"))
        if bad:
            ctx.violation({"fn": "Valve.create_pit_branch_entries", "what": "pi_valve_attachment"}, bad, rp)
        return
    else:
        print("replay: nothing to re-run for kind %r" % kind)
        return
    print("replay %s: %s %s" % (kind, status, diffs[:3]))
    if status in ("diff", "outcome"):
        report(ctx, kind, rp["net"], {k: v for k, v in rp.items() if k not in ("kind", "net", "options")},
               rp["options"], diffs, snaps=list(LAST_SNAPS) if status == "diff" else ())
