"""C04 monitors on real pipeflow runs (tests, not obligations) and the property-level reachability oracle."""
import copy
import os
import sys

import numpy as np

sys.path.insert(0, os.path.dirname(os.path.dirname(os.path.abspath(__file__))))
from harness import gen, drive  # noqa: E402
from harness import c0406_common as cm  # noqa: E402
from harness import c04_cases as cc  # noqa: E402

RTOL = ATOL = 1e-10
NODE_ELEMENTS = ("sink", "source", "mass_storage", "ext_grid")
BRANCH_TABLES = ("pipe", "valve", "pump", "compressor", "flow_control", "press_control", "heat_consumer",
                 "heat_exchanger", "circ_pump_mass", "circ_pump_pressure")


# ------------------------------------------------------------------------------ generator additions (own)
def _junction_labels(spec):
    return [kw["index"] for fn, kw in spec["ops"] if fn == "create_junction"]


def _new_label(spec, fn):
    ls = [kw["index"] for f, kw in spec["ops"] if f == fn]
    return (max(ls) + 1) if ls else 0


def _template_junction(spec):
    for fn, kw in spec["ops"]:
        if fn == "create_junction":
            return kw


def add_pressure_control(rng, spec):
    """a leaf junction behind a pressure control (DIRECTED branch); in half of the cases the controller is declared
    towards the net, so that the leaf is reachable only against the direction"""
    js = _junction_labels(spec)
    tj = _template_junction(spec)
    a = rng.choice(js[:max(1, len(js) // 2)])
    c = max(js) + 1
    ops = spec["ops"]
    ops.append(["create_junction", {"index": c, "pn_bar": tj["pn_bar"], "tfluid_k": tj["tfluid_k"], "height_m": 0.}])
    rev = rng.random() < 0.4
    ops.append(["create_pressure_control", {"index": _new_label(spec, "create_pressure_control"),
                                            "from_junction": c if rev else a, "to_junction": a if rev else c,
                                            "controlled_junction": a if rev else c,
                                            "controlled_p_bar": 0.8 * tj["pn_bar"],
                                            "control_active": rng.random() < 0.8, "in_service": True,
                                            "check_controllability": False}])
    scale = 0.002 if spec["fluid"] != "water" else 0.05
    ops.append(["create_sink", {"index": _new_label(spec, "create_sink"), "junction": c, "mdot_kg_per_s": scale}])
    return spec


def add_heat_consumer_bridge(rng, spec):
    """a junction attached through a flow control with active control (FLOW_RETURN_CONNECT): not a hydraulic
    connection by itself; in half of the cases a pipe attaches the junction as well"""
    js = _junction_labels(spec)
    tj = _template_junction(spec)
    a = rng.choice(js[:max(1, len(js) // 2)])
    c = max(js) + 1
    ops = spec["ops"]
    ops.append(["create_junction", {"index": c, "pn_bar": tj["pn_bar"], "tfluid_k": tj["tfluid_k"]}])
    scale = 0.002 if spec["fluid"] != "water" else 0.05
    ops.append(["create_flow_control", {"index": _new_label(spec, "create_flow_control"), "from_junction": a,
                                        "to_junction": c, "controlled_mdot_kg_per_s": scale,
                                        "control_active": True, "in_service": True}])
    if rng.random() < 0.5:
        ops.append(["create_pipe_from_parameters", {"index": _new_label(spec, "create_pipe_from_parameters"),
                                                     "from_junction": rng.choice(js), "to_junction": c,
                                                     "length_km": 0.2, "inner_diameter_mm": 80., "k_mm": 0.1,
                                                     "sections": rng.choice([1, 2])}])
    ops.append(["create_sink", {"index": _new_label(spec, "create_sink"), "junction": c, "mdot_kg_per_s": scale}])
    return spec


def add_machines(rng, spec):
    """2-3 pumps (water) / compressors (gas) with DIFFERENT std types / ratios, each the only feeder of its own leaf
    junction with a sink; the first one in the table is switched off or hangs on a junction that is cut off"""
    js = _junction_labels(spec)
    tj = _template_junction(spec)
    water = spec["fluid"] == "water"
    fn, par = ("create_pump", "std_type") if water else ("create_compressor", "pressure_ratio")
    vals = rng.sample(["P1", "P2", "P3"], 3) if water else rng.sample([1.05, 1.1, 1.2, 1.3], 3)
    scale = 0.3 if water else 0.01
    a = js[0]
    for k in range(rng.randint(2, 3)):
        c = max(_junction_labels(spec)) + 1
        spec["ops"].append(["create_junction", {"index": c, "pn_bar": tj["pn_bar"], "tfluid_k": tj["tfluid_k"]}])
        spec["ops"].append([fn, {"index": _new_label(spec, fn), "from_junction": a, "to_junction": c, par: vals[k],
                                 "in_service": not (k == 0 and rng.random() < 0.7)}])
        spec["ops"].append(["create_sink", {"index": _new_label(spec, "create_sink"), "junction": c,
                                            "mdot_kg_per_s": scale * (k + 1)}])
    return spec


def add_oos_supplies(rng, spec):
    """out-of-service pressure supplies next to the in-service ones: a second circulation pump (heat loops) and / or
    an external grid that is switched off, placed before or after the live one in the table"""
    ops = spec["ops"]
    js = _junction_labels(spec)
    tj = _template_junction(spec)
    for fn in ("create_circ_pump_const_pressure", "create_circ_pump_const_mass_flow"):
        live = [i for i, (f, kw) in enumerate(ops) if f == fn]
        if live:
            kw = dict(ops[live[0]][1])
            kw["index"] = _new_label(spec, fn)
            kw["in_service"] = False
            before = [k["index"] for f, k in ops[:live[0]] if f == "create_junction"]
            if rng.random() < 0.5 and len(before) >= 4:
                a, c = rng.sample(before, 2)
                kw["return_junction"], kw["flow_junction"] = a, c
            ops.insert(live[0] if rng.random() < 0.5 else live[0] + 1, [fn, kw])
    if "heat_modes" in spec and rng.random() < 0.5:
        other = "create_circ_pump_const_mass_flow" if any(f == "create_circ_pump_const_pressure" for f, _ in ops) \
            else "create_circ_pump_const_pressure"
        a, c = rng.sample(js, 2)
        kw = {"index": 0, "return_junction": a, "flow_junction": c, "p_flow_bar": tj["pn_bar"], "t_flow_k": 350.0,
              "in_service": False}
        kw.update({"mdot_flow_kg_per_s": 1.0} if other.endswith("mass_flow") else {"plift_bar": 1.0})
        ops.append([other, kw])
    eg = [i for i, (f, kw) in enumerate(ops) if f == "create_ext_grid"]
    if rng.random() < 0.7:
        pos = eg[0] if eg and rng.random() < 0.5 else len(ops)
        before = [k["index"] for f, k in ops[:pos] if f == "create_junction"]
        kw = {"index": _new_label(spec, "create_ext_grid"), "junction": rng.choice(before), "p_bar": tj["pn_bar"],
              "t_k": tj["tfluid_k"], "in_service": False}
        ops.insert(pos, ["create_ext_grid", kw])
    return spec


# ------------------------------------------------------------------------------ fixed corpus (always runs first)
def _j(i, p=5.0, t=300.0):
    return ["create_junction", {"index": i, "pn_bar": p, "tfluid_k": t}]


def _pipe(i, a, c, sections=1, **kw):
    d = {"index": i, "from_junction": a, "to_junction": c, "length_km": 0.2, "inner_diameter_mm": 80.0, "k_mm": 0.1,
         "sections": sections}
    d.update(kw)
    return ["create_pipe_from_parameters", d]


def corpus():
    """hand-built nets that contain, in every run, the shapes the property depends on:
       * flow-return-connect elements (controlling flow controller, heat consumer) whose BOTH junctions are supplied
         through other elements - with flags that switch them off / make them passive
       * a pressure controller (directed) whose inlet loses its supply while its outlet stays supplied, and one that is
         the only link of a leaf
       * a flow-return-connect element as the only link of a junction, a passive flow controller as only link entered
         from its to_junction, a closed junction-pipe valve, an island, switched-off supplies next to live ones
     returns [(name, spec, flags enumerated first, monitor settings [[table, column, index, value], ...] list)]"""
    out = []
    for fluid, scale in (("water", 0.05), ("lgas", 0.002)):
        ops = [_j(i) for i in range(9)]
        ops += [["create_ext_grid", {"index": 2, "junction": 0, "p_bar": 5.5, "t_k": 310.0, "in_service": False}],
                ["create_ext_grid", {"index": 0, "junction": 0, "p_bar": 5.0, "t_k": 300.0}],
                ["create_ext_grid", {"index": 1, "junction": 2, "p_bar": 5.0, "t_k": 300.0, "in_service": False}],
                _pipe(10, 0, 1), _pipe(4, 1, 2, sections=3), _pipe(7, 0, 2), _pipe(2, 2, 3, sections=2), _pipe(9, 0, 5),
                # controlling flow controller and heat consumer parallel to pipes: both junctions supplied anyway
                ["create_flow_control", {"index": 0, "from_junction": 1, "to_junction": 2,
                                         "controlled_mdot_kg_per_s": scale, "control_active": True, "in_service": True}],
                ["create_heat_consumer", {"index": 0, "from_junction": 3, "to_junction": 1, "qext_w": 1000.0,
                                          "controlled_mdot_kg_per_s": scale}],
                # passive flow controller: only link of junction 6, entered from its to_junction
                ["create_flow_control", {"index": 1, "from_junction": 6, "to_junction": 3,
                                         "controlled_mdot_kg_per_s": scale, "control_active": False, "in_service": True}],
                # pressure controller from 5 (fed only by pipe 9) to the supplied junction 3
                ["create_pressure_control", {"index": 0, "from_junction": 5, "to_junction": 3, "controlled_junction": 3,
                                             "controlled_p_bar": 4.0, "control_active": True, "in_service": True,
                                             "check_controllability": False}],
                # heat consumer as the only link of junction 7; island 8
                ["create_heat_consumer", {"index": 1, "from_junction": 2, "to_junction": 7, "qext_w": 500.0,
                                          "controlled_mdot_kg_per_s": scale}],
                ["create_valve", {"index": 0, "junction": 2, "element": 2, "et": "pi", "inner_diameter_mm": 80.0,
                                  "opened": True, "loss_coefficient": 0.0}]]
        for k, j in enumerate((1, 3, 5, 6, 7, 8)):
            ops.append(["create_sink", {"index": k, "junction": j, "mdot_kg_per_s": scale * (k + 1)}])
        spec = {"fluid": fluid, "ops": ops}
        flags = [("flow_control", "in_service", 0), ("heat_consumer", "in_service", 0), ("pipe", "in_service", 9),
                 ("flow_control", "control_active", 1), ("press_control", "in_service", 0), ("valve", "opened", 0),
                 ("flow_control", "control_active", 0), ("heat_consumer", "in_service", 1), ("pipe", "in_service", 4),
                 ("ext_grid", "in_service", 1)]
        settings = [[], [["flow_control", "in_service", 0, False]], [["heat_consumer", "in_service", 0, False]],
                    [["pipe", "in_service", 9, False]], [["flow_control", "control_active", 1, True]],
                    [["valve", "opened", 0, False]],
                    [["flow_control", "in_service", 0, False], ["heat_consumer", "in_service", 0, False],
                     ["pipe", "in_service", 9, False]]]
        out.append(("mesh_" + fluid, spec, flags, settings))
    # district heating loop: two parallel heat consumers, a flow control + heat exchanger rung, live and dead pumps
    ops = [_j(i, 6.0, 340.0) for i in range(7)]
    ops += [_pipe(0, 0, 1, sections=2, u_w_per_m2k=1.0, text_k=283.15), _pipe(1, 1, 2, u_w_per_m2k=1.0, text_k=283.15),
            _pipe(5, 5, 4, sections=3, u_w_per_m2k=1.0, text_k=283.15), _pipe(3, 4, 3, u_w_per_m2k=1.0, text_k=283.15),
            ["create_heat_consumer", {"index": 0, "from_junction": 1, "to_junction": 4, "qext_w": 20000.0,
                                      "controlled_mdot_kg_per_s": 0.4}],
            ["create_heat_consumer", {"index": 1, "from_junction": 2, "to_junction": 5, "qext_w": 30000.0,
                                      "controlled_mdot_kg_per_s": 0.6}],
            ["create_heat_consumer", {"index": 2, "from_junction": 2, "to_junction": 5, "qext_w": 10000.0,
                                      "controlled_mdot_kg_per_s": 0.3}],
            ["create_flow_control", {"index": 0, "from_junction": 1, "to_junction": 6, "controlled_mdot_kg_per_s": 0.2}],
            ["create_heat_exchanger", {"index": 0, "from_junction": 6, "to_junction": 4, "qext_w": 5000.0,
                                       "inner_diameter_mm": 80.0}],
            ["create_circ_pump_const_pressure", {"index": 1, "return_junction": 3, "flow_junction": 0, "p_flow_bar": 7.0,
                                                 "plift_bar": 2.0, "t_flow_k": 370.0, "in_service": False}],
            ["create_circ_pump_const_pressure", {"index": 0, "return_junction": 3, "flow_junction": 0, "p_flow_bar": 6.0,
                                                 "plift_bar": 1.5, "t_flow_k": 360.0}],
            ["create_circ_pump_const_mass_flow", {"index": 0, "return_junction": 4, "flow_junction": 1, "p_flow_bar": 6.0,
                                                  "mdot_flow_kg_per_s": 1.0, "t_flow_k": 350.0, "in_service": False}]]
    spec = {"fluid": "water", "ops": ops, "heat_modes": ["MF_QE"]}
    flags = [("heat_consumer", "in_service", 1), ("heat_consumer", "in_service", 0), ("flow_control", "in_service", 0),
             ("circ_pump_pressure", "in_service", 1), ("flow_control", "control_active", 0), ("pipe", "in_service", 1),
             ("heat_consumer", "in_service", 2), ("circ_pump_pressure", "in_service", 0), ("pipe", "in_service", 5),
             ("heat_exchanger", "in_service", 0)]
    settings = [[], [["heat_consumer", "in_service", 1, False]], [["heat_consumer", "in_service", 0, False]],
                [["flow_control", "in_service", 0, False]], [["pipe", "in_service", 1, False]]]
    out.append(("heat_loop", spec, flags, settings))
    # machines with per-row parameters: several pumps (different std types) / compressors (different ratios), each the
    # only feeder of its own leaf with its own sink; a switched-off one sits EARLIER in the table than the live ones
    for fluid, fn, par, vals, scale in (("water", "create_pump", "std_type", ["P3", "P1", "P2"], 0.3),
                                        ("lgas", "create_compressor", "pressure_ratio", [1.3, 1.05, 1.15], 0.01)):
        ops = [_j(i) for i in range(8)]
        ops += [["create_ext_grid", {"index": 0, "junction": 0, "p_bar": 5.0, "t_k": 300.0}], _pipe(0, 0, 1)]
        for k in range(3):
            ops.append([fn, {"index": k, "from_junction": 1, "to_junction": 2 + k, par: vals[k], "in_service": k != 0}])
            ops.append(_pipe(1 + k, 2 + k, 5 + k))
            ops.append(["create_sink", {"index": k, "junction": 5 + k, "mdot_kg_per_s": scale * (k + 1)}])
        spec = {"fluid": fluid, "ops": ops}
        tbl = "pump" if fn == "create_pump" else "compressor"
        flags = [(tbl, "in_service", 0), (tbl, "in_service", 1), (tbl, "in_service", 2), ("pipe", "in_service", 1),
                 ("pipe", "in_service", 2), ("pipe", "in_service", 3), ("pipe", "in_service", 0)]
        settings = [[], [[tbl, "in_service", 0, True], [tbl, "in_service", 1, False]], [["pipe", "in_service", 1, False]],
                    [[tbl, "in_service", 0, True], ["pipe", "in_service", 1, False], [tbl, "in_service", 2, False]]]
        out.append(("machines_" + fluid, spec, flags, settings))
    return out


SOLE_LINK_KINDS = ("pipe", "valve", "pump", "compressor", "heat_exchanger", "flow_control_passive",
                   "flow_control_active", "heat_consumer", "press_control")


def link_op(spec, kind, a, c, scale, p_ref):
    """one branch of the given kind declared from a to c"""
    if kind == "pipe":
        return ["create_pipe_from_parameters", {"index": _new_label(spec, "create_pipe_from_parameters"),
                                                 "from_junction": a, "to_junction": c, "length_km": 0.2,
                                                 "inner_diameter_mm": 80., "k_mm": 0.1, "sections": 1}]
    if kind == "valve":
        return ["create_valve", {"index": _new_label(spec, "create_valve"), "junction": a, "element": c, "et": "ju",
                                 "inner_diameter_mm": 80., "opened": True, "loss_coefficient": 0.5}]
    if kind == "pump":
        return ["create_pump", {"index": _new_label(spec, "create_pump"), "from_junction": a, "to_junction": c,
                                "std_type": "P1", "in_service": True}]
    if kind == "compressor":
        return ["create_compressor", {"index": _new_label(spec, "create_compressor"), "from_junction": a,
                                      "to_junction": c, "pressure_ratio": 1.05, "in_service": True}]
    if kind == "heat_exchanger":
        return ["create_heat_exchanger", {"index": _new_label(spec, "create_heat_exchanger"), "from_junction": a,
                                          "to_junction": c, "qext_w": 1000., "inner_diameter_mm": 80.}]
    if kind in ("flow_control_passive", "flow_control_active"):
        return ["create_flow_control", {"index": _new_label(spec, "create_flow_control"), "from_junction": a,
                                        "to_junction": c, "controlled_mdot_kg_per_s": scale,
                                        "control_active": kind.endswith("_active"), "in_service": True}]
    if kind == "heat_consumer":
        return ["create_heat_consumer", {"index": _new_label(spec, "create_heat_consumer"), "from_junction": a,
                                         "to_junction": c, "qext_w": 1000., "controlled_mdot_kg_per_s": scale}]
    if kind == "press_control":
        return ["create_pressure_control", {"index": _new_label(spec, "create_pressure_control"), "from_junction": a,
                                            "to_junction": c, "controlled_junction": c, "controlled_p_bar": 0.8 * p_ref,
                                            "control_active": True, "in_service": True, "check_controllability": False}]
    raise ValueError(kind)


def kinds_for(fluid):
    return [k for k in SOLE_LINK_KINDS if not (k == "pump" and fluid != "water") and not (k == "compressor" and fluid == "water")]


def add_sole_link(rng, spec, kind=None, reverse=None):
    """a new junction with a sink whose only connection to the net is one branch of the given (or a random) kind,
    declared towards the new junction or - reverse - away from it, so that every kind is traversed in both directions"""
    js = _junction_labels(spec)
    tj = _template_junction(spec)
    a = rng.choice(js[:max(1, len(js) // 2)])
    c = max(js) + 1
    kind = kind or rng.choice(kinds_for(spec["fluid"]))
    reverse = rng.random() < 0.5 if reverse is None else reverse
    scale = 0.002 if spec["fluid"] != "water" else 0.05
    spec["ops"].append(["create_junction", {"index": c, "pn_bar": tj["pn_bar"], "tfluid_k": tj["tfluid_k"]}])
    op = link_op(spec, kind, c if reverse else a, a if reverse else c, scale, tj["pn_bar"])
    if kind == "press_control" and reverse:
        op[1]["controlled_junction"] = a
    spec["ops"].append(op)
    spec["ops"].append(["create_sink", {"index": _new_label(spec, "create_sink"), "junction": c, "mdot_kg_per_s": scale}])
    return spec, c, kind, reverse


def connects(kind, reverse):
    """documented: does a branch of this kind supply the junction behind it?"""
    if kind in ("flow_control_active", "heat_consumer"):
        return False
    if kind == "press_control":
        return not reverse
    return True


def sole_link_matrix(ctx):
    """every branch kind as the only link to a junction, in both orientations, on a two-pipe base net: the junction
    behind the link is calculated (masks and, if the run converges, res_junction.p_bar) iff the kind connects"""
    for fluid in ("water", "lgas"):
        for kind in kinds_for(fluid):
            for reverse in (False, True):
                spec = {"fluid": fluid, "ops": [
                    ["create_junction", {"index": 0, "pn_bar": 5.0, "tfluid_k": 300.0}],
                    ["create_junction", {"index": 1, "pn_bar": 5.0, "tfluid_k": 300.0}],
                    ["create_ext_grid", {"index": 0, "junction": 0, "p_bar": 5.0, "t_k": 300.0}],
                    ["create_pipe_from_parameters", {"index": 0, "from_junction": 0, "to_junction": 1, "length_km": 0.1,
                                                      "inner_diameter_mm": 100., "k_mm": 0.1, "sections": 1}]]}
                spec, c, kind, reverse = add_sole_link(ctx.rng, spec, kind=kind, reverse=reverse)
                net = gen.build(spec)
                exp = connects(kind, reverse)
                try:
                    drive.stages(net, use_numba=False)
                    L = net["_lookups"]
                    got = bool(L["node_active_hydraulics"][L["node_index"]["junction"][c]])
                except Exception as e:  # noqa: BLE001
                    got = "exception %s" % type(e).__name__
                ctx.case({"monitor": "sole_link", "fluid": fluid, "kind": kind, "reverse": reverse}, True)
                ctx.count("monitor_sole_link")
                if got != exp:
                    ctx.violation({"monitor": "sole_link", "kind": kind, "reverse": reverse},
                                  "junction %d is attached to the supplied net only through a %s declared %s; it is %s, "
                                  "the documented behaviour of that element says %s"
                                  % (c, kind, "away from the supplied side (supplied junction = to_junction)" if reverse
                                     else "from the supplied side", "calculated" if got is True else
                                     "not calculated" if got is False else got, "supplied" if exp else "not supplied"),
                                  {"kind": "sole_link", "net": spec, "junction": c, "expected_supplied": exp})
                    continue
                net2 = gen.build(spec)
                st, _ = drive.run(net2, use_numba=False)
                if st == "ok":
                    isnan = bool(np.isnan(net2.res_junction.p_bar.at[c]))
                    if isnan == exp:
                        ctx.violation({"monitor": "sole_link", "kind": kind, "reverse": reverse, "stage": "result"},
                                      "res_junction.p_bar of junction %d behind a %s (%s) is %s" % (
                                          c, kind, "reverse" if reverse else "forward", "NaN" if isnan else "a number"),
                                      {"kind": "sole_link", "net": spec, "junction": c, "expected_supplied": exp})


# ------------------------------------------------------------------------------ property-level oracle (pit graph)
def reach_oracle(npit, bpit, net=None):
    """the property text on the pit graph: reachable from an in-service pressure-fixed node through in-service
    hydraulically connecting branches; which kinds do not connect (heat consumers, controlling flow controllers) and
    which connect one way only (pressure controllers) is taken from the documentation (cc.doc_flags), not from the pit"""
    n, b = cc.idx()
    N = len(npit)
    fr = bpit[:, b.FROM_NODE].astype(int)
    to = bpit[:, b.TO_NODE].astype(int)
    act = bpit[:, b.ACTIVE].astype(bool)
    if net is not None:
        dr, frc = cc.doc_flags(net)
    else:
        frc = bpit[:, b.FLOW_RETURN_CONNECT].astype(bool)
        dr = bpit[:, b.DIRECTED].astype(bool)
    adj = [[] for _ in range(N)]
    for i in range(len(bpit)):
        if act[i] and not frc[i]:
            adj[fr[i]].append(to[i])
            if not dr[i]:
                adj[to[i]].append(fr[i])
    reached = np.zeros(N, dtype=bool)
    isP = cc.doc_slack(net) if net is not None else (npit[:, n.NODE_TYPE] == n.P)
    stack = [i for i in range(N) if isP[i] and npit[i, n.ACTIVE]]
    for i in stack:
        reached[i] = True
    while stack:
        i = stack.pop()
        for j in adj[i]:
            if not reached[j]:
                reached[j] = True
                stack.append(j)
    if not reached.any():
        return None
    bm = act & ((~frc & reached[fr]) | (frc & reached[fr] & reached[to]))
    return reached, bm


def classify_conn_mismatch(ctx, sp, flags, bits):
    net = gen.build(sp)
    cc.apply_flags(net, flags, bits)
    _, info, obs = cc.conn_case(net, check=True)
    exp = reach_oracle(net["_pit"]["node"], net["_pit"]["branch"], net)
    same = (obs is None and exp is None) or (obs is not None and exp is not None and
                                             np.array_equal(obs[0], exp[0]) and np.array_equal(obs[1], exp[1]))
    if same:
        return False
    if obs is None or exp is None:
        what, kind = "supply failure differs: implementation %s, reachability says %s" % (
            "raises" if obs is None else "returns", "nothing is supplied" if exp is None else "something is supplied"), "failure"
    elif not np.array_equal(obs[0], exp[0]):
        d = np.flatnonzero(obs[0] != exp[0])
        what, kind = "node mask differs from reachability at pit nodes %r (implementation %r)" % (
            d[:8].tolist(), obs[0][d[:8]].tolist()), "node_mask"
    else:
        d = np.flatnonzero(obs[1] != exp[1])
        what, kind = "branch mask differs from reachability at pit branches %r (implementation %r)" % (
            d[:8].tolist(), obs[1][d[:8]].tolist()), "branch_mask"
    ctx.violation({"fn": "identify_active_nodes_branches", "kind": kind}, what,
                  {"kind": "connectivity", "net": sp, "flags": [list(f) for f in flags], "bits": [int(x) for x in bits]})
    return True


def classify_red_mismatch(ctx, sp, flags, bits):
    """the property-level statement of the reduction evaluated on the real reduce_pit output"""
    n, b = cc.idx()
    net = gen.build(sp)
    cc.apply_flags(net, flags, bits)
    _, info, obs = cc.conn_case(net, check=True)
    if obs is None:
        return False
    s = drive.psetup()
    found = False
    for mode in ("hydraulics",):
        s.reduce_pit(net, mode=mode)
        L = net["_lookups"]
        nm, bm = L["node_active_" + mode], L["branch_active_" + mode]
        rank = np.cumsum(nm) - 1
        bp, abp = net["_pit"]["branch"], net["_active_pit"]["branch"]
        anp = net["_active_pit"]["node"]
        what = None
        exp_f = rank[bp[bm, b.FROM_NODE].astype(int)]
        exp_t = rank[bp[bm, b.TO_NODE].astype(int)]
        if len(abp) != int(bm.sum()) or len(anp) != int(nm.sum()):
            what = ("shape", "active pit has %d/%d rows for %d/%d marked" % (len(anp), len(abp), nm.sum(), bm.sum()))
        elif not (np.array_equal(abp[:, b.FROM_NODE], exp_f) and np.array_equal(abp[:, b.TO_NODE], exp_t)):
            what = ("from_to", "active FROM_NODE/TO_NODE %r / %r, the kept node rows are at %r / %r" % (
                abp[:, b.FROM_NODE].astype(int).tolist()[:12], abp[:, b.TO_NODE].astype(int).tolist()[:12],
                exp_f.tolist()[:12], exp_t.tolist()[:12]))
        elif np.any(exp_f < 0) or np.any(exp_t >= len(anp)):
            what = ("range", "a kept branch points outside the active node pit")
        else:
            f, t = L["node_from_to"]["junction"]
            lu = L["node_index_active_" + mode]["junction"]
            for k, lab in enumerate(net.junction.index.values):
                e = rank[f + k] if nm[f + k] else -1
                if lu[lab] != e:
                    what = ("index_active", "node_index_active[junction][%d] = %d, the row is %s" % (
                        lab, lu[lab], ("at active position %d" % e) if e >= 0 else "not active"))
                    break
            if what is None:
                cnt = 0
                for _, tbl in sorted(L["branch_table"]["n2t"].items()):
                    f, t = L["branch_from_to"][tbl]
                    le = int(bm[f:t].sum())
                    got = tuple(int(x) for x in L["branch_from_to_active_" + mode][tbl])
                    if got != (cnt, cnt + le):
                        what = ("from_to_active", "branch_from_to_active[%s] = %r, the kept rows are [%d, %d)" % (
                            tbl, got, cnt, cnt + le))
                        break
                    cnt += le
        if what:
            found = True
            ctx.violation({"fn": "reduce_pit", "kind": what[0]}, what[1],
                          {"kind": "reduce", "net": sp, "flags": [list(f) for f in flags], "bits": [int(x) for x in bits]})
    return found


# ------------------------------------------------------------------------------ monitors
def random_outages(rng, net, p=0.25):
    flags = cm.flag_columns(net)
    changed = []
    for (t, c, i) in flags:
        if t == "junction":
            continue
        if rng.random() < p:
            net[t].at[i, c] = not bool(net[t].at[i, c])
            changed.append([t, c, i, bool(net[t].at[i, c])])
    return changed


def table_masks(net):
    """per table: boolean per row = calculated (from the implementation's masks)"""
    L = net["_lookups"]
    nm, bm = L["node_active_hydraulics"], L["branch_active_hydraulics"]
    out = {}
    f, t = L["node_from_to"]["junction"]
    out["junction"] = nm[f:t].copy()
    for tbl, (f, t) in L["branch_from_to"].items():
        rows = len(net[tbl])
        m = bm[f:t]
        if tbl in L["internal_branches"]:
            first = L["internal_branches"][tbl][:, 0]
            last = L["internal_branches"][tbl][:, 1]
            if rows and not all(len(set(m[a:b + 1].tolist())) == 1 for a, b in zip(first, last)):
                out[tbl] = None      # sections of one element disagree
                continue
            out[tbl] = m[first] if rows else m[:0]
        else:
            out[tbl] = m.copy()
    return out


def nan_pattern(ctx, net, spec, changed, kw):
    """every res_* row: all NaN iff the element is not calculated (junction: p_bar)"""
    masks = table_masks(net)
    bads = []
    for tbl, m in masks.items():
        res = net["res_" + tbl]
        if m is None:
            bads.append(({"monitor": "nan_pattern", "table": tbl, "columns": "sections"},
                         "sections of one %s disagree about being calculated" % tbl))
            continue
        numdf = res.select_dtypes(include=[np.number])
        num = numdf.values.astype(float)
        if num.shape[0] != len(m) or not num.size:
            continue
        isn = np.isnan(num)
        if tbl == "junction":
            wrong = np.flatnonzero(isn[:, 0] != ~m)
            cols = "p_bar"
        else:
            stray = ~m[:, None] & ~isn                   # numbers reported for a not calculated element
            missing = m & isn[:, 0]                      # calculated element without its first result
            wrong = np.flatnonzero(stray.any(axis=1) | missing)
            cols = ",".join(sorted(str(c) for c, f in zip(numdf.columns, stray.any(axis=0)) if f)) or \
                ("missing:" + str(numdf.columns[0]))
        if len(wrong):
            bads.append(({"monitor": "nan_pattern", "table": tbl, "columns": cols},
                         "res_%s rows %r (calculated mask %r) report numbers in columns [%s] / NaN pattern of the "
                         "first column %r" % (tbl, res.index[wrong][:6].tolist(), m[wrong][:6].tolist(), cols,
                                              isn[wrong, 0][:6].tolist())))
    jm = dict(zip(net.junction.index.tolist(), masks["junction"].tolist()))
    for tbl in ("sink", "source", "mass_storage"):
        if tbl in net and len(net[tbl]):
            exp = np.array([bool(s) and jm[int(j)] for s, j in zip(net[tbl].in_service.values, net[tbl].junction.values)])
            got = ~np.isnan(net["res_" + tbl].mdot_kg_per_s.values.astype(float))
            if not np.array_equal(exp, got):
                w = np.flatnonzero(exp != got)
                bads.append(({"monitor": "nan_pattern", "table": tbl, "columns": "mdot_kg_per_s"},
                             "res_%s rows %r served=%r but (in service and junction supplied)=%r" % (
                                 tbl, net[tbl].index[w][:6].tolist(), got[w][:6].tolist(), exp[w][:6].tolist())))
    genuine = False
    for sig, what in bads:
        r = ctx.violation(sig, what, {"kind": "nan_pattern", "net": spec, "changed": changed, "options": kw})
        genuine = genuine or r != "known"
    return not genuine


def deleted_net(net):
    """the net with every unsupplied / out-of-service element physically removed (pandas drop)"""
    masks = table_masks(net)
    n2 = copy.deepcopy(net)
    no_twin = False
    keep_j = set(net.junction.index[masks["junction"]].tolist())
    n2.junction.drop(index=[j for j in net.junction.index if j not in keep_j], inplace=True)
    if "junction_geodata" in n2 and len(n2.junction_geodata):
        n2.junction_geodata.drop(index=[j for j in n2.junction_geodata.index if j not in keep_j], inplace=True)
    dropped_pipes = set()
    for tbl, m in masks.items():
        if tbl == "junction" or m is None or not len(net[tbl]):
            continue
        drop = net[tbl].index[~m].tolist()
        if tbl == "pipe":
            dropped_pipes = set(drop)
        n2[tbl].drop(index=drop, inplace=True)
    if "valve" in n2 and len(n2.valve):
        v = n2.valve
        bad = v.index[(v.et == "pi") & v.element.isin(list(dropped_pipes))].tolist()
        n2.valve.drop(index=bad, inplace=True)
    if "valve" in net and len(net.valve):
        # a closed junction-pipe valve whose pipe stays: removing the valve row would re-attach the pipe to the
        # junction, i.e. change the physical system - such a net has no "deleted" twin
        v0 = net.valve
        gone = [i for i in v0.index if i not in set(n2.valve.index.tolist())]
        if any(v0.at[i, "et"] == "pi" and int(v0.at[i, "element"]) not in dropped_pipes for i in gone):
            no_twin = True
    for tbl in NODE_ELEMENTS:
        if tbl in n2 and len(n2[tbl]):
            d = n2[tbl]
            bad = d.index[~d.junction.isin(list(keep_j)) | ~d.in_service.astype(bool)].tolist()
            n2[tbl].drop(index=bad, inplace=True)
    for k in list(n2.keys()):
        if k.startswith("res_") or k.startswith("_"):
            try:
                del n2[k]
            except Exception:  # noqa: BLE001
                pass
    if no_twin:
        n2["_c04_no_twin"] = True
    return n2


def dangling_after_deletion(n2):
    """a kept branch that refers to a deleted junction (a pipe that ends at a closed pi valve keeps its
    far junction in the table): the deleted net is not a well-formed net, the comparison is skipped"""
    js = set(n2.junction.index.tolist())
    for tbl in BRANCH_TABLES:
        if tbl in n2 and len(n2[tbl]):
            for col in ("from_junction", "to_junction", "junction", "return_junction", "flow_junction",
                        "controlled_junction"):
                if col in n2[tbl].columns and not set(int(x) for x in n2[tbl][col].values) <= js:
                    return True
            if tbl == "valve":
                v = n2.valve
                if not set(int(x) for x in v.element[v.et == "ju"].values) <= js:
                    return True
    return False


def deletion_monitor(ctx, net, snap_a, spec, changed, kw):
    n2 = deleted_net(net)
    if n2.pop("_c04_no_twin", False) or dangling_after_deletion(n2):
        ctx.count("monitor_deleted_net_skipped_dangling")
        return True
    ctx.count("monitor_deleted_net_compared")
    st, msg = drive.run(n2, **kw)
    if st != "ok":
        ctx.violation({"monitor": "deleted_net", "outcome": st},
                      "the net converges, the same net with unsupplied / out-of-service elements deleted gives %s: %s"
                      % (st, msg[:120]), {"kind": "deleted_net", "net": spec, "changed": changed, "options": kw})
        return False
    snap_b = drive.snapshot_results(n2)
    # compare B's rows against A's rows of the same label
    diffs = drive.same_results(snap_b, snap_a, rtol=RTOL, atol=ATOL)
    diffs = [d for d in diffs if "missing" not in d[1] or "row" not in d[1]]
    if diffs and zero_flow_machine(snap_a):
        # a pump / compressor in a dead end: its lift jumps at zero flow (6.1 bar for +0.0, 0 for -1e-17 kg/s), the
        # pressures behind it are not a continuous function of the data - nothing to compare
        ctx.count("monitor_deleted_net_skipped_zero_flow_pump")
        return True
    if diffs:
        # a deleted element may have seeded a start value (an inactive pressure control sets PINIT of its controlled
        # junction): the two Newton runs then agree only up to the solver tolerance.  Re-run both at round-off
        # tolerances; a difference of the solved systems would persist.
        ctx.count("monitor_deleted_net_rerun_tight")
        na = copy.deepcopy(net)
        sa, _ = drive.run(na, **cm.tight(kw))
        sb, _ = drive.run(n2, **cm.tight(kw))
        if sa != "ok" or sb != "ok":
            ctx.count("monitor_deleted_net_tight_not_converged")
            return True
        snap_a2, snap_b2 = drive.snapshot_results(na), drive.snapshot_results(n2)
        # stagnant meshes (zero slope of the friction law at zero flow) leave ~1e-10 kg/s undetermined even at
        # round-off tolerances: resolution of this second pass is 1e-6 relative / 1e-8 absolute
        diffs = drive.same_results(snap_b2, snap_a2, rtol=1e-6, atol=1e-8)
        diffs = [d for d in diffs if ("missing" not in d[1] or "row" not in d[1]) and not stagnant(d, snap_a2)]
    if diffs:
        t, d = diffs[0]
        ctx.violation({"monitor": "deleted_net", "table": t, "column": d.split("[")[0]},
                      "results of the supplied part change when the unsupplied / out-of-service elements are deleted: "
                      "%s %s (%d differences)" % (t, d, len(diffs)),
                      {"kind": "deleted_net", "net": spec, "changed": changed, "options": kw})
        return False
    return True


def zero_flow_machine(snap):
    for t in ("res_pump", "res_compressor"):
        for m in snap.get(t, {}).get("cols", {}).get("mdot_from_kg_per_s", []):
            if m is not None and abs(m) < 1e-9:
                return True
    return False


def stagnant(diff, snap):
    """lambda / reynolds of a branch that carries no flow (|mdot| < 1e-6) amplify round-off: not compared"""
    t, d = diff
    col = d.split("[")[0]
    if col not in ("lambda", "reynolds") or "mdot_from_kg_per_s" not in snap.get(t, {}).get("cols", {}):
        return False
    try:
        lab = int(d.split("[")[1].split("]")[0])
        m = snap[t]["cols"]["mdot_from_kg_per_s"][snap[t]["index"].index(lab)]
    except (ValueError, IndexError):
        return False
    return m is not None and abs(m) < 1e-6


def no_supply_monitor(ctx, spec):
    from pandapipes.pf.pipeflow_setup import PipeflowNotConverged  # noqa: F401
    net = gen.build(spec)
    for tbl in ("ext_grid", "circ_pump_mass", "circ_pump_pressure"):
        if tbl in net and len(net[tbl]):
            net[tbl]["in_service"] = False
    st, msg = drive.run(net, use_numba=False)
    ctx.count("monitor_no_supply_" + st)
    ctx.case({"monitor": "no_supply", "net": spec}, True)
    if st != "PipeflowNotConverged":
        ctx.violation({"monitor": "no_supply", "outcome": st},
                      "a net without any in-service pressure-fixing element must raise PipeflowNotConverged, got %s %s"
                      % (st, msg[:100]), {"kind": "no_supply", "net": spec})
    elif not drive.all_results_nan(net):
        pass  # result tables after a failed run belong to C05


def monitors(ctx, widen=False):
    rng = ctx.rng
    sole_link_matrix(ctx)
    for name, spec, _, settings in corpus():
        for changed in settings:
            ctx.count("monitor_corpus")
            try:
                one_monitor_case(ctx, rng, spec, changed=changed)
            except Exception:  # noqa: BLE001
                import traceback
                ctx.broken("harness", "C04 corpus monitor " + name, traceback.format_exc()[-600:])
        no_supply_monitor(ctx, spec)
    n = 28 if ctx.quick else 400
    if widen:
        n *= 3
    for i in range(n):
        prof = ["water", "heat", "gas", "water"][i % 4]
        spec = gen.gen_net(rng, prof, label_mode=rng.choice(["contig", "shuffled", "sparse", "large"]))
        if prof != "heat" and rng.random() < 0.5:
            add_pressure_control(rng, spec)
        if rng.random() < 0.4:
            add_heat_consumer_bridge(rng, spec)
        if prof != "heat" and rng.random() < 0.5:
            add_sole_link(rng, spec)
        if prof == "heat" or rng.random() < 0.5:
            add_oos_supplies(rng, spec)
        if prof != "heat" and rng.random() < 0.4:
            add_machines(rng, spec)
        try:
            one_monitor_case(ctx, rng, spec)
            if i % 4 == 0:
                no_supply_monitor(ctx, spec)
        except Exception as e:  # noqa: BLE001
            import traceback
            ctx.broken("harness", "C04 monitor", traceback.format_exc()[-600:])
            return
    # degenerate nets: junctions only, empty net
    for spec in ({"fluid": "water", "ops": [["create_junction", {"index": 0, "pn_bar": 1., "tfluid_k": 300.}]]},):
        net = gen.build(spec)
        st, msg = drive.run(net, use_numba=False)
        ctx.case({"monitor": "no_supply_degenerate", "net": spec}, True)
        if st != "PipeflowNotConverged":
            ctx.violation({"monitor": "no_supply", "outcome": st}, "junction-only net: expected PipeflowNotConverged, "
                          "got %s %s" % (st, msg[:100]), {"kind": "no_supply", "net": spec})


def one_monitor_case(ctx, rng, spec, changed=None):
    net = gen.build(spec)
    if changed is None:
        changed = random_outages(rng, net, p=rng.choice([0.0, 0.15, 0.3]))
    else:
        for t, c, i, v in changed:
            net[t].at[i, c] = v
    thermal = "heat_modes" in spec
    kw = {"use_numba": False, "mode": "sequential" if thermal else "hydraulics"}
    if thermal:
        kw["iter"] = 100
    st, msg = drive.run(net, **kw)
    ctx.count("monitor_run_" + st)
    if st not in ("ok", "PipeflowNotConverged") and not (
            st == "UserWarning" and ("controlled junction" in msg or "direction change in circulation pump" in msg)):
        # a valid net (every reference resolves, flags are booleans) may fail to converge; nothing else may be raised
        ctx.violation({"monitor": "exception", "exception": st},
                      "pipeflow on a valid net raises %s: %s" % (st, msg[:160]),
                      {"kind": "nan_pattern", "net": spec, "changed": changed, "options": kw})
    if st != "ok":
        ctx.case({"monitor": "supplied_part", "net": spec, "changed": changed, "outcome": st}, False)
        return st
    snap = drive.snapshot_results(net)
    # the masks the run used vs the property (reachability with the documented element kinds)
    exp = reach_oracle(net["_pit"]["node"], net["_pit"]["branch"], net)
    L = net["_lookups"]
    if exp is None or not (np.array_equal(exp[0], L["node_active_hydraulics"]) and
                           np.array_equal(exp[1], L["branch_active_hydraulics"])):
        kind_ = "failure" if exp is None else "node_mask" if not np.array_equal(exp[0], L["node_active_hydraulics"]) \
            else "branch_mask"
        d = [] if exp is None else np.flatnonzero(exp[1] != L["branch_active_hydraulics"]).tolist() if kind_ == "branch_mask" \
            else np.flatnonzero(exp[0] != L["node_active_hydraulics"]).tolist()
        ctx.violation({"fn": "identify_active_nodes_branches", "kind": kind_, "where": "pipeflow"},
                      "the run calculated a part of the net that differs from what is reachable from the in-service "
                      "supplies through connecting in-service elements: %s rows %r" % (kind_, d[:8]),
                      {"kind": "nan_pattern", "net": spec, "changed": changed, "options": kw})
    masks = table_masks(net)
    partial = any(m is not None and len(m) and not m.all() for m in masks.values())
    ctx.case({"monitor": "supplied_part", "net": spec, "changed": changed}, partial)
    ctx.count("monitor_partly_supplied" if partial else "monitor_fully_supplied")
    ok = nan_pattern(ctx, net, spec, changed, kw)
    if ok:
        deletion_monitor(ctx, net, snap, spec, changed, kw)
    return st


def replay(ctx, rp):
    kind = rp.get("kind")
    if kind == "connectivity":
        found = classify_conn_mismatch(ctx, rp["net"], [tuple(f) for f in rp["flags"]], rp["bits"])
        print("replay connectivity: %s" % ("violation reproduced" if found else "masks agree with reachability"))
    elif kind == "reduce":
        found = classify_red_mismatch(ctx, rp["net"], [tuple(f) for f in rp["flags"]], rp["bits"])
        print("replay reduce: %s" % ("violation reproduced" if found else "reduction agrees with the property"))
    elif kind in ("nan_pattern", "deleted_net"):
        st = one_monitor_case(ctx, ctx.rng, rp["net"], changed=rp.get("changed", []))
        print("replay %s: run %s, violations now %d" % (kind, st, len(ctx.violations)))
    elif kind == "no_supply":
        no_supply_monitor(ctx, rp["net"])
    elif kind == "sole_link":
        net = gen.build(rp["net"])
        drive.stages(net, use_numba=False)
        L = net["_lookups"]
        got = bool(L["node_active_hydraulics"][L["node_index"]["junction"][rp["junction"]]])
        print("replay sole_link: junction %d calculated=%s, documented=%s" % (rp["junction"], got, rp["expected_supplied"]))
        if got != rp["expected_supplied"]:
            ctx.violation({"monitor": "sole_link"}, "junction behind the sole link: calculated=%s, documented=%s"
                          % (got, rp["expected_supplied"]), rp)
    else:
        print("replay: nothing to re-run for kind %r" % kind)
