"""Generator additions for C17 / C18 (the shared gen.py must not be edited): take a spec of gen.gen_net and
add what the two properties quantify over -
  * geodata on junctions and pipes,
  * a pressure controller with a *remote* controlled junction,
  * a closed loop supplied by a circulation pump only (water / gas profiles),
  * pipe-attached valves (et == "pi") whose pipe label may or may not be a junction label,
  * a t-only ext grid.
All random choices come from the rng passed in; the result is again a replayable spec."""
import copy


def _labels(spec, fn_prefix):
    return [kw["index"] for fn, kw in spec["ops"] if fn.startswith(fn_prefix)]


def _fresh(rng, used, near, n):
    """n labels not in `used`, close to the existing label range"""
    out = []
    hi = (max(near) if near else 0)
    cand = [x for x in range(0, hi + 4 * n + 8) if x not in used]
    rng.shuffle(cand)
    if near and min(near) >= 100000:
        cand = [x for x in range(min(near), hi + 60) if x not in used]
        rng.shuffle(cand)
    for x in cand[:n]:
        out.append(x)
        used.add(x)
    return out


def augment(spec, rng, press_control=None, circ_loop=None, pi_valves=None, geodata=None, t_ext_grid=None, ju_valves=None):
    """None = decide randomly"""
    spec = copy.deepcopy(spec)
    heat = "heat_modes" in spec
    ops = spec["ops"]
    js = _labels(spec, "create_junction")
    ps = _labels(spec, "create_pipe")
    usedj, usedp = set(js), set(ps)
    jkw = next(kw for fn, kw in ops if fn == "create_junction")
    p0, t0 = jkw["pn_bar"], jkw["tfluid_k"]
    gas = spec["fluid"] not in ("water",)
    scale = 0.02 if gas else 0.5

    def pipe_label():
        # prefer a junction label (collision) half of the time
        free = [x for x in (js + list(usedj)) if x not in usedp]
        if free and rng.random() < 0.5:
            l = rng.choice(free)
            usedp.add(l)
            return l
        return _fresh(rng, usedp, ps or js, 1)[0]

    def pipe(a, c, **kw):
        l = pipe_label()
        d = dict(from_junction=a, to_junction=c, length_km=rng.choice([0.1, 0.25, 0.5]), inner_diameter_mm=100.,
                 k_mm=0.1, sections=1, index=l)
        d.update(kw)
        ops.append(["create_pipe_from_parameters", d])
        return l

    def nxt(table_fn):
        used = set(_labels(spec, table_fn))
        return _fresh(rng, used, list(used), 1)[0]

    if press_control if press_control is not None else rng.random() < 0.5:
        a = rng.choice(js)
        x, y = _fresh(rng, usedj, js, 2)
        for l in (x, y):
            ops.append(["create_junction", dict(pn_bar=p0, tfluid_k=t0, height_m=0., index=l)])
        pipe(x, y)
        ops.append(["create_pressure_control", dict(from_junction=a, to_junction=x, controlled_junction=y,
                                                    controlled_p_bar=round(p0 * 0.75, 3), check_controllability=False,
                                                    index=nxt("create_pressure_control"))])
        ops.append(["create_sink", dict(junction=y, mdot_kg_per_s=scale * 0.2, index=nxt("create_sink"))])
    if (circ_loop if circ_loop is not None else rng.random() < 0.4) and not heat:
        f, m, r = _fresh(rng, usedj, js, 3)
        for l in (f, m, r):
            ops.append(["create_junction", dict(pn_bar=p0, tfluid_k=t0, height_m=0., index=l)])
        pipe(f, m)
        pipe(m, r)
        if rng.random() < 0.5:
            ops.append(["create_circ_pump_const_pressure",
                        dict(return_junction=r, flow_junction=f, p_flow_bar=p0, plift_bar=0.5, t_flow_k=t0,
                             index=nxt("create_circ_pump_const_pressure"))])
        else:
            ops.append(["create_circ_pump_const_mass_flow",
                        dict(return_junction=r, flow_junction=f, p_flow_bar=p0, mdot_flow_kg_per_s=scale,
                             t_flow_k=t0, index=nxt("create_circ_pump_const_mass_flow"))])
    if pi_valves if pi_valves is not None else rng.random() < 0.6:
        pipes = [kw for fn, kw in ops if fn == "create_pipe_from_parameters"]
        have = {kw["element"] for fn, kw in ops if fn == "create_valve" and kw.get("et") == "pi"}
        rng.shuffle(pipes)
        for kw in pipes[:rng.choice([1, 1, 2])]:
            if kw["index"] in have:
                continue
            ops.append(["create_valve", dict(junction=rng.choice([kw["from_junction"], kw["to_junction"]]),
                                             element=kw["index"], et="pi", inner_diameter_mm=80.,
                                             opened=rng.random() < 0.7, loss_coefficient=0.,
                                             index=nxt("create_valve"))])
    # junction-junction valves (et == "ju") next to the pipe-attached ones, with OVERLAPPING label spaces: the target
    # junction of such a valve carries a label that is also a pipe label, so valve.element of a ju valve and of a pi
    # valve can hold the same number with different meanings
    if not heat and (ju_valves if ju_valves is not None else rng.random() < 0.6):
        all_js = [kw["index"] for fn, kw in ops if fn == "create_junction"]
        plabels = {kw["index"] for fn, kw in ops if fn == "create_pipe_from_parameters"}
        shared = [j for j in all_js if j in plabels]
        if not shared and len(all_js) >= 2:
            # make one: a further pipe whose label is a junction label
            free = [j for j in all_js if j not in usedp]
            if free:
                l = rng.choice(free)
                usedp.add(l)
                a, c = rng.sample(all_js, 2)
                ops.append(["create_pipe_from_parameters", dict(from_junction=a, to_junction=c, length_km=0.25,
                                                                inner_diameter_mm=100., k_mm=0.1, sections=1, index=l)])
                shared = [l]
        for tgt in rng.sample(shared, min(len(shared), rng.choice([1, 1, 2]))):
            src = rng.choice([j for j in all_js if j != tgt])
            a, c = (src, tgt) if rng.random() < 0.7 else (tgt, src)
            ops.append(["create_valve", dict(junction=a, element=c, et="ju", inner_diameter_mm=80.,
                                             opened=rng.random() < 0.8, loss_coefficient=0., index=nxt("create_valve"))])
    if t_ext_grid if t_ext_grid is not None else rng.random() < 0.15:
        ops.append(["create_ext_grid", dict(junction=rng.choice(js), p_bar=p0, t_k=t0, type="t",
                                            index=nxt("create_ext_grid"))])
    if not heat and rng.random() < 0.5:
        ops.append(["create_mass_storage", dict(junction=rng.choice(js), mdot_kg_per_s=scale * 0.1,
                                                index=nxt("create_mass_storage"))])
    if not heat and rng.random() < 0.4:
        ops.append(["create_source", dict(junction=rng.choice(js), mdot_kg_per_s=scale * 0.1, index=nxt("create_source"))])
    if geodata if geodata is not None else rng.random() < 0.7:
        for fn, kw in ops:
            if fn == "create_junction" and rng.random() < 0.8:
                kw["geodata"] = [float(rng.randint(0, 50)), float(rng.randint(0, 50))]
            if fn == "create_pipe_from_parameters" and rng.random() < 0.5:
                kw["geodata"] = [[0., 0.], [float(rng.randint(1, 9)), 1.]]
    return spec
