"""C07 float differential (monitor): the real numpy / numba twin kernels on the same generated arrays.

Rows are generated per *kind* (generic, reverse flow, zero flow, tiny flow below the masks, equal end pressures,
zero length, NaN mass flow); outputs are compared per element:  both NaN, or |a-b| <= ulps * spacing(max|a|,|b|).
The exceptions named by the theorems (Props.v) are counted, not reported:
  gas df_dm at |m| <= 1e-8 (twin_comp_df_dm_exception), thermal to-node terms at 0 < |m| <= 1e-10
  (twin_thermal_node_terms_partial), and NaN rows (outside the real model): lambda_laminar NaN vs 0, thermal to-node terms."""
import math

import numpy as np

KINDS = ["generic", "reverse", "zero_flow", "tiny_flow_1e-9", "tiny_flow_5e-11", "equal_p", "zero_length", "nan_flow",
         "tiny_re"]


def make_arrays(rng, n):
    """branch_pit, node_pit and per-branch input vectors; row kind cycles through KINDS"""
    from pandapipes import idx_branch as B, idx_node as N
    nn = n + 1
    r = np.random.RandomState(rng.randrange(2 ** 31))
    node = np.zeros((nn, N.node_cols))
    node[:, N.HEIGHT] = r.choice([0., 5., -3., 12.5], nn)
    node[:, N.PAMB] = 1.01325 * (1 - node[:, N.HEIGHT] * 0.0065 / 288.15) ** 5.255
    node[:, N.PINIT] = r.uniform(0.5, 16., nn)
    node[:, N.TINIT] = r.uniform(275., 390., nn)
    br = np.zeros((n, B.branch_cols))
    fn = r.randint(0, nn, n)
    tn = (fn + 1 + r.randint(0, nn - 1, n)) % nn
    br[:, B.FROM_NODE], br[:, B.TO_NODE] = fn, tn
    br[:, B.LENGTH] = r.choice([50., 100., 250.5, 1000.], n)
    br[:, B.D] = r.choice([0.06, 0.08, 0.1, 0.15], n)
    br[:, B.DO] = br[:, B.D] * 1.1
    br[:, B.AREA] = br[:, B.D] ** 2 * np.pi / 4
    br[:, B.K] = r.choice([5e-5, 1e-4, 2e-4], n)
    br[:, B.LAMBDA] = r.uniform(0.01, 0.08, n)
    br[:, B.LOSS_COEFFICIENT] = r.choice([0., 0., 1.5], n)
    br[:, B.ALPHA] = r.choice([0., 0.5, 5.0], n)
    br[:, B.QEXT] = r.choice([0., 0., 2.0e4], n)
    br[:, B.TEXT] = r.choice([273.15, 283.15, 293.15], n)
    br[:, B.PL] = r.choice([0., 0., 0.5], n)
    br[:, B.TL] = r.choice([0., 0., 2.], n)
    br[:, B.MDOTINIT] = r.uniform(0.01, 3., n)
    br[:, B.TOUTINIT] = r.uniform(275., 390., n)
    kinds = np.array([KINDS[i % len(KINDS)] for i in range(n)])
    m = br[:, B.MDOTINIT]
    m[kinds == "reverse"] *= -1
    m[kinds == "zero_flow"] = 0.
    m[kinds == "tiny_flow_1e-9"] = r.choice([1e-9, -1e-9, 9e-9], (kinds == "tiny_flow_1e-9").sum())
    m[kinds == "tiny_flow_5e-11"] = r.choice([5e-11, -5e-11, 1e-10], (kinds == "tiny_flow_5e-11").sum())
    m[kinds == "nan_flow"] = np.nan
    br[kinds == "zero_length", B.LENGTH] = 0.
    eq = np.where(kinds == "equal_p")[0]
    for c in (N.PINIT, N.PAMB, N.HEIGHT):          # exactly equal absolute end pressures (copies, no arithmetic)
        node[tn[eq], c] = node[fn[eq], c]
    vec = {k: r.uniform(lo, hi, n) for k, (lo, hi) in {
        "der_lambda": (-1., 1.), "rho": (0.5, 1000.), "rho_n": (0.08, 1.3), "comp_fact": (0.8, 1.05),
        "der_comp": (-0.01, 0.01), "der_comp1": (-0.01, 0.01), "lambda_": (0.01, 0.08), "eta": (1e-5, 1e-3),
        "cp_n": (1000., 4200.), "cp_b": (1000., 4200.)}.items()}
    tr = np.where(kinds == "tiny_re")[0]          # Reynolds numbers around the 1e-8 laminar mask
    re_t = r.choice([2e-9, 9e-9, 1.1e-8, 5e-8, 5e-7, 5e-6], len(tr))
    m[tr] = re_t * vec["eta"][tr] * br[tr, B.AREA] / br[tr, B.D]
    return br, node, kinds, vec


def ulps(a, b):
    """element-wise distance in units of the spacing at the larger magnitude; nan where exactly one side is NaN"""
    a, b = np.asarray(a, float), np.asarray(b, float)
    out = np.zeros(a.shape)
    both = np.isnan(a) & np.isnan(b)
    one = np.isnan(a) ^ np.isnan(b)
    ok = ~(both | one)
    with np.errstate(all="ignore"):
        scale = np.spacing(np.maximum(np.abs(a[ok]), np.abs(b[ok])))
        out[ok] = np.where(a[ok] == b[ok], 0., np.abs(a[ok] - b[ok]) / scale)
    out[one] = np.inf
    return out


def run_pairs(rng, n):
    """-> list of (kernel, output, np_values, nb_values, kinds, exception_mask, exception_name, inputs_for_replay)"""
    from pandapipes import idx_branch as B, idx_node as N
    from pandapipes.pf import derivative_toolbox as T, derivative_toolbox_numba as U
    from pandapipes.pf import result_extraction as X
    br, node, kinds, v = make_arrays(rng, n)
    fn = br[:, B.FROM_NODE].astype(np.int32)
    tn = br[:, B.TO_NODE].astype(np.int32)
    m = br[:, B.MDOTINIT]
    with np.errstate(all="ignore"):
        d_np = T.calc_derived_values_np(node, fn, tn)
        d_nb = U.calc_derived_values_numba(node, fn, tn)
        tb, hd, pi, pi1 = d_np
        res = []
        no_exc = np.zeros(n, bool)
        nanrow = np.isnan(m)

        def add(kernel, names, a, b, exc=None):
            for name, x, y in zip(names, a, b):
                e, en = no_exc, ""
                if exc and name in exc:
                    e, en = exc[name]
                res.append((kernel, name, np.asarray(x, float), np.asarray(y, float), e, en))
        add("calc_derived_values", ["tinit_branch", "height_difference", "p_init_i_abs", "p_init_i1_abs"], d_np, d_nb)
        close = (pi != pi1) & (np.abs(pi - pi1) <= 1e-3 * np.maximum(np.abs(pi), np.abs(pi1)))
        illc = (close, "ill-conditioned: end pressures differ by less than 1e-3 relative (cancellation amplifies the "
                       "1-ulp pow/multiply difference in both twins); not compared")
        add("calc_medium_pressure_with_derivative", ["p_m", "der_p_m", "der_p_m1"],
            T.calc_medium_pressure_with_derivative_np(pi, pi1), U.calc_medium_pressure_with_derivative_numba(pi, pi1),
            exc={"p_m": illc, "der_p_m": illc, "der_p_m1": illc})
        hnames = ["load_vec", "load_vec_nodes_from", "load_vec_nodes_to", "df_dm", "df_dm_nodes", "df_dp", "df_dp1",
                  "dp_frict_loss"]
        add("derivatives_hydraulic_incomp", hnames,
            T.derivatives_hydraulic_incomp_np(br, v["der_lambda"], pi, pi1, hd, v["rho"]),
            U.derivatives_hydraulic_incomp_numba(br, v["der_lambda"], pi, pi1, hd, v["rho"]))
        small = np.abs(m) <= 1e-8
        add("derivatives_hydraulic_comp", hnames,
            T.derivatives_hydraulic_comp_np(node, br, v["lambda_"], v["der_lambda"], pi, pi1, hd, v["comp_fact"],
                                            v["der_comp"], v["der_comp1"], v["rho"], v["rho_n"]),
            U.derivatives_hydraulic_comp_numba(node, br, v["lambda_"], v["der_lambda"], pi, pi1, hd, v["comp_fact"],
                                               v["der_comp"], v["der_comp1"], v["rho"], v["rho_n"]),
            exc={"df_dm": (small, "gas df_dm at |m|<=1e-8 (theorem twin_comp_df_dm_exception)")})
        lexc = {"lambda_laminar": (nanrow, "NaN Reynolds number: lambda_laminar NaN (numpy) vs 0 (numba); outside the real model")}
        for fl in ("incomp", "comp"):
            add("calc_lambda_nikuradse_" + fl, ["re", "lambda_laminar", "lambda_nikuradse"],
                getattr(T, "calc_lambda_nikuradse_%s_np" % fl)(m, br[:, B.D], br[:, B.K], v["eta"], br[:, B.AREA]),
                getattr(U, "calc_lambda_nikuradse_%s_numba" % fl)(m, br[:, B.D], br[:, B.K], v["eta"], br[:, B.AREA]),
                exc=lexc)
        # thermal (steady state); flow direction corrected nodes as calculate_derivatives_thermal does
        sw = (m < -2e-11)
        fc, tc = np.where(sw, tn, fn).astype(np.int32), np.where(sw, fn, tn).astype(np.int32)
        t_i, t_i1, t_nt, t_n = node[fc, N.TINIT], br[:, B.TOUTINIT].copy(), node[tc, N.TINIT], node[:, N.TINIT].copy()
        args = (node, br, node.copy(), np.arange(N.node_cols, dtype=np.int32), br.copy(),
                np.arange(B.branch_cols, dtype=np.int32), fc, tc, t_i, t_i1, t_nt, t_n, v["cp_n"], v["cp_b"], v["rho"])
        th_np = T.derivatives_thermal_np(*args, None, False, 293.15)
        th_nb = U.derivatives_thermal_numba(*args, None, False, 293.15)
        tiny = (np.abs(m) <= 1e-10) & (m != 0) | nanrow
        tn_ = ["fn", "dfn_dt", "fnt", "dfnt_dt", "dfnt_dtout", "fb", "dfb_dt", "dfb_dtout"]
        texc = {k: (tiny, "thermal to-node terms at 0<|m|<=1e-10 or NaN m (theorem twin_thermal_node_terms_partial)")
                for k in ("fnt", "dfnt_dt", "dfnt_dtout")}
        node_out = {"fn", "dfn_dt"}
        for name, x, y in zip(tn_, th_np[:8], th_nb[:8]):
            e, en = texc.get(name, (no_exc if name not in node_out else np.zeros(len(node), bool), ""))
            res.append(("derivatives_thermal", name, np.asarray(x, float), np.asarray(y, float), e, en))
        inf_np = np.zeros(len(node), float)
        inf_np[th_np[8]] = 1.
        res.append(("derivatives_thermal", "infeed", inf_np, np.asarray(th_nb[8], float), np.zeros(len(node), bool), ""))
        v_mps = m / (v["rho_n"] * br[:, B.AREA])
        pf, pt = node[fn, N.PINIT], node[tn, N.PINIT]
        # gas result post-processing, whole twin (numpy function vs numba wrapper) with a real fluid object; node
        # temperatures differ from node to node; half of the reverse-flow rows are direction-switched
        for fluid in _gas_nets():
            brs = br.copy()
            brs[:, B.FROM_NODE_T_SWITCHED] = (m < -2e-11)
            brs[np.isnan(m), B.FROM_NODE_T_SWITCHED] = 0
            swr = brs[:, B.FROM_NODE_T_SWITCHED] > 0
            g_np = X.get_branch_results_gas(fluid, brs, node, fn, tn, v_mps, pf, pt)
            g_nb = X.get_branch_results_gas_numba(fluid, brs, node, fn, tn, v_mps, pf, pt)
            gn = ["v_gas_from", "v_gas_to", "v_gas_mean", "p_abs_from", "p_abs_to", "p_abs_mean", "normfactor_from",
                  "normfactor_to", "normfactor_mean"]
            add("get_branch_results_gas[%s]" % fluid.fluid.name, gn, g_np, g_nb)    # switched rows included
    return res, kinds, {"branch_pit": br, "node_pit": node, "vec": v}


_GAS = []


def _gas_nets():
    """two empty nets carrying a library gas (the gas functions only call get_fluid(net))"""
    if not _GAS:
        import pandapipes as pp
        for f in ("lgas", "hydrogen"):
            _GAS.append(pp.create_empty_network(fluid=f))
    return _GAS


# cancellation in p_i^3 - p_{i+1}^3 / p_i^2 - p_{i+1}^2 amplifies the 1-ulp difference between pow() and
# repeated multiplication by the condition number of the difference; these outputs get a relative bound instead
ABS_SCALE = {("derivatives_thermal", "fb"): 400., ("derivatives_hydraulic_incomp", "load_vec"): 20.,
             ("derivatives_hydraulic_comp", "load_vec"): 20.}     # magnitude of the operands of the final subtraction
ILL = {("calc_medium_pressure_with_derivative", "p_m"), ("calc_medium_pressure_with_derivative", "der_p_m"),
       ("calc_medium_pressure_with_derivative", "der_p_m1"),
       ("get_pressures (expression of get_branch_results_gas)", "p_abs_mean"),
       ("get_branch_results_gas[lgas]", "p_abs_mean"), ("get_branch_results_gas[hydrogen]", "p_abs_mean"),
       ("get_branch_results_gas[lgas]", "normfactor_mean"), ("get_branch_results_gas[hydrogen]", "normfactor_mean"),
       ("get_branch_results_gas[lgas]", "v_gas_mean"), ("get_branch_results_gas[hydrogen]", "v_gas_mean")}


def compare(res, kinds, max_ulps=4.0, ill_rtol=1e-9):
    """-> (n_compared, n_exception, list of failures (kernel, output, row, kind, np, nb, ulps))"""
    bad, n_cmp, n_exc = [], 0, 0
    for kernel, name, a, b, exc, exc_name in res:
        u = ulps(a, b)
        if (kernel, name) in ILL:
            with np.errstate(all="ignore"):
                rel = np.abs(a - b) / np.maximum(np.abs(a), np.abs(b))
            u = np.where(np.isfinite(u) & (np.nan_to_num(rel, nan=0.) <= ill_rtol), 0., u)
        if (kernel, name) in ABS_SCALE:
            u = np.where(np.isfinite(u) & (np.abs(a - b) <= max_ulps * np.spacing(ABS_SCALE[(kernel, name)])), 0., u)
        n_exc += int(exc.sum())
        n_cmp += int((~exc).sum())
        for i in np.where((u > max_ulps) & ~exc)[0]:
            kd = kinds[i] if len(a) == len(kinds) else "node"
            bad.append((kernel, name, int(i), str(kd), float(a[i]), float(b[i]),
                        float(u[i]) if math.isfinite(u[i]) else "nan-pattern"))
    return n_cmp, n_exc, bad


# ------------------------------------------------------------------------------------------------ graph part, exact
def graph_cases(rng, n_cases):
    """Small random branch lists (parallel branches, loops, non-flowing / NaN / sub-threshold branches) through BOTH real
    thermal kernels; the observed infeed sets and nodes_flow flags are shipped to Coq with the branch list and compared there
    with C07/ModelGraph.v (np_* against the numpy kernel, nb_* against the numba kernel).  Returns Coq text."""
    from pandapipes import idx_branch as B, idx_node as N
    from pandapipes.pf import derivative_toolbox as T, derivative_toolbox_numba as U
    r = np.random.RandomState(rng.randrange(2 ** 31))
    out = []
    for _ in range(n_cases):
        nn, nb = r.randint(2, 8), r.randint(1, 11)
        node = np.zeros((nn, N.node_cols))
        node[:, N.TINIT] = r.uniform(280., 360., nn)
        br = np.zeros((nb, B.branch_cols))
        fn = r.randint(0, nn, nb).astype(np.int32)
        tn = ((fn + 1 + r.randint(0, nn - 1, nb)) % nn).astype(np.int32)
        br[:, B.FROM_NODE], br[:, B.TO_NODE] = fn, tn
        br[:, B.MDOTINIT] = r.choice([1.0, 0.3, 0.0, 5e-11, 1e-10, 2e-10, np.nan, 2.5], nb)   # corrected direction: m >= 0
        br[:, B.LENGTH], br[:, B.D], br[:, B.DO], br[:, B.AREA] = 100., 0.1, 0.11, 0.00785
        br[:, B.ALPHA], br[:, B.TEXT], br[:, B.TOUTINIT] = 1.0, 283., r.uniform(280., 360., nb)
        cp = np.full(nb, 4180.)
        args = (node, br, node.copy(), np.arange(N.node_cols, dtype=np.int32), br.copy(),
                np.arange(B.branch_cols, dtype=np.int32), fn, tn, node[fn, N.TINIT], br[:, B.TOUTINIT].copy(),
                node[tn, N.TINIT], node[:, N.TINIT].copy(), cp, cp, np.full(nb, 990.))
        with np.errstate(all="ignore"):
            a = T.derivatives_thermal_np(*args, None, False, 293.15)
            b = U.derivatives_thermal_numba(*args, None, False, 293.15)
        inf_np = np.zeros(nn, bool)
        inf_np[a[8]] = True
        inf_nb = np.asarray(b[8], bool)
        nf_np, nf_nb = a[1] != 1.0, b[1] != 1.0                      # dfn_dt = 1 exactly where ~nodes_flow
        m = br[:, B.MDOTINIT]
        flow = ~np.isnan(m) & (np.abs(np.nan_to_num(m)) > 1e-10)      # the flag proved equal in both kernels (twin_thermal_equal)
        bl = lambda x: "[" + "; ".join("true" if v else "false" for v in x) + "]"
        out.append("{| g_branches := [%s]; g_n := %d; g_infeed_np := %s; g_infeed_nb := %s; g_nflow_np := %s; g_nflow_nb := %s |}"
                   % ("; ".join("{| bf := %d; bt := %d; flow := %s |}" % (f, t, "true" if fl else "false")
                                for f, t, fl in zip(fn, tn, flow)), nn, bl(inf_np), bl(inf_nb), bl(nf_np), bl(nf_nb)))
    return ("From Coq Require Import List ZArith.\nFrom PP Require Import C07.ModelGraph.\nImport ListNotations.\n"
            "Definition cs : list gcase := [\n%s\n].\nEval vm_compute in (gsummary cs).\n" % ";\n".join(out))
