"""C02 monitor: the documented pressure-loss law recomputed on converged results of real nets.

Per pipe section (valves, heat exchangers: one section of length 0) from
  res_* (p_from/p_to of the end junctions, mdot, lambda, reynolds, v), Pipe.get_internal_results (section pressures),
  net.junction.height_m (internal nodes: linear interpolation, as create_pit_node_entries does), the barometric formula
  and the fluid property functions at the (uniform) fluid temperature:
     liquid:  (p_to - p_from) 1e5 = rho g dh - (lambda l/d + zeta) rho v|v| / 2            v = m / (rho A)
     gas:     (p_i - p_{i+1}) 1e5 (P_i + P_{i+1})/2 = (lambda l/d + zeta) rho_N v_N|v_N|/2 p_N T/T_N K  - rho g dh (P_i+P_{i+1})/2
Tolerance (derived): the solver stops when the Newton update of p and m is below tol = 1e-10 and the residual norm
below 1e-9 bar; the law residual is the branch row of that residual, lambda/Re are those of the last linearisation
(m moved by < tol since).  Bound used: |lhs - rhs| <= 1e-6 * max(|lhs|, |rhs|) + 1e-7 bar."""
import math

import numpy as np

TIGHT = dict(tol_p=1e-10, tol_m=1e-10, tol_res=1e-9, iter=100, max_iter_colebrook=100)
G, PN, TN, RT = 9.81, 1.01325, 273.15, 1e-6


def vary_temperatures(rng, spec, choices=(-8., -3., 0., 5., 20.)):
    """per-junction fluid temperatures (the generator's nets are isothermal).  Ext grids get the temperature of their
    junction: with t_k != tfluid_k the junction node takes t_k but the outlet temperature of the pipes ending there
    (TOUTINIT) keeps tfluid_k in a hydraulic run - an input inconsistency this monitor does not want to depend on."""
    import copy
    spec = copy.deepcopy(spec)
    tj = {}
    for fn, kw in spec["ops"]:
        if fn == "create_junction":
            kw["tfluid_k"] = kw["tfluid_k"] + rng.choice(choices)
            tj[kw["index"]] = kw["tfluid_k"]
    for fn, kw in spec["ops"]:
        if fn == "create_ext_grid" and kw.get("junction") in tj:
            kw["t_k"] = tj[kw["junction"]]
    spec["nonuniform_t"] = True
    return spec


def lossy_pi_valves(rng, spec):
    """give the pipe-attached valves of a generated spec a loss coefficient (the generator creates them with 0)"""
    import copy
    spec = copy.deepcopy(spec)
    for fn, kw in spec["ops"]:
        if fn == "create_valve" and kw.get("et") == "pi":
            kw["loss_coefficient"] = rng.choice([0.5, 2.5])
            spec["lossy_pi_valve"] = True
    return spec


def mixing_net(rng):
    """liquid net for mode="bidirectional": 2-3 supplies (ext grids) of different temperature and pressure feed mixing
    junctions through pipes with heat losses; downstream pipes (heights, loss coefficients, some declared against the
    flow) lead to sinks.  One section per pipe, so inlet / outlet temperature of every section are reported."""
    n_sup = rng.choice([2, 2, 3])
    ops, nj = [], 0

    def junction(t, h):
        nonlocal nj
        ops.append(["create_junction", {"pn_bar": 5.0, "tfluid_k": t, "height_m": h, "index": nj}])
        nj += 1
        return nj - 1

    def pipe(a, c, i):
        if rng.random() < 0.3:
            a, c = c, a
        ops.append(["create_pipe_from_parameters",
                    {"from_junction": a, "to_junction": c, "length_km": rng.choice([0.2, 0.4, 0.8]),
                     "inner_diameter_mm": rng.choice([60., 80., 100.]), "k_mm": rng.choice([0.05, 0.1, 0.2]),
                     "loss_coefficient": rng.choice([0., 1.5]), "sections": 1, "u_w_per_m2k": rng.choice([1., 5., 15.]),
                     "text_k": rng.choice([275., 283., 293.]), "index": i}])
    temps = rng.sample([300., 320., 340., 360., 375.], n_sup)
    mix = junction(330., rng.choice([0., 5.]))
    mix2 = junction(330., rng.choice([0., 12.]))
    ends = [junction(330., rng.choice([0., 20., -5.])) for _ in range(rng.choice([1, 2]))]
    pi = 0
    for k, t in enumerate(temps):
        js = junction(t, rng.choice([0., 10., 25.]))
        ops.append(["create_ext_grid", {"junction": js, "p_bar": 5.0 - 0.2 * k, "t_k": t, "index": k}])
        pipe(js, mix if k < 2 else mix2, pi)
        pi += 1
    pipe(mix, mix2, pi)
    pi += 1
    for e in ends:
        pipe(mix2, e, pi)
        pi += 1
        ops.append(["create_sink", {"junction": e, "mdot_kg_per_s": rng.choice([2.0, 4.0, 6.0]), "index": e}])
    return {"fluid": "water", "ops": ops, "mode": "bidirectional"}


def mixing_net_feeding(rng, tries=8):
    """a mixing_net in which every supply delivers (hydraulic pre-run): a temperature-fixed ext grid that absorbs flow is not
    an admissible heat-transfer problem for pandapipes (the thermal stage does not converge), so such specs are redrawn"""
    from harness import gen, drive
    for _ in range(tries):
        spec = mixing_net(rng)
        net = gen.build(spec)
        st, _ = drive.run(net, use_numba=False, mode="hydraulics", iter=100)
        if st == "ok" and (net.res_ext_grid.mdot_kg_per_s.values < -1e-3).all():
            return spec
    return None


def p_air(h):
    return 1.01325 * (1 - h * 0.0065 / 288.15) ** 5.255


def lam_nikuradse(re, k, d, gas):
    turb = 1 / (2 * math.log10(d / k) + 1.14) ** 2 if gas else 1 / (-2 * math.log10(k / (3.71 * d))) ** 2
    return (64 / re if re > 1e-8 else 0.) + turb


def lam_swamee(re, k, d):
    return 0.25 / (math.log10(k / (3.7 * d) + 5.74 / re ** 0.9)) ** 2


def colebrook_residual(lam, re, k, d):
    return 1 / math.sqrt(lam) + 2 * math.log10(2.51 / (re * math.sqrt(lam)) + k / (3.71 * d))


def colebrook_root(re, k, d):
    lam = 1 / (-2 * math.log10(k / (3.71 * d))) ** 2
    for _ in range(60):
        x = -2 * math.log10(2.51 / (re * math.sqrt(lam)) + k / (3.71 * d))
        new = 1 / x ** 2
        if abs(new - lam) < 1e-15:
            break
        lam = new
    return lam


def close(a, b, scale=0.0, rt=RT, at=1e-7):
    return abs(a - b) <= rt * max(abs(a), abs(b), scale) + at


def sections_of(net, tbl, idx, thermal=False):
    """-> list of dicts (one per section) with absolute end pressures [bar], heights, geometry, m, lambda_reported"""
    import pandapipes as pp
    row = net[tbl].loc[idx]
    res = net["res_" + tbl].loc[idx]
    if tbl == "valve":
        # a pipe-attached valve ("pi") sits between its junction and a valve node at the junction's height and temperature;
        # res_valve.p_to_bar is the valve node's pressure (the attached pipe reports it as its own end pressure)
        fj, tj = (row["junction"], row["element"]) if row.get("et", "ju") == "ju" else (row["junction"], row["junction"])
    else:
        fj, tj = row["from_junction"], row["to_junction"]
    if np.isnan(res["mdot_from_kg_per_s"]) or np.isnan(res["p_from_bar"]) or np.isnan(res["p_to_bar"]):
        return []
    hf, ht = float(net.junction.at[fj, "height_m"]), float(net.junction.at[tj, "height_m"])
    d = float(row["inner_diameter_mm"] if "inner_diameter_mm" in row else row["diameter_m"] * 1000) / 1000.
    n = int(row["sections"]) if tbl == "pipe" else 1
    length = float(row["length_km"]) * 1000. if tbl == "pipe" else 0.
    zeta = float(row["loss_coefficient"]) if "loss_coefficient" in row and not np.isnan(row["loss_coefficient"]) else 0.
    k = float(row["k_mm"]) / 1000. if tbl == "pipe" else 1e-4
    ps = [float(res["p_from_bar"])]
    if n > 1:
        ps += internal_pressures(net, idx, n)
    ps.append(float(res["p_to_bar"]))
    hs = [hf + (ht - hf) * i / n for i in range(n + 1)]
    tf_, tt_ = float(net.res_junction.at[fj, "t_k"]), float(net.res_junction.at[tj, "t_k"])
    if thermal:
        # temperature field solved: the branch's own inlet temperature (junction the flow comes from) and its reported
        # outlet temperature t_outlet_k (differs from the downstream junction where streams mix); one section only
        if n != 1 or tbl != "pipe":
            return []
        tf_ = float(res["t_from_k"] if res["mdot_from_kg_per_s"] >= 0 else res["t_to_k"])
        tt_ = float(res["t_outlet_k"])
    ts = [tf_ + (tt_ - tf_) * i / n for i in range(n + 1)]       # reported junction temperatures (an ext grid fixes
    #                                                              its junction to t_k); internal nodes: linear
    out = []
    for i in range(n):
        out.append({"tbl": tbl, "idx": int(idx), "section": i, "p_i": ps[i] + p_air(hs[i]), "p_i1": ps[i + 1] + p_air(hs[i + 1]),
                    "dh": hs[i] - hs[i + 1], "t_i": ts[i], "t_i1": ts[i + 1], "d": d, "l": length / n, "zeta": zeta / n, "k": k,
                    "m": float(res["mdot_from_kg_per_s"]), "lambda_rep": float(res.get("lambda", float("nan"))),
                    "re_rep": float(res.get("reynolds", float("nan"))), "n": n,
                    "v_rep": float(res["v_mean_m_per_s"]) if "v_mean_m_per_s" in res else float("nan")})
    return out


API_ERRORS = []


def internal_pressures(net, idx, n):
    """pressures of the n-1 internal nodes of pipe `idx`, in section order.  Pipe.get_internal_results is used when the
    pipe labels are 0..N-1 (it mixes row positions and labels otherwise: internal_nodes[pipe] is positional,
    get_lookup(...)['pipe'][pipe] is by label); else the same numbers are read from net._pit directly."""
    import pandapipes as pp
    from pandapipes import idx_branch as B, idx_node as N
    from pandapipes.pf.pipeflow_setup import get_lookup
    labels = list(net.pipe.index)
    if labels == list(range(len(labels))):
        try:
            ir = pp.Pipe.get_internal_results(net, np.array([idx]))
            return [float(x) for x in ir["PINIT"][:, 1]]
        except IndexError:
            # gas nets: get_internal_results indexes the NODE pit with branch positions (node_pit[m_nodes, TINIT]) and
            # raises when a branch position exceeds the node count (reported; design_notes/C02.md)
            API_ERRORS.append(("Pipe.get_internal_results", int(idx)))
    f, t = get_lookup(net, "branch", "from_to")["pipe"]
    bp, npit = net["_pit"]["branch"][f:t], net["_pit"]["node"]
    rows = bp[bp[:, B.ELEMENT_IDX] == idx]
    assert len(rows) == n
    return [float(npit[int(r[B.TO_NODE]), N.PINIT]) for r in rows[:-1]]


def check_net(net, friction_model, thermal=False):
    """-> (n_sections_checked, n_flowing, list of failures (what, section dict, lhs, rhs))"""
    fluid = net.fluid
    gas = fluid.is_gas
    bad, n_chk, n_flow = [], 0, 0
    means = {}
    rho_n = float(fluid.get_density(TN))
    for tbl in ("pipe", "valve", "heat_exchanger"):
        if tbl not in net or not len(net[tbl]) or "res_" + tbl not in net:
            continue
        for idx in net[tbl].index:
            for s in sections_of(net, tbl, idx, thermal):
                n_chk += 1
                own_cb = False
                a = s["d"] ** 2 * math.pi / 4
                t = (s["t_i"] + s["t_i1"]) / 2                   # get_branch_real_eta / compressibility: mean temperature
                m = s["m"]
                pm = (s["p_i"] + s["p_i1"]) / 2 if not gas or s["p_i"] == s["p_i1"] else \
                    2 / 3 * (s["p_i"] ** 3 - s["p_i1"] ** 3) / (s["p_i"] ** 2 - s["p_i1"] ** 2)
                eta = float(fluid.get_viscosity(t, p_bar=pm)) if _takes_p(fluid) else float(fluid.get_viscosity(t))
                re = abs(m) * s["d"] / (eta * a)
                if abs(m) > 1e-6:
                    n_flow += 1
                # friction factor of the documented model
                if tbl != "pipe" or s["l"] == 0:
                    lam = s["lambda_rep"] if not math.isnan(s["lambda_rep"]) else 0.
                elif friction_model == "nikuradse":
                    lam = lam_nikuradse(re, s["k"], s["d"], gas)
                elif friction_model == "swamee-jain":
                    lam = lam_swamee(re, s["k"], s["d"]) if re > 0 else 0.
                elif s["n"] > 1 and s["t_i"] != s["t_i1"]:
                    lam = colebrook_root(re, s["k"], s["d"]) if re > 1e-3 else lam_nikuradse(max(re, 1e-300), s["k"], s["d"], gas)
                    own_cb = True
                else:
                    lam = s["lambda_rep"]
                    if re > 10. and s["n"] == 1 and abs(colebrook_residual(lam, re, s["k"], s["d"])) > 2e-2:
                        bad.append(("colebrook: reported lambda does not satisfy the implicit equation", s,
                                    colebrook_residual(lam, re, s["k"], s["d"]), 0.))
                acc = means.setdefault((tbl, s["idx"]), {"s": s, "lam": [], "re": [], "dpf": [], "isothermal": True})
                acc["lam"].append(lam)
                acc["re"].append(re)
                acc["re_per_m"] = s["d"] / (eta * a)
                acc["isothermal"] &= s["t_i"] == s["t_i1"]
                fric = lam * s["l"] / s["d"] + s["zeta"]
                if not gas:
                    rho = (float(fluid.get_density(s["t_i"])) + float(fluid.get_density(s["t_i1"]))) / 2
                    v = m / (rho * a)
                    lhs = (s["p_i1"] - s["p_i"]) * 1e5
                    rhs = rho * G * s["dh"] - fric * rho * v * abs(v) / 2
                    means[(tbl, s["idx"])]["dpf"].append(fric * rho * v * v / 2 / 1e5)
                    if not close(lhs, rhs, at=1e-2, rt=1e-3 if own_cb else RT):            # 1e-2 Pa = 1e-7 bar
                        bad.append(("liquid pressure-loss law (Darcy-Weisbach + hydrostatic + zeta)", s, lhs, rhs))
                    if s["n"] == 1 and not math.isnan(s["v_rep"]) and not close(s["v_rep"] * rho * a, m, rt=1e-9, at=1e-12):
                        bad.append(("reported velocity: v*rho*A != m", s, s["v_rep"] * rho * a, m))
                else:
                    comp = float(fluid.get_compressibility(pm, t)) if _comp2d(fluid) else float(fluid.get_compressibility(pm))
                    v_n = m / (rho_n * a)
                    psum = (s["p_i"] + s["p_i1"]) * 1e5 / 2
                    rho_r = _real_rho(fluid, rho_n, s["p_i"], s["p_i1"], s["t_i"], s["t_i1"])
                    lhs = (s["p_i"] - s["p_i1"]) * 1e5 * psum
                    rhs = fric * rho_n * v_n * abs(v_n) / 2 * (PN * 1e5) * t / TN * comp - rho_r * G * s["dh"] * psum
                    means[(tbl, s["idx"])]["dpf"].append(fric * rho_n * v_n * v_n / 2 * (PN * 1e5) * t / TN * comp / psum / 1e5)
                    if not close(lhs, rhs, at=1e-2 * psum, rt=1e-3 if own_cb else RT):
                        bad.append(("gas pressure-loss law (integrated real-gas form)", s, lhs, rhs))
    for (tbl, idx), acc in means.items():
        s = acc["s"]
        if tbl != "pipe" or s["l"] == 0:
            continue
        re_m, lam_m = sum(acc["re"]) / len(acc["re"]), sum(acc["lam"]) / len(acc["lam"])
        # reported Re / lambda are those of the last linearisation; the mass flow has moved by less than tol_m = 1e-10 kg/s
        # since (bound used: 2 tol_m), which matters for small flows: dRe = D/(eta A) dm, |dlambda/lambda| <= |dRe/Re|
        at_re = 2e-10 * acc["re_per_m"]
        if re_m > 1. and not math.isnan(s["re_rep"]) and not close(s["re_rep"], re_m, rt=1e-6, at=at_re):
            bad.append(("reported Reynolds number != mean over sections of |m| D / (eta A)", s, s["re_rep"], re_m))
        if re_m > 1. and friction_model != "colebrook" and not close(s["lambda_rep"], lam_m, rt=1e-5,
                                                                       at=lam_m * at_re / re_m):
            bad.append(("reported lambda != documented friction formula (%s), mean over sections" % friction_model, s,
                        s["lambda_rep"], lam_m))
    for (tbl, idx), acc in means.items():
        # reported friction loss of an element = sum over its sections (/repo 08a8961), absolute value
        if tbl == "pipe" and friction_model != "colebrook" and "dp_friction_loss_bar" in net.res_pipe:
            rep = float(net.res_pipe.at[idx, "dp_friction_loss_bar"])
            if not math.isnan(rep) and not close(abs(rep), sum(acc["dpf"]), rt=1e-5, at=1e-9):
                bad.append(("reported friction loss: dp_friction_loss_bar != sum over sections of (lambda l/d + zeta) rho v^2/2",
                            acc["s"], abs(rep), sum(acc["dpf"])))
    if gas and "pipe" in net and len(net.pipe):
        bad += check_gas_ends(net, fluid, rho_n)
    return n_chk, n_flow, bad


def check_gas_ends(net, fluid, rho_n):
    """gas pipes: reported norm factors and end velocities follow from the REPORTED end pressures / temperatures:
    normfactor = p_N T / (T_N p_abs) K(p_abs, T),  v_end = m / (rho_N A) * normfactor  (hydraulic run: no branch is
    direction-switched, so 'from' is the from junction)"""
    bad = []
    res = net.res_pipe
    for idx in net.pipe.index:
        r, row = res.loc[idx], net.pipe.loc[idx]
        if np.isnan(r["mdot_from_kg_per_s"]) or np.isnan(r["normfactor_from"]):
            continue
        a = (float(row["inner_diameter_mm"]) / 1000.) ** 2 * math.pi / 4
        v_n = float(r["mdot_from_kg_per_s"]) / (rho_n * a)
        for end, jcol in (("from", "from_junction"), ("to", "to_junction")):
            h = float(net.junction.at[row[jcol], "height_m"])
            p_abs = float(r["p_%s_bar" % end]) + p_air(h)
            t = float(r["t_%s_k" % end])
            if math.isnan(t):
                t = float(net.res_junction.at[row[jcol], "t_k"])
            kk = float(fluid.get_compressibility(p_abs, t)) if _comp2d(fluid) else float(fluid.get_compressibility(p_abs))
            nf = PN * t / (TN * p_abs) * kk
            s = {"tbl": "pipe", "idx": int(idx), "section": 0 if end == "from" else int(row["sections"]) - 1, "m": float(r["mdot_from_kg_per_s"]),
                 "l": float(row["length_km"]) * 1000, "dh": 0., "zeta": 0., "end": end, "p_abs": p_abs, "t": t}
            if not close(float(r["normfactor_" + end]), nf, rt=1e-9, at=0.):
                bad.append(("reported norm factor: normfactor_%s != p_N T/(T_N p) K(p,T) at the %s junction" % (end, end), s,
                            float(r["normfactor_" + end]), nf))
            if not close(float(r["v_%s_m_per_s" % end]), v_n * nf, rt=1e-8, at=1e-12):
                bad.append(("reported gas velocity: v_%s != m/(rho_N A) * normfactor_%s" % (end, end), s,
                            float(r["v_%s_m_per_s" % end]), v_n * nf))
    return bad


def _takes_p(fluid):
    try:
        fluid.get_viscosity(300., p_bar=1.0)
        return True
    except TypeError:
        return False


def _comp2d(fluid):
    prop = fluid.all_properties["compressibility"]
    return bool(getattr(prop, "allow_2d", False))


def _real_rho(fluid, rho_n, p_i, p_i1, t_i, t_i1):
    def one(p, t):
        kk = float(fluid.get_compressibility(p, t)) if _comp2d(fluid) else float(fluid.get_compressibility(p))
        return rho_n * TN * p / (t * PN * kk)
    return (one(p_i, t_i) + one(p_i1, t_i1)) / 2
