"""C05 helpers: drive the REAL newton_raphson / stage functions / pipeflow of the tree under test.

  gen_driver_case(rng)            -> parameters of one scripted-driver case (JSON-able)
  run_driver_case(case)           -> executes the real newton_raphson with a scripted funct(net);
                                     returns the executed script (vectors as floats) and the observations
  driver_oracle(case, res)        -> the property's own words evaluated on that run (list of complaints)
  case_to_coq(case, res)          -> one `dcase` literal for coq/C05/Model.v
  stage_probes(wiring)            -> scripted solve functions under the real stage functions
  Recorder                        -> wraps newton_raphson / finalize_iteration while pipeflow runs on real nets
No source hooks: wrappers are installed on sys.modules["pandapipes.pipeflow"] and removed again.
"""
import math
import os
import sys
import traceback
from fractions import Fraction

import numpy as np

sys.path.insert(0, os.path.dirname(os.path.dirname(os.path.abspath(__file__))))
from vlib import cq, cnat, cbool, clist, cz  # noqa: E402


def M():
    import pandapipes  # noqa: F401
    return sys.modules["pandapipes.pipeflow"]


# ------------------------------------------------------------------------------------------------ literals
def cfl(x):
    x = float(x)
    if math.isnan(x):
        return "NaN"
    if x == math.inf:
        return "PInf"
    if x == -math.inf:
        return "NInf"
    return "(Fin %s)" % cq(Fraction(x))


def alpha_q(a):
    """the decimal the double prints as (0.1 -> 1/10, 0.01 -> 1/100): the model's alpha is a rational; that
    1/10, 0.1/10, 0.01*10, 0.1*10 are the doubles 0.1, 0.01, 0.1, 1.0 is pinned by Example float_ladder"""
    return Fraction(repr(float(a)))


METH = {"automatic": "Automatic", "constant": "Constant"}
REALVARS = [("mdot", "branch", False), ("p", "node", False), ("mdotslack", "node", True),
            ("TOUT", "branch", False), ("T", "node", False), ("Tout", "branch", False)]
TOLS = [1e-5, 1e-3, 1e-4, 0.5, 1.0, 0.0, 2.0 ** -10, 3.0, math.inf, math.nan, 1e-8]


# ------------------------------------------------------------------------------------------------ generation
def gen_driver_case(rng, thorough=False):
    meth = rng.choice(["automatic"] * 5 + ["constant"] * 4 + ["other_method"])
    auto = meth == "automatic"
    max_iter = rng.choice([0, 1, 1, 2, 2, 3, 3, 4, 5, 6, 8, 10, 12] + ([20, 40] if thorough else [15]))
    if auto:
        pool = [v for v in REALVARS]
        rng.shuffle(pool)
        chosen, cols = [], set()
        for v in pool:
            col = v[0].upper()
            if col not in cols:
                cols.add(col)
                chosen.append(v)
        nvars = rng.choice([1, 2, 2, 3, 3, 4, 5])
        chosen = chosen[:nvars]
        if rng.random() < 0.03:
            chosen = []
    else:
        nvars = rng.choice([0, 1, 1, 2, 2, 3, 3, 4, 5, 6])
        chosen = [("v%d" % i, rng.choice(["branch", "node"]), False) for i in range(nvars)]
    nvars = len(chosen)
    n_extra = rng.choice([0, 0, 0, 0, 1, 2])
    n_pairs = nvars + n_extra
    shape = rng.choice(["ragged", "ragged", "rect", "rect1", "mixed"])
    n_branch, n_node = rng.randint(0, 3), rng.randint(0, 3)
    if shape == "rect":
        n_branch = n_node = rng.choice([1, 2, 3, 3])
    elif shape == "rect1":
        n_branch = n_node = 1
    filt_rows = sorted(rng.sample(range(n_node), rng.randint(0, n_node))) if n_node else []
    if shape in ("rect", "rect1"):
        filt_rows = list(range(n_node))
    lengths = []
    for (nm, pit, filt) in chosen:
        if auto:
            lengths.append(len(filt_rows) if filt else (n_branch if pit == "branch" else n_node))
        else:
            lengths.append(n_branch if shape in ("rect", "rect1") else rng.randint(0, 3))
    for _ in range(n_extra):
        lengths.append(n_branch if shape in ("rect", "rect1") else rng.randint(0, 3))
    ntol = nvars if rng.random() < 0.85 else max(0, nvars + rng.choice([-1, 1, -2]))
    tols = [rng.choice(TOLS[:8] if rng.random() < 0.85 else TOLS) for _ in range(ntol)]
    tol_res = rng.choice(TOLS[:8] if rng.random() < 0.85 else TOLS)
    npit = nvars if rng.random() < 0.9 else max(0, nvars - 1)
    if auto:
        alpha0 = rng.choice([1.0] * 6 + [0.1, 0.1, 0.01, 0.5, 2.0, 0.25])
    else:
        alpha0 = rng.choice([1.0, 1.0, 0.1, 0.3, 0.5, 0.01])
    return {"method": meth, "max_iter": max_iter, "vars": [list(v) for v in chosen], "n_pairs": n_pairs,
            "lengths": lengths, "n_branch": n_branch, "n_node": n_node, "filt_rows": filt_rows,
            "tols": tols, "tol_res": tol_res, "n_pit_names": npit, "alpha0": alpha0,
            "conv0": rng.random() < 0.04, "seed": rng.getrandbits(48), "shape": shape,
            "style": rng.choice(["converging", "converging", "wild", "stuck", "oscillating", "late"])}


def _vec(rng, L, e, base0):
    """(new, old) of length L with max |new - old| = e exactly"""
    if L == 0:
        return [], []
    old = [0.0] * L if base0 else [float(rng.randint(-8, 8)) for _ in range(L)]
    pmax = rng.randrange(L)
    d = []
    for q in range(L):
        f = 1.0 if q == pmax else rng.choice([0.0, 0.5, 0.25, 1.0])
        d.append(rng.choice([-1.0, 1.0]) * e * f)
    new = [o + x for o, x in zip(old, d)]
    return new, old


def gen_iteration(rng, case, k, state):
    """script of iteration k: list of (new, old) float lists, residual list.  `state` keeps the error level of
    every pair so that growth / decay / oscillation patterns occur."""
    style = case["style"]
    pairs = []
    for i in range(case["n_pairs"]):
        L = case["lengths"][i]
        tol = case["tols"][i] if i < len(case["tols"]) else 1e-3
        fin_tol = tol if (isinstance(tol, float) and math.isfinite(tol) and tol > 0) else 1e-3
        lvl = state.setdefault(("lvl", i), rng.randint(-6, 8))
        r = rng.random()
        if style == "converging":
            kind = "shrink" if r < 0.55 else rng.choice(["below", "at", "zero", "grow", "same", "above"])
        elif style == "late":
            kind = rng.choice(["grow", "same", "shrink"]) if k < case["max_iter"] - 2 else rng.choice(["below", "at", "zero"])
        elif style == "stuck":
            kind = "same" if r < 0.7 else rng.choice(["grow", "shrink", "above"])
        elif style == "oscillating":
            kind = ("grow" if (k + i) % 2 else "shrink") if r < 0.8 else rng.choice(["below", "zero", "at"])
        else:
            kind = rng.choice(["grow", "shrink", "same", "below", "at", "above", "zero", "nan", "inf", "infinf",
                               "nanfirst", "nanlast"])
        if rng.random() < 0.04:
            kind = rng.choice(["nan", "inf", "infinf", "nanfirst", "nanlast"])
        base0 = False
        if kind in ("grow", "shrink", "same"):
            lvl += {"grow": rng.randint(1, 3), "shrink": -rng.randint(1, 3), "same": 0}[kind]
            lvl = max(-20, min(12, lvl))
            e = 2.0 ** lvl * (1.0 if kind == "same" else rng.choice([1.0, 1.5, 1.25]))
        elif kind == "zero":
            e = 0.0
        elif kind == "below":
            e, base0 = fin_tol / 2, True
        elif kind == "at":
            e, base0 = fin_tol, True
        elif kind == "above":
            e, base0 = float(np.nextafter(fin_tol, math.inf)), True
        else:
            e = 2.0 ** lvl
        state[("lvl", i)] = lvl
        new, old = _vec(rng, L, e, base0)
        if L and kind in ("nan", "inf", "infinf", "nanfirst", "nanlast"):
            q = 0 if kind == "nanfirst" else L - 1 if kind == "nanlast" else rng.randrange(L)
            if kind in ("nan", "nanfirst", "nanlast"):
                new[q] = math.nan
            elif kind == "inf":
                new[q] = rng.choice([math.inf, -math.inf])
            else:
                new[q] = old[q] = math.inf
        pairs.append((new, old))
    tr = case["tol_res"]
    ftr = tr if (math.isfinite(tr) and tr > 0) else 1e-3
    r = rng.random()
    if style in ("converging", "late") and r < 0.7:
        rk = rng.choice(["zero", "below", "at"])
    else:
        rk = rng.choice(["zero", "below", "at", "above", "big", "big", "nan", "inf"] if style == "wild" else
                        ["zero", "below", "at", "above", "big"])
    rv = {"zero": 0.0, "below": ftr / 2, "at": ftr, "above": float(np.nextafter(ftr, math.inf)),
          "big": 2.0 ** rng.randint(0, 9), "nan": math.nan, "inf": math.inf}[rk]
    Lr = rng.randint(1, 3)
    pm = rng.randrange(Lr)
    resid = [(rv if q == pm else (0.0 if not math.isfinite(rv) else rv * rng.choice([0.0, 0.5]))) *
             rng.choice([-1.0, 1.0]) for q in range(Lr)]
    return pairs, resid


# ------------------------------------------------------------------------------------------------ execution
def _same(a, b):
    a, b = np.asarray(a, float), np.asarray(b, float)
    return a.shape == b.shape and bool(np.array_equal(a, b, equal_nan=True))


_NET = []


def _shared_net():
    import pandapipes as pp
    if not _NET:
        _NET.append(pp.create_empty_network(fluid="water"))
    return _NET[0]


def run_driver_case(case, script=None):
    """drive the real newton_raphson; `script` (list of (pairs, resid)) replays a stored run instead of
    generating one"""
    import random
    import pandapipes as pp
    from pandapipes.idx_node import node_cols
    from pandapipes.idx_branch import branch_cols
    mod = M()
    rng = random.Random(case["seed"])
    net = _shared_net()
    net.pop("_internal_results", None)
    net["_options"] = {"max_iter_x": case["max_iter"], "nonlinear_method": case["method"],
                       "tol_res": case["tol_res"], "alpha": case["alpha0"]}
    net["_active_pit"] = {"node": np.full((case["n_node"], node_cols), 777.0),
                          "branch": np.full((case["n_branch"], branch_cols), 777.0)}
    # full pits + all-active lookups: a driver that undoes a rejected step in net["_pit"] (through the active
    # lookups) instead of net["_active_pit"] is observed just the same
    net["_pit"] = {"node": np.full((case["n_node"], node_cols), 777.0), "branch": np.full((case["n_branch"], branch_cols), 777.0)}
    net["_lookups"] = {"%s_active_%s" % (pt, m): np.ones(case["n_node"] if pt == "node" else case["n_branch"], dtype=bool)
                       for pt in ("node", "branch") for m in ("hydraulics", "heat_transfer")}
    net.converged = bool(case["conv0"])
    auto = case["method"] == "automatic"
    names = [v[0] for v in case["vars"]]
    pit_names = [v[1] for v in case["vars"]][:case["n_pit_names"]]
    filt_rows = np.array(case["filt_rows"], dtype=np.int64)
    n_rest = min(len(names), len(pit_names), case["n_pairs"]) if auto else 0
    executed, codes, state, alphas = [], [], {}, []

    def loc(i):
        nm, pit, filt = case["vars"][i]
        col = getattr(mod, nm.upper() + "INIT")
        rows = filt_rows if filt else slice(None)
        return net["_active_pit"][pit], rows, col

    def read_codes():
        alphas.append(float(net["_options"]["alpha"]))      # alpha in force before the next call
        if not executed:
            return
        pairs, _ = executed[-1]
        cs = []
        for i in range(n_rest):
            arr, rows, col = loc(i)
            full = net["_pit"][case["vars"][i][1]]
            cur, cur_full = arr[rows, col], full[rows, col]
            new_, old_ = pairs[i][0], pairs[i][1]
            if _same(new_, old_) and _same(cur, new_) and _same(cur_full, new_):
                cs.append(2)
            elif _same(cur, new_) and _same(cur_full, new_):
                cs.append(0)
            elif (_same(cur, old_) and _same(cur_full, new_)) or (_same(cur_full, old_) and _same(cur, new_)):
                cs.append(1)
            else:
                cs.append(3)
        codes.append(cs)

    def funct(net_):
        read_codes()
        k = len(executed)
        if script is not None:
            pairs, resid = script[k]
        else:
            pairs, resid = gen_iteration(rng, case, k, state)
        executed.append((pairs, resid))
        out, filtered = [], []
        for i, (new, old) in enumerate(pairs):
            if auto and i < len(names):
                arr, rows, col = loc(i)
                arr[rows, col] = np.array(new, float)
                net["_pit"][case["vars"][i][1]][rows, col] = np.array(new, float)
                out += [arr[rows, col], np.array(old, float)]
                filtered.append(filt_rows if case["vars"][i][2] else None)
            else:
                out += [np.array(new, float), np.array(old, float)]
                filtered.append(None)
        return out, np.array(resid, float), filtered

    exc = None
    try:
        mod.newton_raphson(net, funct, "x", names, list(case["tols"]), pit_names, "max_iter_x")
    except Exception as e:  # noqa: BLE001
        exc = "%s: %s" % (type(e).__name__, str(e)[:200])
    read_codes()
    ir = net.get("_internal_results", {})
    hist = []
    if exc is None:
        n_it = ir.get("iterations_x", 0)
        for k in range(n_it):
            hist.append([float(ir[nm][k]) for nm in names])
    return {"exception": exc, "converged": bool(net.converged), "niter": int(ir.get("iterations_x", -1)),
            "alpha": float(net["_options"]["alpha"]), "hist": hist, "codes": codes, "alphas": alphas,
            "residual_norm": (None if ir.get("residual_norm_x", None) is None else float(ir["residual_norm_x"])),
            "script": [([(list(n), list(o)) for n, o in p], list(r)) for p, r in executed]}


def resid_norm(resid):
    if any(math.isnan(x) for x in resid):
        return math.nan
    return max(abs(x) for x in resid)


def case_to_coq(case, res):
    meth = METH.get(case["method"], "OtherMethod")
    nrest = min(case["n_pit_names"], case["n_pairs"])
    cfg = ("{| c_max_iter := %s; c_meth := %s; c_nvars := %s; c_tols := %s; c_tol_res := %s; c_nrestore := %s |}"
           % (cnat(case["max_iter"]), meth, cnat(len(case["vars"])), clist([cfl(t) for t in case["tols"]]),
              cfl(case["tol_res"]), cnat(nrest)))
    vobs = []
    for pairs, resid in res["script"]:
        ps = clist(["(%s, %s)" % (clist([cfl(x) for x in n]), clist([cfl(x) for x in o])) for n, o in pairs])
        vobs.append("{| v_pairs := %s; v_res := %s |}" % (ps, cfl(resid_norm(resid))))
    hist = clist([clist([cfl(x) for x in h]) for h in reversed(res["hist"])])
    codes = clist([clist([cz(c) for c in cs]) for cs in reversed(res["codes"])])
    return ("{| d_cfg := %s; d_conv0 := %s; d_alpha0 := %s; d_script := %s; d_obs_conv := %s; d_obs_niter := %s; "
            "d_obs_alpha := %s; d_obs_hist := %s; d_obs_codes := %s |}"
            % (cfg, cbool(case["conv0"]), cq(alpha_q(case["alpha0"])), clist(vobs), cbool(res["converged"]),
               cnat(max(res["niter"], 0)), cq(alpha_q(res["alpha"])), hist, codes))


def driver_oracle(case, res):
    """the property statement (not the model) on one scripted run -> list of (clause, text)"""
    bad = []
    if res["exception"]:
        return [("driver_total", "newton_raphson raised " + res["exception"])]
    n, auto = res["niter"], case["method"] == "automatic"
    if n > case["max_iter"]:
        bad.append(("loop_terminates", "%d iterations with max_iter %d" % (n, case["max_iter"])))
    if not res["converged"] and not case["conv0"] and n < case["max_iter"]:
        bad.append(("loop_terminates", "stopped unconverged after %d < %d iterations" % (n, case["max_iter"])))
    if res["converged"] and not case["conv0"]:
        if n == 0:
            bad.append(("converged_implies_last_within_tol", "converged without an iteration"))
        else:
            pairs, resid = res["script"][n - 1]
            for i in range(min(len(case["vars"]), len(case["tols"]))):
                new, old = pairs[i]
                tol = case["tols"][i]
                for q, (a, b) in enumerate(zip(new, old)):
                    d = a - b if not (math.isinf(a) and math.isinf(b) and a == b) else math.nan
                    if math.isnan(d):
                        bad.append(("nan_never_counts", "converged although the change of variable %s[%d] is NaN "
                                    "(new %r, old %r)" % (case["vars"][i][0], q, a, b)))
                    elif not abs(d) <= tol:
                        bad.append(("converged_implies_last_within_tol", "converged although |change| of %s[%d] = %r > tol %r"
                                    % (case["vars"][i][0], q, abs(d), tol)))
            rn = resid_norm(resid)
            if not rn <= case["tol_res"]:
                bad.append(("converged_implies_last_within_tol", "converged although residual norm %r > tol_res %r"
                            % (rn, case["tol_res"])))
            if auto and res["alpha"] != 1:
                bad.append(("converged_implies_last_within_tol", "converged with damping factor %r" % res["alpha"]))
    # a NaN change that was let through is the root cause of whatever else the same run shows
    bad.sort(key=lambda b: 0 if b[0] == "nan_never_counts" else 1)
    if auto and case["alpha0"] in (1.0, 0.1, 0.01) and res["alpha"] not in (1.0, 0.1, 0.01):
        bad.append(("alpha_ladder", "alpha left the ladder: %r" % res["alpha"]))
    if auto and case["alpha0"] in (1.0, 0.1, 0.01) and len(res.get("alphas", [])) == n + 1:
        al = res["alphas"]                       # al[k] before iteration k, al[k+1] after it
        for k in range(n):
            cur = res["hist"][k]
            prev = res["hist"][k - 1] if k else cur
            all_grew = all(c > p for c, p in zip(cur, prev))
            if al[k + 1] < al[k] and not all_grew:
                bad.append(("alpha_ladder", "iteration %d: alpha fell from %r to %r although not every error grew "
                            "(errors %r after %r)" % (k, al[k], al[k + 1], cur, prev)))
            if not all_grew and al[k + 1] != min(1.0, {1.0: 10.0, 0.1: 1.0, 0.01: 0.1}.get(al[k], -1.0)):
                bad.append(("alpha_ladder", "iteration %d: no rejection, alpha went from %r to %r instead of one "
                            "step up the ladder" % (k, al[k], al[k + 1])))
            if all_grew and al[k + 1] != {1.0: 0.1, 0.1: 0.01, 0.01: 0.01}.get(al[k], -1.0):
                bad.append(("alpha_ladder", "iteration %d: every error grew, alpha went from %r to %r instead of one "
                            "step down the ladder" % (k, al[k], al[k + 1])))
    if not auto and res["alpha"] != case["alpha0"]:
        bad.append(("alpha_ladder", "alpha changed under %s: %r" % (case["method"], res["alpha"])))
    if auto:
        for k, cs in enumerate(res["codes"]):
            for i, c in enumerate(cs):
                cur = res["hist"][k][i]
                prev = res["hist"][k - 1][i] if k else cur
                grew = cur > prev
                if c == 3 or (grew and c == 0) or (not grew and c == 1):
                    bad.append(("rejected_vars_restored", "iteration %d variable %s: error %r after %r, pit holds %s"
                                % (k, case["vars"][i][0], cur, prev, {0: "new", 1: "old", 3: "neither"}[c])))
    return bad


# ------------------------------------------------------------------------------------------------ stage probes
def probe_net(kind):
    import pandapipes as pp
    net = pp.create_empty_network(fluid="water")
    j = [pp.create_junction(net, pn_bar=5, tfluid_k=330) for _ in range(4)]
    pp.create_ext_grid(net, j[0], p_bar=5, t_k=340)
    for a, b in ((0, 1), (1, 2), (2, 3), (1, 3)):
        pp.create_pipe_from_parameters(net, j[a], j[b], length_km=0.3, inner_diameter_mm=80., k_mm=0.1,
                                       u_w_per_m2k=1.0, text_k=283.15, sections=2 if a == 0 else 1)
    pp.create_sink(net, j[2], 0.5)
    pp.create_sink(net, j[3], 0.3)
    return net


PROBE_TOLS = {"tol_m": 2.0 ** -16, "tol_p": 2.0 ** -13, "tol_T": 2.0 ** -9}
STAGE_TOKENS = {"hydraulics": "hydraulics", "heat_transfer": "heat_transfer", "bidirectional": "bidirectional"}


def stage_probes(stages):
    """For every stage and every (new, old) pair its solve function returns: a scripted solve function that
    changes only that pair by a constant amount per iteration.  Change = 10: the stage must raise
    PipeflowNotConverged; change = 3 x the tolerance of the pair's own column: must raise; change = own
    tolerance / 2: must return.  Yields dicts (stage, pair, col, change, method, outcome, niter, expect)."""
    from harness import drive
    mod = M()
    from pandapipes.pf.pipeflow_setup import PipeflowNotConverged
    from pandapipes.idx_node import NODE_TYPE, P
    out = []
    tolcol = {"MDOTINIT": "tol_m", "PINIT": "tol_p", "MDOTSLACKINIT": "tol_m", "TOUTINIT": "tol_T", "TINIT": "tol_T"}
    for sw in stages:
        stage = sw["name"]
        n_pairs = len(sw["pairs"])
        for j in range(n_pairs):
            col = sw["pairs"][j]["new"][1]
            own = PROBE_TOLS.get(tolcol.get(col, ""), 2.0 ** -12)
            for what, change, expect in (("jump10", 10.0, "raise"), ("3tol", 3 * own, "raise"), ("halftol", own / 2, "return")):
                for meth in ("constant", "automatic"):
                    net = probe_net(stage)
                    try:
                        drive.stages(net, mode="sequential" if stage != "bidirectional" else "bidirectional",
                                     nonlinear_method=meth, max_iter_hyd=6, max_iter_therm=6, max_iter_bidirect=6,
                                     tol_res=1.0, **PROBE_TOLS)
                        if stage == "heat_transfer":
                            mod.hydraulics(net)
                    except Exception as e:  # noqa: BLE001
                        out.append({"stage": stage, "pair": j, "col": col, "what": what, "method": meth,
                                    "outcome": "setup:" + type(e).__name__, "expect": expect, "niter": -1})
                        continue
                    calls = [0]

                    def scripted(net_, sw=sw, j=j, change=change):
                        calls[0] += 1
                        res, filtered = [], []
                        for idx, p in enumerate(sw["pairs"]):
                            pit, c, rows = p["new"]
                            arr = net_["_active_pit"][pit]
                            if rows is None:
                                sel = slice(None)
                            else:
                                sel = np.where(net_["_active_pit"]["node"][:, NODE_TYPE] == P)[0]
                            cidx = getattr(mod, c)
                            old = arr[sel, cidx].copy()
                            if idx == j:
                                arr[sel, cidx] = old + change
                            res += [arr[sel, cidx], old]
                            filtered.append(None if p["filter"] is None else sel)
                        return res, np.array([0.0]), filtered
                    orig = getattr(mod, sw["solver"])
                    setattr(mod, sw["solver"], scripted)
                    try:
                        getattr(mod, stage)(net)
                        outcome = "return"
                    except PipeflowNotConverged:
                        outcome = "raise"
                    except Exception as e:  # noqa: BLE001
                        outcome = "other:" + type(e).__name__ + ":" + str(e)[:80]
                    finally:
                        setattr(mod, sw["solver"], orig)
                    out.append({"stage": stage, "pair": j, "col": col, "what": what, "change": change, "method": meth,
                                "outcome": outcome, "expect": expect, "niter": calls[0],
                                "converged": bool(net.converged), "vars": sw["vars"]})
    return out


# ------------------------------------------------------------------------------------------------ recording real runs
class Recorder:
    """records every newton_raphson execution (settings + per-iteration errors / residual norm as
    finalize_iteration sees them) while installed"""

    def __init__(self):
        self.mod = M()
        self.runs = []

    def __enter__(self):
        mod = self.mod
        self._nr, self._fin = mod.newton_raphson, mod.finalize_iteration
        rec = self

        def nr(net, funct, mode, solver_vars, tols, pit_names, iter_name):
            o = net["_options"]
            run = {"stage": mode, "vars": list(solver_vars), "tols": [float(t) for t in tols],
                   "pit_names": list(pit_names), "max_iter": int(o[iter_name]), "method": o["nonlinear_method"],
                   "tol_res": float(o["tol_res"]), "alpha0": float(o["alpha"]), "conv0": bool(net.converged),
                   "iters": [], "n_filtered": None}
            rec.runs.append(run)
            try:
                return rec._nr(net, funct, mode, solver_vars, tols, pit_names, iter_name)
            finally:
                run["conv"] = bool(net.converged)
                run["alpha"] = float(net["_options"]["alpha"])

        def fin(net, niter, residual_norm, nonlinear_method, errors, tols, tol_res, vals_old, solver_vars,
                pit_names, filtered):
            run = rec.runs[-1]
            run["iters"].append(([float(errors[v][niter]) for v in solver_vars], float(residual_norm)))
            run["n_filtered"] = len(filtered)
            return rec._fin(net, niter, residual_norm, nonlinear_method, errors=errors, tols=tols, tol_res=tol_res,
                            vals_old=vals_old, solver_vars=solver_vars, pit_names=pit_names, filtered=filtered)
        mod.newton_raphson, mod.finalize_iteration = nr, fin
        return self

    def __exit__(self, *a):
        self.mod.newton_raphson, self.mod.finalize_iteration = self._nr, self._fin


def run_in_coq(run, escape="NoEscape", post="NoPost"):
    """one recorded Newton execution as a `run_in` literal: the oracle replays the recorded observations"""
    meth = METH.get(run["method"], "OtherMethod")
    nrest = min(len(run["pit_names"]), run["n_filtered"] if run["n_filtered"] is not None else len(run["pit_names"]))
    cfg = ("{| c_max_iter := %s; c_meth := %s; c_nvars := %s; c_tols := %s; c_tol_res := %s; c_nrestore := %s |}"
           % (cnat(run["max_iter"]), meth, cnat(len(run["vars"])), clist([cfl(t) for t in run["tols"]]),
              cfl(run["tol_res"]), cnat(nrest)))
    obs = clist(["{| o_errs := %s; o_res := %s |}" % (clist([cfl(e) for e in errs]), cfl(r)) for errs, r in run["iters"]])
    return ("{| ri_cfg := %s; ri_orc := (fun st => nth (s_niter st) %s {| o_errs := []; o_res := NaN |}); "
            "ri_rerun := false; ri_escape := %s; ri_post := %s |}" % (cfg, obs, escape, post))


DUMMY_RUN = {"stage": "-", "vars": [], "tols": [], "pit_names": [], "max_iter": 0, "method": "constant",
             "tol_res": 0.0, "alpha0": 1.0, "conv0": False, "iters": [], "n_filtered": 0}


def frames_of(exc):
    return [f.name for f in traceback.extract_tb(exc.__traceback__)]
