"""C12/C13 helpers: deep bit-exact snapshots of the user part of a net, result snapshots, histories.

A history is a list of JSON-able operations applied to one net object:
    ["run", kwargs]                       pipeflow(net, **kwargs)   (kwargs may hold "mode": "heat": the stored
                                          hydraulic solution of the net itself is passed as sol_vec)
    ["edit", table, row_label, col, val]  net[table].at[row, col] = val
    ["setopts", kwargs] / ["resetopts"]   set_user_pf_options(net, **kwargs) / (net, reset=True)
Values are floats / ints / bools / None (None = NaN)."""
import copy
import math
import sys

import numpy as np

from harness import drive


def canon(v, depth=0, seen=None):
    """deep, NaN-aware, bit-exact canonical form of (almost) any object"""
    import pandas as pd
    if seen is None:
        seen = set()
    if depth > 12:
        return "<deep>"
    if v is None or isinstance(v, (bool, str)):
        return v
    if isinstance(v, (np.bool_,)):
        return bool(v)
    if isinstance(v, (int, np.integer)):
        return int(v)
    if isinstance(v, (float, np.floating)):
        f = float(v)
        return "nan" if math.isnan(f) else f.hex()
    if isinstance(v, complex):
        return repr(v)
    if isinstance(v, np.ndarray):
        if v.dtype.kind == "f":
            return {"nd": str(v.dtype), "shape": list(v.shape),
                    "v": [("nan" if math.isnan(x) else float(x).hex()) for x in v.ravel().tolist()]}
        return {"nd": str(v.dtype), "shape": list(v.shape), "v": [canon(x, depth + 1, seen) for x in v.ravel().tolist()]}
    if isinstance(v, pd.DataFrame):
        return {"index": [canon(i) for i in v.index.tolist()], "columns": list(map(str, v.columns)),
                "dtypes": [str(d) for d in v.dtypes.tolist()],
                "values": [[canon(x, depth + 1, seen) for x in row] for row in v.values.tolist()]}
    if isinstance(v, pd.Series):
        return {"index": [canon(i) for i in v.index.tolist()], "dtype": str(v.dtype),
                "values": [canon(x, depth + 1, seen) for x in v.tolist()]}
    if isinstance(v, dict):
        return {"dict": [[canon(k, depth + 1, seen), canon(v[k], depth + 1, seen)] for k in v]}
    if isinstance(v, (list, tuple, set, frozenset)):
        items = list(v)
        if isinstance(v, (set, frozenset)):
            items = sorted(items, key=repr)
        return [type(v).__name__] + [canon(x, depth + 1, seen) for x in items]
    if isinstance(v, type):
        return "<class %s>" % v.__name__
    if callable(v) and not hasattr(v, "__dict__"):
        return "<callable %s>" % getattr(v, "__name__", type(v).__name__)
    if id(v) in seen:
        return "<cycle>"
    seen = seen | {id(v)}
    d = getattr(v, "__dict__", None)
    if d is not None:
        return {"obj": type(v).__name__, "attrs": [[k, canon(d[k], depth + 1, seen)] for k in sorted(d)]}
    sl = getattr(type(v), "__slots__", None)
    if sl:
        return {"obj": type(v).__name__, "slots": [[k, canon(getattr(v, k, None), depth + 1, seen)] for k in sl]}
    return "<%s %s>" % (type(v).__name__, repr(v)[:80])


def snap_user(net):
    """the user part U of the net (DESIGN C12): every non-internal entry + the module default options"""
    import pandas as pd
    out = {}
    for k in sorted(net.keys()):
        if k.startswith("_") or k.startswith("res_") or k == "converged":
            continue
        v = net[k]
        if k == "user_pf_options":
            v = {a: b for a, b in (v or {}).items() if a != "hyd_flag"}
        if isinstance(v, pd.DataFrame):
            out[k] = canon(v)
        else:
            out[k] = canon(v)
    if "user_pf_options" not in out:
        out["user_pf_options"] = canon({})        # absent == empty (net.get("user_pf_options", {}))
    out["<default_options>"] = canon(drive.psetup().default_options)
    return out


def diff_snap(a, b, path=""):
    """first difference between two canonical snapshots, as a path string, or None"""
    if type(a) is not type(b):
        return path or "<root>"
    if isinstance(a, dict):
        if "columns" in a and "values" in a and "index" in a and isinstance(a.get("columns"), list):
            for key in ("index", "columns", "dtypes"):
                if a.get(key) != b.get(key):
                    return "%s.%s" % (path, key)
            for r, (x, y) in enumerate(zip(a["values"], b["values"])):
                for c, (p, q) in enumerate(zip(x, y)):
                    if p != q:
                        return "%s.%s[%s]" % (path, a["columns"][c], a["index"][r])
            return None
        if set(a) != set(b):
            return path + ".<keys>"
        for k in a:
            d = diff_snap(a[k], b[k], path + "." + str(k) if path else str(k))
            if d:
                return d
        return None
    if isinstance(a, list):
        if len(a) != len(b):
            return path + ".<len>"
        for i, (x, y) in enumerate(zip(a, b)):
            d = diff_snap(x, y, path + "[%d]" % i)
            if d:
                return d
        return None
    return None if a == b else (path or "<root>")


def snap_results(net):
    """bit-exact snapshot of converged flag + all result tables"""
    import pandas as pd
    out = {"converged": bool(net.get("converged", False))}
    for k in sorted(net.keys()):
        if k.startswith("res_") and isinstance(net[k], pd.DataFrame):
            out[k] = canon(net[k])
    return out


def stored_solution(net):
    from pandapipes.idx_node import PINIT
    from pandapipes.idx_branch import MDOTINIT
    return np.concatenate([net["_pit"]["node"][:, PINIT], net["_pit"]["branch"][:, MDOTINIT]]).copy()


def failure_site(e):
    """where inside pandapipes an exception was raised: 'newton_raphson' if the Newton loop was on the stack
    (raised while iterating), else the innermost pandapipes function"""
    import traceback
    names = [f.name for f in traceback.extract_tb(e.__traceback__) if "pandapipes" in f.filename]
    if "newton_raphson" in names:
        return "newton_raphson"
    return names[-1] if names else "?"


def do_run(net, kwargs, sol_vec=None):
    """-> (status, message, site).  mode heat takes the net's own stored solution unless one is supplied"""
    import pandapipes as pp
    kw = dict(kwargs)
    try:
        if kw.get("mode") == "heat":
            if sol_vec is None:
                if "_pit" not in net:
                    return "NoStoredSolution", "", ""
                sol_vec = stored_solution(net)
            pp.pipeflow(net, sol_vec=sol_vec, **kw)
        else:
            pp.pipeflow(net, **kw)
        return "ok", "", ""
    except Exception as e:  # noqa: BLE001
        return type(e).__name__, str(e)[:200], failure_site(e)


def val_in(v):
    return float("nan") if v is None else v


def _scale_property(prop, f):
    """change a property's parameters in place (same property object)"""
    from scipy.interpolate import interp1d
    d = prop.__dict__
    if "value" in d and isinstance(d["value"], (int, float, np.floating)):
        prop.value = float(d["value"]) * f
    elif "slope" in d and "offset" in d:
        prop.offset = float(d["offset"]) * f
        prop.slope = float(d["slope"]) * f
    elif "prop_getter" in d and hasattr(d["prop_getter"], "x") and hasattr(d["prop_getter"], "y"):
        g = d["prop_getter"]
        prop.prop_getter = interp1d(np.array(g.x), np.array(g.y) * f, fill_value="extrapolate")
    else:
        for k, v in d.items():
            if isinstance(v, (float, np.floating)):
                setattr(prop, k, float(v) * f)
                return
        raise ValueError("no parameter to scale in %s" % type(prop).__name__)


def apply_user_op(net, op, net0=None):
    """net0: the pristine net (restore operations take deep copies of its objects)"""
    import pandapipes as pp
    if op[0] == "fluid_const":            # replace a property object on the same Fluid
        pp.create_constant_property(net, op[1], val_in(op[2]), overwrite=True)
    elif op[0] == "fluid_scale":          # change a property's parameters in place
        _scale_property(net.fluid.all_properties[op[1]], op[2])
    elif op[0] == "fluid_restore":        # put (a copy of) the original property object back
        net.fluid.all_properties[op[1]] = copy.deepcopy(net0.fluid.all_properties[op[1]])
    elif op[0] == "fluid_swap":           # another library fluid on the net (and back)
        pp.create_fluid_from_lib(net, op[1], overwrite=True)
    elif op[0] == "fluid_original":
        net["fluid"] = copy.deepcopy(net0["fluid"])
    elif op[0] == "stdtype_new_pump":     # define a NEW pump standard type (copy of a library one) and switch a pump to it
        from pandapipes.std_types.std_types import create_pump_std_type
        obj = copy.deepcopy(net0.std_types["pump"][op[2]])
        obj.name = op[1]
        create_pump_std_type(net, op[1], obj, overwrite=True)
        net.pump.at[op[3], "std_type"] = op[1]
    elif op[0] == "stdtype_new_pipe":     # define a NEW pipe standard type and switch a pipe to it
        from pandapipes.std_types.std_types import create_std_type, change_std_type
        create_std_type(net, "pipe", op[1], dict(op[2]), overwrite=True)
        change_std_type(net, op[3], op[1], "pipe")
    elif op[0] == "row_restore":          # put the original row of an element table back
        net[op[1]].loc[op[2]] = net0[op[1]].loc[op[2]]
    elif op[0] == "add_component":        # first row of a component that the net did not use so far
        getattr(pp, op[1])(net, **copy.deepcopy(op[2]))
    elif op[0] == "drop_rows":
        net[op[1]].drop(index=list(net[op[1]].index), inplace=True)
    elif op[0] == "stdtype_swap":         # standard-type object replaced by (a copy of) another one
        net.std_types[op[1]][op[2]] = copy.deepcopy(net0.std_types[op[1]][op[3]])
    elif op[0] == "edit":
        _, t, row, col, val = op
        net[t].at[row, col] = val_in(val)
    elif op[0] == "setopts":
        pp.set_user_pf_options(net, **op[1])
    elif op[0] == "resetopts":
        pp.set_user_pf_options(net, reset=True)
    else:
        raise ValueError(op)


def cell(net, t, row, col):
    v = net[t].at[row, col]
    if isinstance(v, (float, np.floating)) and math.isnan(v):
        return None
    if isinstance(v, np.generic):
        return v.item()
    return v


def with_second_supply_area(spec, rng, kw=None):
    """if part of the net is not reached from any supply (generated island), give it an external grid of its own:
    two supply areas, so that switching a supply point changes what is calculated while all branch flags stay the
    same.  Returns (spec, changed)"""
    from harness import gen
    net0 = gen.build(spec)
    probe = copy.deepcopy(net0)
    if not len(net0.ext_grid) or do_run(probe, kw or {"use_numba": False})[0] != "ok":
        return spec, False
    dead = [int(j) for j in probe.res_junction.index[np.isnan(probe.res_junction.p_bar.values)]
            if bool(probe.junction.at[j, "in_service"])]
    if not dead:
        return spec, False
    eg = net0.ext_grid.iloc[0]
    op = ["create_ext_grid", {"junction": rng.choice(dead), "p_bar": float(eg.p_bar), "t_k": float(eg.t_k),
                              "index": int(max(net0.ext_grid.index)) + 1}]
    return dict(spec, ops=spec["ops"] + [op]), True
