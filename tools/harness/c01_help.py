"""Helpers shared by the C01 and C03 checks (tools/props/c01.py, c03.py).

* augment(rng, spec, profile)      adds what harness/gen.py does not generate: pressure controllers (leaf and
                                   meshed), several ext grids with *different* pressures / types on one junction,
                                   circulation pumps next to ext grids (spec stays a public-API build script)
* matrix_cases / step_cases / constflow_cases / fixed_cases
                                   drive the REAL functions on real structural pits with integer / dyadic data
                                   and return Coq records (coq/C01/Corr.v) carrying the implementation's outputs
* monitors_c01 / monitors_c03      property conclusions on real pipeflow results
"""
import copy
import math
import sys
from fractions import Fraction

import numpy as np

from harness import gen, drive
from vlib import cz, cnat, cbool, clist, cq

TIGHT = dict(tol_p=1e-10, tol_m=1e-10, tol_res=1e-10, iter=100)


# ----------------------------------------------------------------------------------------------- nets
def _junction_ops(spec):
    return [kw for fn, kw in spec["ops"] if fn == "create_junction"]


def _free_label(spec, table_fn, start=900000):
    used = {kw.get("index") for fn, kw in spec["ops"] if fn == table_fn}
    l = start
    while l in used:
        l += 1
    return l


def augment(rng, spec, profile, force=None):
    """returns a new spec; `force` may contain 'pc', 'multi_eg', 'circ' to force a feature"""
    spec = copy.deepcopy(spec)
    force = force or []
    jops = _junction_ops(spec)
    in_js = [kw["index"] for kw in jops if kw.get("in_service", True)]
    eg_j = [kw["junction"] for fn, kw in spec["ops"] if fn == "create_ext_grid"]
    p0 = next(kw["p_bar"] for fn, kw in spec["ops"] if fn == "create_ext_grid")
    t0 = jops[0]["tfluid_k"]
    supplied = _main_component(spec)
    feats = []
    # several pressure-fixing elements on one junction, different pressures and types
    if "multi_eg" in force or rng.random() < 0.45:
        j = eg_j[0]
        for _ in range(rng.randint(1, 2)):
            spec["ops"].append(["create_ext_grid", dict(
                junction=j, p_bar=p0 * rng.choice([0.5, 0.75, 1.25, 1.5]), t_k=t0,
                type=rng.choice(["p", "pt", "pt", "t"]), in_service=rng.random() < 0.85,
                index=_free_label(spec, "create_ext_grid", 7000))])
        feats.append("multi_eg")
    # pressure controllers: leaf (always well posed) or between a supplied junction and a new one that is meshed back
    n_pc = 0
    if "pc" in force or rng.random() < 0.45:
        n_pc = rng.randint(1, 2)
    cand = [j for j in supplied if j in in_js]
    for k in range(n_pc):
        if not cand:
            break
        a = rng.choice(cand)
        jn = _free_label(spec, "create_junction", 800000 + 10 * k)
        spec["ops"].append(["create_junction", dict(pn_bar=p0, tfluid_k=t0, height_m=0., index=jn)])
        active = rng.random() < 0.8
        rev = rng.random() < 0.3 and active     # controlled junction = from junction is not allowed physically; keep to
        spec["ops"].append(["create_pressure_control", dict(
            from_junction=a, to_junction=jn, controlled_junction=jn,
            controlled_p_bar=p0 * rng.choice([0.5, 0.7, 0.9]), control_active=active,
            in_service=rng.random() < 0.9, loss_coefficient=0., check_controllability=False,
            index=_free_label(spec, "create_pressure_control", rng.choice([0, 40, 100003])))])
        scale = 0.02 if profile == "gas" else 0.5
        spec["ops"].append(["create_sink", dict(junction=jn, mdot_kg_per_s=scale * rng.choice([0.2, 0.6]),
                                                index=_free_label(spec, "create_sink", 5000 + k))])
        if rng.random() < 0.4 and len(cand) > 1:
            c = rng.choice([x for x in cand if x != a])
            spec["ops"].append(["create_pipe_from_parameters", dict(
                from_junction=jn, to_junction=c, length_km=0.3, inner_diameter_mm=80., k_mm=0.1, sections=1,
                index=_free_label(spec, "create_pipe_from_parameters", 6000 + k))])
        feats.append("pc")
    # a circulation pump whose flow junction carries an ext grid as well (mean over both classes)
    if profile == "water" and ("circ" in force or rng.random() < 0.25) and len(cand) > 1:
        # flow junction with an ext grid (mean over both classes, slack mass reported by the ext grid) or WITHOUT one
        # (pressure-fixed junction whose slack mass no table reports: it must stay ~0, C01.9)
        fl = eg_j[0] if rng.random() < 0.5 else rng.choice(cand)
        ret = rng.choice([x for x in cand if x != fl])
        if rng.random() < 0.5:
            spec["ops"].append(["create_circ_pump_const_pressure", dict(
                return_junction=ret, flow_junction=fl, p_flow_bar=p0 * rng.choice([1.0, 1.5]), plift_bar=1.0,
                t_flow_k=t0, in_service=rng.random() < 0.9, index=_free_label(spec, "create_circ_pump_const_pressure", 3))])
        else:
            spec["ops"].append(["create_circ_pump_const_mass_flow", dict(
                return_junction=ret, flow_junction=fl, p_flow_bar=p0 * rng.choice([1.0, 0.5]), mdot_flow_kg_per_s=0.2,
                t_flow_k=t0, in_service=rng.random() < 0.9, index=_free_label(spec, "create_circ_pump_const_mass_flow", 3))])
        feats.append("circ")
    # several pumps of DIFFERENT std types feeding leaf junctions, out-of-service ones possibly in front
    if profile == "water" and ("pumps" in force or rng.random() < 0.3) and cand:
        types = ["P1", "P2", "P3"]
        rng.shuffle(types)
        k = rng.randint(2, 3)
        oos_first = rng.random() < 0.6
        for q in range(k):
            a = rng.choice(cand)
            jn = _free_label(spec, "create_junction", 810000 + 10 * q)
            spec["ops"].append(["create_junction", dict(pn_bar=p0, tfluid_k=t0 + rng.choice([0., 15., 40., -8.]), height_m=0.,
                                                        index=jn)])
            ins = not (q == 0 and oos_first) and rng.random() < 0.9
            spec["ops"].append(["create_pump", dict(from_junction=a, to_junction=jn, std_type=types[q], in_service=ins,
                                                    index=_free_label(spec, "create_pump", rng.choice([0, 50, 100009]) + (k - q)))])
            spec["ops"].append(["create_sink", dict(junction=jn, mdot_kg_per_s=rng.choice([0.5, 1.5, 3.0, 6.0]),
                                                    index=_free_label(spec, "create_sink", 5100 + q))])
        feats.append("pumps")
    # compressor stations (gas): leaf junction at the SAME height as the inlet, forward flow guaranteed by a sink;
    # different ratios, out-of-service units possibly in front
    if profile == "gas" and ("compressors" in force or rng.random() < 0.3) and cand:
        hof = {kw["index"]: kw.get("height_m", 0.) for kw in _junction_ops(spec)}
        k = rng.randint(1, 3)
        ratios = rng.sample([0.8, 0.9, 1.0, 1.05, 1.2, 1.5, 1.8], k)      # below, at and above 1: the property makes no exception
        for q in range(k):
            a = rng.choice(cand)
            jn = _free_label(spec, "create_junction", 820000 + 10 * q)
            spec["ops"].append(["create_junction", dict(pn_bar=p0, tfluid_k=t0, height_m=hof.get(a, 0.), index=jn)])
            ins = not (q == 0 and k > 1 and rng.random() < 0.5)
            spec["ops"].append(["create_compressor", dict(from_junction=a, to_junction=jn, pressure_ratio=ratios[q],
                                                          in_service=ins, index=_free_label(spec, "create_compressor", rng.choice([0, 30]) + (k - q)))])
            spec["ops"].append(["create_sink", dict(junction=jn, mdot_kg_per_s=rng.choice([0.005, 0.02, 0.05]),
                                                    index=_free_label(spec, "create_sink", 5200 + q))])
        feats.append("compressors")
    # stand-by pressure controllers: same branch and controlled junction as an existing one, other flags / set-point
    pcs = [kw for fn, kw in spec["ops"] if fn == "create_pressure_control"]
    if pcs and ("standby" in force or rng.random() < 0.6):
        main = rng.choice(pcs)
        sb = copy.deepcopy(main)
        sb["index"] = _free_label(spec, "create_pressure_control", main["index"] + rng.choice([-1, 1, 7]))
        sb["controlled_p_bar"] = main["controlled_p_bar"] * rng.choice([0.8, 0.9, 1.1])
        sb["in_service"] = False
        sb["control_active"] = rng.random() < 0.75
        pos = next(i for i, (fn, kw) in enumerate(spec["ops"]) if fn == "create_pressure_control" and kw is main)
        spec["ops"].insert(pos + (1 if rng.random() < 0.6 else 0), ["create_pressure_control", sb])
        feats.append("standby_pc")
    spec["features"] = feats
    return shadow(rng, altitude(rng, spec))


def altitude(rng, spec, force=False):
    """the whole network at an altitude well away from 0 (ambient pressure != NORMAL_PRESSURE everywhere;
    height differences are kept): every clause on absolute pressures must use p_amb(height)"""
    h0 = rng.choice([0., 0., 400., 1200., 2500., -150.])
    if force and h0 == 0.:
        h0 = 1200.
    if h0:
        for kw in _junction_ops(spec):
            kw["height_m"] = kw.get("height_m", 0.) + h0
        spec["features"] = list(spec.get("features", [])) + ["altitude"]
    # junction temperatures that differ along the net (in a hydraulic run they stay as given): every clause that
    # involves a density / volume flow must use the same temperature the result tables are computed with
    if rng.random() < 0.5:
        for kw in _junction_ops(spec):
            kw["tfluid_k"] = kw["tfluid_k"] + rng.choice([0., 0., 12., 35., -6.])
        spec["features"] = list(spec.get("features", [])) + ["temperatures"]
    return spec


def leaks(rng, spec):
    """heating loop (circulation pump, no ext grid on its flow junction) with withdrawals / injections, optionally a
    further ext grid somewhere else.  By the property the result - if one is returned - balances at every junction incl.
    the pump's flow junction (whose slack mass no table reports); PipeflowNotConverged is the other legal outcome."""
    r = rng.random()
    if r < 0.45:
        return spec
    js = [kw["index"] for kw in _junction_ops(spec)]
    p0 = _junction_ops(spec)[0]["pn_bar"]
    for q in range(rng.randint(1, 2)):
        fn = rng.choice(["create_sink", "create_sink", "create_source"])
        spec["ops"].append([fn, dict(junction=rng.choice(js), mdot_kg_per_s=rng.choice([0.05, 0.1, 0.3]),
                                     scaling=rng.choice([1., 2.]), index=_free_label(spec, fn, 5300 + q))])
    if rng.random() < 0.5:
        pumps = [kw["flow_junction"] for f, kw in spec["ops"] if f.startswith("create_circ_pump")]
        oth = [j for j in js if j not in pumps]
        spec["ops"].append(["create_ext_grid", dict(junction=rng.choice(oth), p_bar=p0 * rng.choice([0.8, 0.9]), t_k=350.,
                                                    type=rng.choice(["p", "pt"]), index=_free_label(spec, "create_ext_grid", 7100))])
    spec["features"] = list(spec.get("features", [])) + ["leaks"]
    return spec


SHADOW = {   # table create function -> (set-point keys that get a different value in the shadow row)
    "create_ext_grid": ["p_bar"], "create_flow_control": ["controlled_mdot_kg_per_s"], "create_compressor": ["pressure_ratio"],
    "create_pump": ["std_type"], "create_sink": ["mdot_kg_per_s", "scaling"], "create_source": ["mdot_kg_per_s", "scaling"],
    "create_mass_storage": ["mdot_kg_per_s"], "create_circ_pump_const_pressure": ["p_flow_bar", "plift_bar"],
    "create_circ_pump_const_mass_flow": ["p_flow_bar", "mdot_flow_kg_per_s"], "create_heat_consumer": ["controlled_mdot_kg_per_s"],
    "create_pipe_from_parameters": ["inner_diameter_mm"], "create_heat_exchanger": ["qext_w"],
}


def shadow(rng, spec):
    """Out-of-service twins with different set-points, placed BEFORE the first row of their table or right after
    their original (row order != label order): nothing of them may show in any result."""
    spec = copy.deepcopy(spec)
    n = 0
    for fn, keys in SHADOW.items():
        idxs = [i for i, (f, kw) in enumerate(spec["ops"]) if f == fn]
        # (an out-of-service circulation pump next to an in-service one made pipeflow raise IndexError until /repo
        # commit ef981da; such twins are generated like all others now)
        if not idxs or rng.random() < 0.5:
            continue
        i = rng.choice(idxs)
        tw = copy.deepcopy(spec["ops"][i][1])
        tw["in_service"] = False
        for k in keys:
            if k not in tw or tw[k] is None:
                continue
            if k == "std_type":
                tw[k] = rng.choice([t for t in ("P1", "P2", "P3") if t != tw[k]])
            else:
                tw[k] = tw[k] * rng.choice([0.5, 2.0, 3.0]) if tw[k] else 1.0
        labels = [kw.get("index") for f, kw in spec["ops"] if f == fn and kw.get("index") is not None]
        if labels:
            lo = min(labels)
            tw["index"] = lo - 1 if (lo > 0 and rng.random() < 0.5) else _free_label(spec, fn, max(labels) + 1)
        refs = {tw.get(k) for k in ("junction", "from_junction", "to_junction", "return_junction", "flow_junction",
                                    "controlled_junction")} - {None}
        made = [q for q, (f, kw) in enumerate(spec["ops"]) if f == "create_junction" and kw.get("index") in refs]
        first_ok = max([idxs[0]] + [q + 1 for q in made])
        spec["ops"].insert(first_ok if (rng.random() < 0.6 and first_ok <= i) else i + 1, [fn, tw])
        n += 1
    if n:
        spec["features"] = list(spec.get("features", [])) + ["shadow_rows"]
    return spec


def mutate(rng, net):
    """table edits a time series would make between two steps (kept small so that the net stays solvable)"""
    for tbl in ("sink", "source", "mass_storage"):
        if tbl in net and len(net[tbl]):
            t = net[tbl]
            t["mdot_kg_per_s"] = t["mdot_kg_per_s"].values * rng.choice([0.6, 0.8, 1.2])
            if len(t) > 1 and rng.random() < 0.5:
                i = rng.choice(list(t.index))
                t.at[i, "in_service"] = not bool(t.at[i, "in_service"])
            if rng.random() < 0.3:
                t.at[rng.choice(list(t.index)), "scaling"] = rng.choice([0.5, 1.5])
    if len(net.ext_grid):
        net.ext_grid["p_bar"] = net.ext_grid["p_bar"].values * rng.choice([0.98, 1.01])
    if "flow_control" in net and len(net.flow_control):
        net.flow_control["controlled_mdot_kg_per_s"] = net.flow_control["controlled_mdot_kg_per_s"].values * 0.8
    if "press_control" in net and len(net.press_control):
        net.press_control["controlled_p_bar"] = net.press_control["controlled_p_bar"].values * 0.98


def _main_component(spec):
    """junctions connected to the first ext grid by in-service, open, non-controller branches (cheap estimate
    used only to place added elements)"""
    adj = {}
    for fn, kw in spec["ops"]:
        if kw.get("in_service") is False or kw.get("opened") is False:
            continue
        a = kw.get("from_junction", kw.get("junction") if fn == "create_valve" else None)
        b = kw.get("to_junction", kw.get("element") if fn == "create_valve" and kw.get("et") == "ju" else None)
        if a is None or b is None or fn in ("create_flow_control", "create_pump", "create_compressor"):
            continue
        adj.setdefault(a, set()).add(b)
        adj.setdefault(b, set()).add(a)
    start = next(kw["junction"] for fn, kw in spec["ops"] if fn == "create_ext_grid")
    seen, todo = {start}, [start]
    while todo:
        x = todo.pop()
        for y in adj.get(x, ()):
            if y not in seen:
                seen.add(y)
                todo.append(y)
    oos = {kw["index"] for kw in _junction_ops(spec) if kw.get("in_service") is False}
    return sorted(seen - oos)


def gen_spec(rng, profiles=("water", "gas"), size=None, force=None):
    profile = rng.choice(list(profiles))
    if profile == "heat":
        return shadow(rng, altitude(rng, leaks(rng, gen.gen_net(rng, "heat", size=size)))), profile
    spec = gen.gen_net(rng, profile, size=size)
    return augment(rng, spec, profile, force), profile


# ----------------------------------------------------------------------------------------------- real modules
def _mods():
    import pandapipes  # noqa: F401
    return (sys.modules["pandapipes.pipeflow"], sys.modules["pandapipes.pf.build_system_matrix"],
            sys.modules["pandapipes.idx_node"], sys.modules["pandapipes.idx_branch"],
            sys.modules["pandapipes.pf.pipeflow_setup"])


def prepare(net, **opts):
    """stages + the adaption_before hooks (PressureControl sets NODE_TYPE = PC there)"""
    pf, bsm, IN, IB, ps = _mods()
    st = drive.stages(net, **opts)
    nd, br = st["active_node_pit"], st["active_branch_pit"]
    lk = ps.get_lookup(net, "branch", "from_to_active_hydraulics")
    for comp in net["component_list"]:
        comp.adaption_before_derivatives_hydraulic(net, br, nd, net["_active_old_pit"]["branch"],
                                                   net["_active_old_pit"]["node"], lk, net["_options"])
    return nd, br


def _ints(x):
    a = np.asarray(x, dtype=float)
    if not np.all(np.isfinite(a)) or not np.all(a == np.round(a)):
        raise ValueError("non-integer value in an exact correspondence: %r" % a[:8])
    return [int(v) for v in a]


def inject(rng, nd, br, IN, IB):
    lo, hi = -9, 9
    for col in (IB.JAC_DERIV_DM, IB.JAC_DERIV_DP, IB.JAC_DERIV_DP1, IB.JAC_DERIV_DM_NODE, IB.LOAD_VEC_BRANCHES,
                IB.LOAD_VEC_NODES_FROM, IB.LOAD_VEC_NODES_TO):
        br[:, col] = [rng.randint(lo, hi) for _ in range(len(br))]
    for col in (IN.LOAD, IN.MDOTSLACKINIT, IN.JAC_DERIV_MSL):
        nd[:, col] = [rng.randint(lo, hi) for _ in range(len(nd))]


def matrix_case(rng, net, use_numba, update, second_call=False):
    """-> (coq record text, meta) ; raises on a non-integer output"""
    pf, bsm, IN, IB, ps = _mods()
    nd, br = prepare(net, use_numba=use_numba, only_update_hydraulic_matrix=update)
    inject(rng, nd, br, IN, IB)
    jac, eps = bsm.build_system_matrix(net, br, nd, False)
    if second_call:                 # the update-only path: same structure, fresh numbers
        inject(rng, nd, br, IN, IB)
        jac, eps = bsm.build_system_matrix(net, br, nd, False)
    assert IN.P != IN.PC
    typ = {IN.P: "TSlack", IN.PC: "TPc"}
    nodes = [(typ.get(int(t), "TOther"), l, m, d) for t, l, m, d in
             zip(nd[:, IN.NODE_TYPE], _ints(nd[:, IN.LOAD]), _ints(nd[:, IN.MDOTSLACKINIT]), _ints(nd[:, IN.JAC_DERIV_MSL]))]
    cols = [_ints(br[:, c]) for c in (IB.JAC_DERIV_DM, IB.JAC_DERIV_DP, IB.JAC_DERIV_DP1, IB.JAC_DERIV_DM_NODE,
                                      IB.LOAD_VEC_BRANCHES, IB.LOAD_VEC_NODES_FROM, IB.LOAD_VEC_NODES_TO)]
    fn, tn = _ints(br[:, IB.FROM_NODE]), _ints(br[:, IB.TO_NODE])
    pc = [bool(v == IB.PC) for v in br[:, IB.BRANCH_TYPE]]
    coo = jac.tocoo(copy=True)
    coo.sum_duplicates()
    vals = _ints(coo.data)
    real = [(int(r), int(c), v) for r, c, v in zip(coo.row, coo.col, vals)]
    epsl = _ints(eps)
    txt = ("mkM %s %s %s %s %s" % (
        clist(["nd %s %s %s %s" % (t, cz(l), cz(m), cz(d)) for t, l, m, d in nodes]),
        clist(["br %s %s %s %s" % (cnat(f), cnat(t), " ".join(cz(c[k]) for c in cols), cbool(pc[k]))
               for k, (f, t) in enumerate(zip(fn, tn))]),
        cnat(jac.shape[0]),
        clist(["(%s, %s, %s)" % (cnat(r), cnat(c), cz(v)) for r, c, v in real]),
        clist([cz(v) for v in epsl])))
    n_sl = sum(1 for t in nodes if t[0] == "TSlack")
    par = len(set(zip(fn, tn))) < len(fn)
    meta = {"n": len(nodes), "nb": len(fn), "slack": n_sl, "pc_nodes": sum(1 for t in nodes if t[0] == "TPc"),
            "pc_branches": sum(pc), "parallel": par, "numba": use_numba, "update": update, "second": second_call,
            "struct": [t[0] for t in nodes] + list(zip(fn, tn)) + pc}
    return "(" + txt + ")", meta


def _q(v):
    f = float(v)
    if not math.isfinite(f):
        raise ValueError("non-finite value in an exact correspondence")
    return cq(Fraction(f))


def step_case(rng, net, alpha):
    """real solve_hydraulics with a scripted integer solution vector and dyadic alpha"""
    pf, bsm, IN, IB, ps = _mods()
    drive.stages(net, use_numba=False)
    nd, br = net["_active_pit"]["node"], net["_active_pit"]["branch"]
    br[:, IB.MDOTINIT] = [rng.choice([-7, -3, -2, -1, 1, 2, 3, 5, 8]) for _ in range(len(br))]
    nd[:, IN.PINIT] = [rng.randint(2, 40) for _ in range(len(nd))]
    nd[:, IN.MDOTSLACKINIT] = [rng.randint(-9, 9) for _ in range(len(nd))]
    net["_options"]["alpha"] = alpha
    cap = {}
    orig_b, orig_s = pf.build_system_matrix, pf.spsolve

    def wrap_build(net_, b, n, heat):
        cap["dmn"] = b[:, IB.JAC_DERIV_DM_NODE].copy()
        cap["lvf"] = b[:, IB.LOAD_VEC_NODES_FROM].copy()
        cap["lvt"] = b[:, IB.LOAD_VEC_NODES_TO].copy()
        sl = np.where(n[:, IN.NODE_TYPE] == IN.P)[0]
        cap["dmsl"] = n[sl, IN.JAC_DERIV_MSL].copy()
        return orig_b(net_, b, n, heat)

    def fake_solve(jac, eps):
        cap["x"] = np.array([float(rng.randint(-12, 12)) for _ in range(jac.shape[0])])
        return cap["x"].copy()
    pf.build_system_matrix, pf.spsolve = wrap_build, fake_solve
    try:
        res, _, _ = pf.solve_hydraulics(net)
    finally:
        pf.build_system_matrix, pf.spsolve = orig_b, orig_s
    m_new, m_old, p_new, p_old, msl_new, msl_old = [np.array(a, dtype=float) for a in res]
    ql = lambda a: clist([_q(v) for v in a])  # noqa: E731
    txt = "(mkS %s %s %s %s %s %s %s %s %s %s %s %s %s %s)" % (
        _q(alpha), cnat(len(p_old)), cnat(len(m_old)), ql(m_old), ql(p_old), ql(msl_old), ql(cap["x"]),
        ql(m_new), ql(p_new), ql(msl_new), ql(cap["dmn"]), ql(cap["lvf"]), ql(cap["lvt"]), ql(cap["dmsl"]))
    return txt, {"n": len(p_old), "nb": len(m_old), "slack": len(msl_old), "alpha": alpha}


def constflow_cases(rng, net, use_numba=False):
    """real ConstFlow.create_pit_node_entries of Sink / Source / MassStorage on an integer LOAD column"""
    import pandapipes.component_models as cm
    pf, bsm, IN, IB, ps = _mods()
    drive.stages(net, use_numba=use_numba)
    out = []
    for comp in (cm.Sink, cm.Source, cm.MassStorage):
        tbl = comp.table_name()
        if tbl not in net or len(net[tbl]) == 0:
            continue
        t = net[tbl]
        t["mdot_kg_per_s"] = [float(rng.randint(-6, 9)) for _ in range(len(t))]
        t["scaling"] = [float(rng.choice([1, 1, 2, 3, 0, -1])) for _ in range(len(t))]
        node_pit = net["_pit"]["node"].copy()
        node_pit[:, IN.LOAD] = [rng.randint(-9, 9) for _ in range(len(node_pit))]
        before = _ints(node_pit[:, IN.LOAD])
        comp.create_pit_node_entries(net, node_pit)
        after = _ints(node_pit[:, IN.LOAD])
        lk = ps.get_lookup(net, "node", "index")["junction"]
        labels = sorted(set(int(j) for j in t.junction.values))
        rows = ["cf %s %s %s %s" % (cz(j), cz(m), cz(s), cbool(i)) for j, m, s, i in
                zip(t.junction.values, t.mdot_kg_per_s.values, t.scaling.values, t.in_service.values)]
        txt = "(mkL %s %s %s %s %s)" % (cz(int(comp.sign())), clist(["(%s, %s)" % (cz(l), cnat(lk[l])) for l in labels]),
                                        clist(rows), clist([cz(v) for v in before]), clist([cz(v) for v in after]))
        shared = len(labels) < len(t)
        out.append((txt, {"table": tbl, "rows": len(t), "shared_junction": shared,
                          "oos": int((~t.in_service.values).sum())}))
    return out


def fixed_case(rng, net):
    """real ExtGrid / CirculationPump*.create_pit_node_entries on a node pit with multiples of 60 as pressures
    (every mean over <= 6 elements is an exact integer)"""
    import pandapipes.component_models as cm
    pf, bsm, IN, IB, ps = _mods()
    drive.stages(net, use_numba=False)
    node_pit = net["_pit"]["node"].copy()
    n = len(node_pit)
    node_pit[:, IN.PINIT] = [60.0 * rng.randint(1, 9) for _ in range(n)]
    node_pit[:, IN.EXT_GRID_OCCURENCE] = 0
    node_pit[:, IN.NODE_TYPE] = IN.L
    lk = ps.get_lookup(net, "node", "index")["junction"]

    def state():
        return ["fxn %s %s %s" % (_q(p), cnat(int(c)), cbool(t == IN.P)) for p, c, t in
                zip(node_pit[:, IN.PINIT], node_pit[:, IN.EXT_GRID_OCCURENCE], node_pit[:, IN.NODE_TYPE])]
    before = state()
    calls, labels, n_valid = [], set(), {}
    for comp, jcol, pcol in ((cm.ExtGrid, "junction", "p_bar"), (cm.CirculationPumpPressure, "flow_junction", "p_flow_bar"),
                             (cm.CirculationPumpMass, "flow_junction", "p_flow_bar")):
        tbl = comp.table_name()
        if tbl not in net or len(net[tbl]) == 0:
            continue
        t = net[tbl]
        t[pcol] = [60.0 * rng.randint(1, 12) for _ in range(len(t))]
        comp.create_pit_node_entries(net, node_pit)
        act = t[t.in_service.values]
        rows = []
        for j, p, ty in zip(act[jcol].values, act[pcol].values, act.type.values):
            valid = ty in ("p", "pt")
            rows.append("fx %s %s %s" % (cz(j), _q(p), cbool(valid)))
            labels.add(int(j))
            if valid:
                n_valid[int(j)] = n_valid.get(int(j), 0) + 1
        calls.append(clist(rows))
    txt = "(mkF %s %s %s %s)" % (clist(["(%s, %s)" % (cz(l), cnat(lk[l])) for l in sorted(labels)]), clist(calls),
                                 clist(before), clist(state()))
    return txt, {"calls": len(calls), "max_on_one_junction": max(n_valid.values()) if n_valid else 0}


def _oq(v):
    f = float(v)
    return "None" if math.isnan(f) else "(Some %s)" % cq(Fraction(f))


def extgrid_result_case(rng, net):
    """real ExtGrid.extract_results on a node pit whose MDOTSLACKINIT are multiples of 60 (even split over <= 6
    ext grids is exact); in_service / type flags re-drawn so that out-of-service and t-type rows sit between p rows"""
    import pandapipes.component_models as cm
    pf, bsm, IN, IB, ps = _mods()
    t = net.ext_grid
    if len(t) > 1:
        keep = rng.randrange(len(t))                       # one in-service p grid stays (the net must stay supplied)
        for k, idx in enumerate(t.index):
            if k != keep:
                t.at[idx, "in_service"] = rng.random() < 0.6
                t.at[idx, "type"] = rng.choice(["p", "pt", "pt", "t"])
    drive.stages(net, use_numba=False)
    node_pit = net["_pit"]["node"]
    node_pit[:, IN.MDOTSLACKINIT] = [60.0 * rng.randint(-9, 9) for _ in range(len(node_pit))]
    cm.ExtGrid.extract_results(net, net["_options"], None, "hydraulics")
    lk = ps.get_lookup(net, "node", "index")["junction"]
    labels = sorted(set(int(j) for j in t.junction.values))
    rows = ["eg %s %s %s" % (cz(j), cbool(ty in ("p", "pt")), cbool(bool(s))) for j, ty, s in
            zip(t.junction.values, t.type.values, t.in_service.values)]
    txt = "(mkE %s %s %s %s)" % (clist(["(%s, %s)" % (cz(l), cnat(lk[l])) for l in labels]), clist(rows),
                                 clist([_q(v) for v in node_pit[:, IN.MDOTSLACKINIT]]),
                                 clist([_oq(v) for v in net.res_ext_grid.mdot_kg_per_s.values]))
    act = [int(j) for j, ty, s in zip(t.junction.values, t.type.values, t.in_service.values) if s and ty in ("p", "pt")]
    return txt, {"rows": len(t), "max_active_on_one_junction": max([act.count(j) for j in act] or [0]),
                 "inactive_rows": len(t) - len(act)}


def constflow_result_cases(rng, net):
    """real ConstFlow.extract_results of Sink / Source / MassStorage with integer mdot / scaling"""
    import pandapipes.component_models as cm
    pf, bsm, IN, IB, ps = _mods()
    for tbl in ("sink", "source", "mass_storage"):
        if tbl in net and len(net[tbl]):
            net[tbl]["mdot_kg_per_s"] = [float(rng.randint(-6, 9)) for _ in range(len(net[tbl]))]
            net[tbl]["scaling"] = [float(rng.choice([1, 1, 2, 3, 0, -1])) for _ in range(len(net[tbl]))]
    drive.stages(net, use_numba=False)
    lk = ps.get_lookup(net, "node", "index")["junction"]
    active = ps.get_lookup(net, "node", "active_hydraulics")
    supplied = [int(j) for j in net.junction.index if active[lk[int(j)]]]
    out = []
    for comp in (cm.Sink, cm.Source, cm.MassStorage):
        tbl = comp.table_name()
        if tbl not in net or len(net[tbl]) == 0:
            continue
        t = net[tbl]
        comp.extract_results(net, net["_options"], None, "hydraulics")
        res = net["res_" + tbl].mdot_kg_per_s.values
        resl = ["None" if math.isnan(float(v)) else "(Some %s)" % cz(_ints([v])[0]) for v in res]
        rows = ["cf %s %s %s %s" % (cz(j), cz(m), cz(sc), cbool(bool(i))) for j, m, sc, i in
                zip(t.junction.values, t.mdot_kg_per_s.values, t.scaling.values, t.in_service.values)]
        txt = "(mkR %s %s %s)" % (clist([cz(j) for j in supplied]), clist(rows), clist(resl))
        n_unsup = sum(1 for j in t.junction.values if int(j) not in supplied)
        out.append((txt, {"table": tbl, "rows": len(t), "unsupplied_rows": n_unsup, "oos": int((~t.in_service.values).sum())}))
    return out


def sumbygroup_cases(rng, n):
    """real _sum_by_group (numpy path, numba dense accumulator, numba sparse-label fallback) on unsorted, repeated,
    dense / sparse / high integer labels with one or two integer value arrays -> gcase records + metas"""
    import pandapipes  # noqa: F401
    tb = sys.modules["pandapipes.pf.internals_toolbox"]
    out = []
    for k in range(n):
        L = rng.randint(1, 14)
        regime = ["dense", "sparse", "high", "mixed"][k % 4]
        pool = {"dense": list(range(0, max(2, L // 2 + 1))),
                "sparse": rng.sample(range(0, 40 * L + 50), max(2, L // 2 + 1)),
                "high": rng.sample(range(100000, 100000 + 50 * L + 50), max(2, L // 2 + 1)),
                "mixed": [0, 1, 2] + rng.sample(range(10 * L, 2000 * L + 100), max(1, L // 3))}[regime]
        labels = [rng.choice(pool) for _ in range(L)]
        if L >= 3:                                 # a repeated label separated by another one
            a, b = rng.sample(pool, 2)
            i = rng.randrange(L - 2)
            labels[i], labels[i + 1], labels[i + 2] = a, b, a
        vals = [rng.randint(-9, 9) for _ in range(L)]
        use_numba = k % 2 == 1
        dt = [np.int64, np.uint32, np.int32][k % 3]         # table columns are u4, pit lookups int32 / int64
        ind = np.array(labels, dtype=dt)
        v1 = np.array(vals, dtype=np.float64)
        if k % 5 == 0:
            res = tb._sum_by_group(use_numba, ind, v1, np.ones_like(v1, dtype=np.int32))
            got = [(int(i), _ints([s])[0]) for i, s in zip(res[0], res[1])]
            cnt = [(int(i), _ints([s])[0]) for i, s in zip(res[0], res[2])]
            out.append(("(mkG %s %s)" % (clist(["(%s, 1%%Z)" % cz(l) for l in labels]),
                                         clist(["(%s, %s)" % (cz(i), cz(s)) for i, s in cnt])),
                        {"regime": regime, "numba": use_numba, "len": L, "arrays": 2}))
        else:
            res = tb._sum_by_group(use_numba, ind, v1)
            got = [(int(i), _ints([s])[0]) for i, s in zip(res[0], res[1])]
        out.append(("(mkG %s %s)" % (clist(["(%s, %s)" % (cz(l), cz(v)) for l, v in zip(labels, vals)]),
                                     clist(["(%s, %s)" % (cz(i), cz(s)) for i, s in got])),
                    {"regime": regime, "numba": use_numba, "len": L, "arrays": 1}))
    return out


MATRIX_HEAD = ("From Coq Require Import ZArith QArith List Bool.\nFrom PP Require Import C01.Model C01.Corr.\n"
               "Import ListNotations.\n")


def cases_file(kind, records):
    okf = {"m": "mcase_ok", "s": "scase_ok", "l": "lcase_ok", "f": "fcase_ok", "e": "ecase_ok", "r": "rcase_ok", "g": "gcase_ok"}[kind]
    typ = {"m": "mcase", "s": "scase", "l": "lcase", "f": "fcase", "e": "ecase", "r": "rcase", "g": "gcase"}[kind]
    return MATRIX_HEAD + "Definition cs : list %s := [\n%s\n].\nEval vm_compute in (summary %s cs).\n" % (
        typ, ";\n".join(records), okf)


def run_corr(ctx, kind, name, records, chunk=60):
    """evaluate in Coq; returns (n, mismatches, [global indices of first bad per chunk])"""
    n_tot = n_mis = 0
    bad = []
    for s in range(0, len(records), chunk):
        trip, out = ctx.coq_counts(cases_file(kind, records[s:s + chunk]), "%s_%d" % (kind, s // chunk))
        if not trip:
            ctx.broken("correspondence", name + " (coqc failed)", out[-800:])
            return n_tot, n_mis, bad, False
        n, m, first = trip[0]
        n_tot += n
        n_mis += m
        if m:
            bad.append(s + first)
    ctx.corr(name, n_tot, n_mis)
    return n_tot, n_mis, bad, True


# ----------------------------------------------------------------------------------------------- monitors
BRANCH_TABLES = ["pipe", "valve", "pump", "compressor", "flow_control", "press_control", "heat_exchanger",
                 "heat_consumer", "circ_pump_mass", "circ_pump_pressure"]


def _ends(net, tbl):
    t = net[tbl]
    if tbl == "valve":
        return t["junction"].values, t["element"].values
    if tbl.startswith("circ_pump"):
        return t["return_junction"].values, t["flow_junction"].values
    return t["from_junction"].values, t["to_junction"].values


def run_pipeflow(net, **kw):
    import pandapipes as pp
    from pandapipes.pf.pipeflow_setup import PipeflowNotConverged
    opts = dict(TIGHT)
    opts.update(kw)
    try:
        pp.pipeflow(net, **opts)
        return "ok", ""
    except PipeflowNotConverged as e:
        return "notconv", str(e)[:200]
    except Exception as e:  # noqa: BLE001
        return type(e).__name__, str(e)[:200]


def junction_balance(net):
    """-> list of (junction, imbalance, sum_abs, bound, is_circ_flow_junction) and the global triple"""
    import pandas as pd  # noqa: F401
    p = net.res_junction.p_bar
    supplied = {int(j) for j in p.index[~np.isnan(p.values)]}
    out = {j: 0.0 for j in supplied}
    mag = {j: 0.0 for j in supplied}

    def add(j, v):
        j = int(j)
        if j in out and not np.isnan(v):
            out[j] += v
            mag[j] += abs(v)
    # pipe ends that sit behind a junction-pipe valve are not at the junction itself
    behind = set()
    if "valve" in net and len(net.valve):
        for vi, row in net.valve.iterrows():
            if row["et"] == "pi" and int(row["element"]) in net.pipe.index:
                pj = net.pipe.loc[int(row["element"])]
                end = "from" if int(pj.from_junction) == int(row["junction"]) else "to"
                behind.add((int(row["element"]), end))
    for tbl in BRANCH_TABLES:
        if tbl not in net or len(net[tbl]) == 0:
            continue
        res = net["res_" + tbl]
        fj, tj = _ends(net, tbl)
        mf, mt = res["mdot_from_kg_per_s"].values, res["mdot_to_kg_per_s"].values
        for k, idx in enumerate(net[tbl].index):
            if tbl == "valve" and net.valve.at[idx, "et"] == "pi":
                add(fj[k], mf[k])
                continue
            if not (tbl == "pipe" and (int(idx), "from") in behind):
                add(fj[k], mf[k])
            if not (tbl == "pipe" and (int(idx), "to") in behind):
                add(tj[k], mt[k])
    for tbl, sgn in (("sink", 1.0), ("mass_storage", 1.0), ("source", -1.0), ("ext_grid", 1.0)):
        if tbl in net and len(net[tbl]):
            for j, v in zip(net[tbl].junction.values, net["res_" + tbl].mdot_kg_per_s.values):
                add(j, sgn * v)
    circ_flow = set()
    for tbl in ("circ_pump_mass", "circ_pump_pressure"):
        if tbl in net and len(net[tbl]):
            circ_flow |= {int(j) for j, s in zip(net[tbl].flow_junction.values, net[tbl].in_service.values) if s}
    rows = []
    for j in sorted(out):
        rows.append((j, out[j], mag[j], 1e-9 * (1 + mag[j]), j in circ_flow))
    # global: feed-in of pressure-fixing elements = consumption - injection
    def tot(tbl):
        if tbl in net and len(net[tbl]):
            v = net["res_" + tbl].mdot_kg_per_s.values
            return float(np.nansum(v)), float(np.nansum(np.abs(v)))
        return 0.0, 0.0
    feed, a1 = tot("ext_grid")
    cons = tot("sink")[0] + tot("mass_storage")[0] - tot("source")[0]
    a2 = tot("sink")[1] + tot("mass_storage")[1] + tot("source")[1]
    return rows, (feed, cons, a1 + a2, bool(circ_flow))


def setpoints(net):
    """C03: list of (clause, element table, index, observed, expected, tolerance)"""
    from pandapipes.component_models.component_toolbox import p_correction_height_air
    out = []
    pj = net.res_junction.p_bar
    sup = lambda j: int(j) in pj.index and not np.isnan(pj.at[int(j)])  # noqa: E731
    rel = 1e-9
    # pressure-fixing elements: mean over all in-service p/pt ext grids and circulation pumps at the junction
    vals = {}
    if len(net.ext_grid):
        for j, p, ty, s in zip(net.ext_grid.junction.values, net.ext_grid.p_bar.values, net.ext_grid.type.values,
                               net.ext_grid.in_service.values):
            if s and ty in ("p", "pt"):
                vals.setdefault(int(j), []).append(float(p))
    for tbl in ("circ_pump_mass", "circ_pump_pressure"):
        if tbl in net and len(net[tbl]):
            t = net[tbl]
            for j, p, ty, s in zip(t.flow_junction.values, t.p_flow_bar.values, t.type.values, t.in_service.values):
                if s and ty in ("p", "pt"):
                    vals.setdefault(int(j), []).append(float(p))
    pcs = {}
    if "press_control" in net and len(net.press_control):
        t = net.press_control
        for idx, j, p, a, s, fj, tj in zip(t.index, t.controlled_junction.values, t.controlled_p_bar.values,
                                           t.control_active.values, t.in_service.values, t.from_junction.values,
                                           t.to_junction.values):
            # a controller is part of the returned solution iff both of its end junctions are supplied (C04 decides
            # what is supplied); otherwise its result row is NaN and its set-point is only a start value
            if a and s and sup(fj) and sup(tj):
                pcs.setdefault(int(j), []).append((int(idx), float(p)))
    for j, v in vals.items():
        if sup(j) and j not in pcs:
            out.append(("fixed_pressure_mean", "junction", j, float(pj.at[j]), sum(v) / len(v), rel * (1 + abs(sum(v) / len(v))),
                        {"n_elements": len(v)}))
    for j, l in pcs.items():
        if sup(j) and len(l) == 1 and j not in vals:
            out.append(("controlled_pressure", "press_control", l[0][0], float(pj.at[j]), l[0][1], rel * (1 + abs(l[0][1])), {}))
    if "flow_control" in net and len(net.flow_control):
        t, r = net.flow_control, net.res_flow_control
        for idx, a, s, m, fj, tj in zip(t.index, t.control_active.values, t.in_service.values,
                                        t.controlled_mdot_kg_per_s.values, t.from_junction.values, t.to_junction.values):
            if a and s and sup(fj) and sup(tj):
                out.append(("flow_control_mdot", "flow_control", int(idx), float(r.at[idx, "mdot_from_kg_per_s"]), float(m),
                            rel * (1 + abs(m)), {}))
    if "heat_consumer" in net and len(net.heat_consumer):
        t, r = net.heat_consumer, net.res_heat_consumer
        for idx, s, m, fj, tj in zip(t.index, t.in_service.values, t.controlled_mdot_kg_per_s.values, t.from_junction.values,
                                     t.to_junction.values):
            if s and sup(fj) and sup(tj) and not np.isnan(m):
                out.append(("heat_consumer_mdot", "heat_consumer", int(idx), float(r.at[idx, "mdot_from_kg_per_s"]), float(m),
                            rel * (1 + abs(m)), {}))
    if "circ_pump_mass" in net and len(net.circ_pump_mass):
        t, r = net.circ_pump_mass, net.res_circ_pump_mass
        for idx, s, m, fj, rj in zip(t.index, t.in_service.values, t.mdot_flow_kg_per_s.values, t.flow_junction.values,
                                     t.return_junction.values):
            if s and sup(fj) and sup(rj):
                out.append(("circ_pump_mass_mdot", "circ_pump_mass", int(idx), float(r.at[idx, "mdot_from_kg_per_s"]), float(m),
                            rel * (1 + abs(m)), {}))
    if "circ_pump_pressure" in net and len(net.circ_pump_pressure):
        t, r = net.circ_pump_pressure, net.res_circ_pump_pressure
        for idx, s, pl, fj, rj in zip(t.index, t.in_service.values, t.plift_bar.values, t.flow_junction.values,
                                      t.return_junction.values):
            if s and sup(fj) and sup(rj) and len(vals.get(int(fj), [])) == 1:
                h = float(net.junction.at[int(fj), "height_m"]) - float(net.junction.at[int(rj), "height_m"])
                if h == 0.0:
                    out.append(("circ_pump_lift", "circ_pump_pressure", int(idx),
                                float(pj.at[int(fj)] - pj.at[int(rj)]), float(pl), 1e-8 * (1 + abs(pl)), {}))
    if "compressor" in net and len(net.compressor):
        t, r = net.compressor, net.res_compressor
        for idx, s, ratio, fj, tj in zip(t.index, t.in_service.values, t.pressure_ratio.values, t.from_junction.values,
                                         t.to_junction.values):
            if s and sup(fj) and sup(tj):
                m = float(r.at[idx, "mdot_from_kg_per_s"])
                pa_f = float(p_correction_height_air(net.junction.at[int(fj), "height_m"])) + float(pj.at[int(fj)])
                pa_t = float(p_correction_height_air(net.junction.at[int(tj), "height_m"])) + float(pj.at[int(tj)])
                hdiff = float(net.junction.at[int(fj), "height_m"]) - float(net.junction.at[int(tj), "height_m"])
                if m > 1e-8 and hdiff == 0.0:
                    out.append(("compressor_ratio", "compressor", int(idx), pa_t, ratio * pa_f, 1e-8 * (1 + pa_t), {"mdot": m}))
                elif m < -1e-8 and hdiff == 0.0:
                    out.append(("compressor_reverse_no_lift", "compressor", int(idx), pa_t, pa_f, 1e-8 * (1 + pa_t), {"mdot": m}))
    if "pump" in net and len(net.pump) and not net.fluid.is_gas:
        t, r = net.pump, net.res_pump
        for idx, s, st, fj, tj in zip(t.index, t.in_service.values, t.std_type.values, t.from_junction.values, t.to_junction.values):
            if s and sup(fj) and sup(tj):
                vdot = float(r.at[idx, "vdot_m3_per_s"])
                exp = float(net.std_types["pump"][st].get_pressure(vdot))
                tf = float(net.res_junction.at[int(fj), "t_k"]) if "t_k" in net.res_junction else float("nan")
                # what the hook evaluates: the curve at mdot / rho(NORMAL_TEMPERATURE) (pump_component.py)
                from pandapipes.constants import NORMAL_TEMPERATURE
                mdot = float(r.at[idx, "mdot_from_kg_per_s"])
                exp_n = float(net.std_types["pump"][st].get_pressure(mdot / float(net.fluid.get_density(NORMAL_TEMPERATURE))))
                obs = float(r.at[idx, "deltap_bar"])
                explained = abs(obs - exp_n) <= 1e-8 * (1 + abs(exp_n))
                # (auxiliary value only: it classifies a mismatch of the clause below as the known density finding;
                #  it is not a clause of its own, so the check stays valid once the pump uses the real density)
                out.append(("pump_lift_curve", "pump", int(idx), obs, exp, 1e-7 * (1 + abs(exp)),
                            {"vdot": vdot, "t_from_k": float(net.junction.at[int(fj), "tfluid_k"]), "std_type": st,
                             "explained_by_normal_density": bool(explained)}))
    for tbl in ("sink", "source", "mass_storage"):
        if tbl in net and len(net[tbl]):
            t, r = net[tbl], net["res_" + tbl]
            for idx, j, m, sc, s in zip(t.index, t.junction.values, t.mdot_kg_per_s.values, t.scaling.values, t.in_service.values):
                obs = float(r.at[idx, "mdot_kg_per_s"])
                if s and sup(j):
                    out.append(("constflow_result", tbl, int(idx), obs, float(m * sc), 1e-12 * (1 + abs(m * sc)), {}))
                elif not np.isnan(obs):
                    out.append(("constflow_result_nan", tbl, int(idx), obs, float("nan"), 0.0,
                                {"in_service": bool(s), "supplied": bool(sup(j))}))
    return out
