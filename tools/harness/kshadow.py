"""Float shadow of the kernel translator (DESIGN 2.1, thorough tier): the expression tree the translator extracts from a
kernel is re-emitted over PrimFloat (constants not folded) and evaluated inside Coq (vm_compute) on inputs given as
float.hex() literals; the results must equal what the real numpy kernel returned BIT FOR BIT (NaN = NaN; the sign of zero is
not distinguished).  Kernels: those whose operations PrimFloat has (+ - * / abs max, x**2 = x*x, comparisons):
derivatives_hydraulic_incomp_np, derivatives_hydraulic_comp_np, calc_derived_values_np."""
import numpy as np

from translate import kernels as K

SUMMARY = """Fixpoint first_bad (l : list bool) (i : Z) : Z :=
  match l with [] => (-1)%Z | b :: r => if b then first_bad r (i + 1)%Z else i end.
Definition fsummary (l : list bool) : nat * nat * Z := (length l, length (filter negb l), first_bad l 0%Z).
"""


def hexlit(x):
    x = float(x)
    if x != x:
        return "nan"
    if x in (float("inf"), float("-inf")):
        return "infinity" if x > 0 else "neg_infinity"
    h = x.hex()
    return "(%s)" % h if h.startswith("-") else h


def shadow_cases(rng, n_rows):
    """-> (coq text, list of (kernel, output, row) in case order)"""
    from pandapipes import idx_branch as B, idx_node as N
    from pandapipes.pf import derivative_toolbox as T
    from harness import c07_kernels as CK
    br, node, kinds, v = CK.make_arrays(rng, n_rows)
    keep = ~np.isnan(br[:, B.MDOTINIT])
    fn, tn = br[:, B.FROM_NODE].astype(np.int32), br[:, B.TO_NODE].astype(np.int32)
    with np.errstate(all="ignore"):
        der = T.calc_derived_values_np(node, fn, tn)
        tb, hd, pi, pi1 = der
        inc = T.derivatives_hydraulic_incomp_np(br, v["der_lambda"], pi, pi1, hd, v["rho"])
        cmp_ = T.derivatives_hydraulic_comp_np(node, br, v["lambda_"], v["der_lambda"], pi, pi1, hd, v["comp_fact"],
                                               v["der_comp"], v["der_comp1"], v["rho"], v["rho_n"])
    env = dict(v)
    env.update(p_init_i_abs=pi, p_init_i1_abs=pi1, height_difference=hd)
    for c in dir(B):
        if c.isupper() and isinstance(getattr(B, c), int) and getattr(B, c) < br.shape[1]:
            env.setdefault("bp_" + c, br[:, getattr(B, c)])
    for c in dir(N):
        if c.isupper() and isinstance(getattr(N, c), int) and getattr(N, c) < node.shape[1]:
            env["np_from_" + c] = node[fn, getattr(N, c)]
            env["np_to_" + c] = node[tn, getattr(N, c)]
    hn = ["load_vec", "load_vec_nodes_from", "load_vec_nodes_to", "df_dm", "df_dm_nodes", "df_dp", "df_dp1", "dp_frict_loss"]
    jobs = [(K.translate(K.TB_NP, "derivatives_hydraulic_incomp_np", K._HYD_INCOMP, name="hyd_incomp_np", fold=False),
             dict(zip(hn, inc))),
            (K.translate(K.TB_NP, "derivatives_hydraulic_comp_np", K._HYD_COMP, name="hyd_comp_np", fold=False),
             dict(zip(hn, cmp_))),
            (K.translate(K.TB_NP, "calc_derived_values_np", K._DERIVED, name="derived_np", fold=False),
             dict(zip(["tinit_branch", "height_difference", "p_init_i_abs", "p_init_i1_abs"], der)))]
    text = [K.FHEADER, SUMMARY]
    items, index = [], []
    for k, outs in jobs:
        text.append(K.float_defs(k))
        sig = [n for n, _ in k.signature()]
        for name in k.output_names():
            exp = np.broadcast_to(np.asarray(outs[name], float), (len(br),))
            for row in np.where(keep)[0]:
                args = " ".join(hexlit(env[a][row]) for a in sig)
                items.append("fsame (%s_%s_f %s) %s" % (k.name, name, args, hexlit(exp[row])))
                index.append((k.name, name, int(row), str(kinds[row])))
    text.append("Eval vm_compute in (fsummary [\n  %s\n])." % ";\n  ".join(items))
    return "\n".join(text), index
