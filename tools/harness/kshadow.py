"""Float shadow of the kernel translator (DESIGN 2.1, thorough tier): the expression tree the translator extracts from a
kernel is re-emitted over PrimFloat (constants not folded) and evaluated inside Coq (vm_compute) on inputs given as
float.hex() literals; the results must equal what the real numpy kernel returned BIT FOR BIT (NaN = NaN; the sign of zero is
not distinguished).  Kernels: those whose operations PrimFloat has (+ - * / abs max, x**2 = x*x, comparisons):
derivatives_hydraulic_incomp_np/_numba, derivatives_hydraulic_comp_np/_numba, calc_derived_values_np/_numba and, numba only
(x ** 3 is (x*x)*x in LLVM but pow() in numpy, which differs in the last bit for 26 % of inputs),
calc_medium_pressure_with_derivative_numba, get_pressures_numba, get_gas_vel_numba."""
import numpy as np

from translate import kernels as K

SUMMARY = """Fixpoint first_bad (l : list bool) (i : Z) : Z :=
  match l with [] => (-1)%Z | b :: r => if b then first_bad r (i + 1)%Z else i end.
Definition fsummary (l : list bool) : nat * nat * Z := (length l, length (filter negb l), first_bad l 0%Z).
"""


def hexlit(x):
    x = float(x)
    if x != x:
        return "nan"
    if x in (float("inf"), float("-inf")):
        return "infinity" if x > 0 else "neg_infinity"
    h = x.hex()
    return "(%s)" % h if h.startswith("-") else h


def shadow_cases(rng, n_rows, numba_twins=True):
    """-> (coq text, list of (kernel, output, row) in case order)"""
    from pandapipes import idx_branch as B, idx_node as N
    from pandapipes.pf import derivative_toolbox as T, derivative_toolbox_numba as U
    from pandapipes.pf import result_extraction as X
    from harness import c07_kernels as CK
    br, node, kinds, v = CK.make_arrays(rng, n_rows)
    keep = ~np.isnan(br[:, B.MDOTINIT])
    fn, tn = br[:, B.FROM_NODE].astype(np.int32), br[:, B.TO_NODE].astype(np.int32)
    with np.errstate(all="ignore"):
        der = T.calc_derived_values_np(node, fn, tn)
        tb, hd, pi, pi1 = der
        inc = T.derivatives_hydraulic_incomp_np(br, v["der_lambda"], pi, pi1, hd, v["rho"])
        cmp_ = T.derivatives_hydraulic_comp_np(node, br, v["lambda_"], v["der_lambda"], pi, pi1, hd, v["comp_fact"],
                                               v["der_comp"], v["der_comp1"], v["rho"], v["rho_n"])
    env = dict(v)
    env.update(p_init_i_abs=pi, p_init_i1_abs=pi1, height_difference=hd)
    for c in dir(B):
        if c.isupper() and isinstance(getattr(B, c), int) and getattr(B, c) < br.shape[1]:
            env.setdefault("bp_" + c, br[:, getattr(B, c)])
    for c in dir(N):
        if c.isupper() and isinstance(getattr(N, c), int) and getattr(N, c) < node.shape[1]:
            env["np_from_" + c] = node[fn, getattr(N, c)]
            env["np_to_" + c] = node[tn, getattr(N, c)]
    hn = ["load_vec", "load_vec_nodes_from", "load_vec_nodes_to", "df_dm", "df_dm_nodes", "df_dp", "df_dp1", "dp_frict_loss"]
    jobs = [(K.translate(K.TB_NP, "derivatives_hydraulic_incomp_np", K._HYD_INCOMP, name="hyd_incomp_np", fold=False),
             dict(zip(hn, inc))),
            (K.translate(K.TB_NP, "derivatives_hydraulic_comp_np", K._HYD_COMP, name="hyd_comp_np", fold=False),
             dict(zip(hn, cmp_))),
            (K.translate(K.TB_NP, "calc_derived_values_np", K._DERIVED, name="derived_np", fold=False),
             dict(zip(["tinit_branch", "height_difference", "p_init_i_abs", "p_init_i1_abs"], der)))]
    # numba twins (x ** 3 = (x*x)*x there): hydraulic kernels, medium pressure, derived values, gas result post-processing
    with np.errstate(all="ignore"):
        inc_nb = U.derivatives_hydraulic_incomp_numba(br, v["der_lambda"], pi, pi1, hd, v["rho"])
        cmp_nb = U.derivatives_hydraulic_comp_numba(node, br, v["lambda_"], v["der_lambda"], pi, pi1, hd, v["comp_fact"],
                                                    v["der_comp"], v["der_comp1"], v["rho"], v["rho_n"])
        pm_nb = U.calc_medium_pressure_with_derivative_numba(pi, pi1)
        der_nb = U.calc_derived_values_numba(node, fn, tn)
        v_mps = br[:, B.MDOTINIT] / (v["rho_n"] * br[:, B.AREA])
        pf, pt = node[fn, N.PINIT], node[tn, N.PINIT]
        gp = X.get_pressures_numba(node, fn, tn, v_mps, pf, pt)
        r2 = np.random.RandomState(len(br))
        comp = [r2.uniform(0.8, 1.05, len(br)) for _ in range(3)]
        t_in = node[fn, N.TINIT].copy()
        gv = X.get_gas_vel_numba(t_in, br, comp[0], comp[1], comp[2], gp[0], gp[1], gp[2], v_mps)
    env.update(p_from=pf, p_to=pt, v_mps=v_mps, comp_from=comp[0], comp_to=comp[1], comp_mean=comp[2], t_from_in=t_in,
               p_abs_from=gp[0], p_abs_to=gp[1], p_abs_mean=gp[2])
    gvn = ["v_gas_from", "v_gas_to", "v_gas_mean", "normfactor_from", "normfactor_to", "normfactor_mean"]
    kp, kv = K.translate(K.RE_X, "get_pressures_numba", {"node_pit": "npit", "from_nodes": "from", "to_nodes": "to"},
                         name="gaspress_nb", fold=False), \
        K.translate(K.RE_X, "get_gas_vel_numba", {"branch_pit": "bpit"}, name="gasvel_nb", fold=False)
    jobs_nb = [(K.translate(K.TB_NB, "derivatives_hydraulic_incomp_numba", K._HYD_INCOMP, name="hyd_incomp_nb", fold=False),
                dict(zip(hn, inc_nb))),
               (K.translate(K.TB_NB, "derivatives_hydraulic_comp_numba", K._HYD_COMP, name="hyd_comp_nb", fold=False),
                dict(zip(hn, cmp_nb))),
               (K.translate(K.TB_NB, "calc_medium_pressure_with_derivative_numba", {}, name="pm_nb", fold=False),
                dict(zip(["p_m", "der_p_m", "der_p_m1"], pm_nb))),
               (K.translate(K.TB_NB, "calc_derived_values_numba", K._DERIVED, name="derived_nb", fold=False),
                dict(zip(["tinit_branch", "height_difference", "p_init_i_abs", "p_init_i1_abs"], der_nb))),
               (kp, dict(zip(["p_abs_from", "p_abs_to", "p_abs_mean"], gp))), (kv, dict(zip(gvn, gv)))]
    if not numba_twins:
        jobs_nb = []
    jobs = [(k, o, False) for k, o in jobs] + [(k, o, True) for k, o in jobs_nb]
    text = [K.FHEADER, SUMMARY]
    items, index = [], []
    for k, outs, chain in jobs:
        text.append(K.float_defs(k, pow_chain=chain))
        sig = [n for n, _ in k.signature()]
        for name in k.output_names():
            exp = np.broadcast_to(np.asarray(outs[name], float), (len(br),))
            for row in np.where(keep)[0]:
                args = " ".join(hexlit(env[a][row]) for a in sig)
                items.append("fsame (%s_%s_f %s) %s" % (k.name, name, args, hexlit(exp[row])))
                index.append((k.name, name, int(row), str(kinds[row])))
    text.append("Eval vm_compute in (fsummary [\n  %s\n])." % ";\n  ".join(items))
    return "\n".join(text), index
