"""C17 harness: snapshots of label / reference columns, the restructuring operations (real call, Coq term,
property-level expectation in Python), referential-integrity check on the real net."""
import copy
import os
import sys

import numpy as np
import pandas as pd

sys.path.insert(0, os.path.dirname(os.path.dirname(os.path.abspath(__file__))))
from vlib import cstr, cz, cbool, clist  # noqa: E402


def tb():
    import pandapipes.toolbox as t
    return t


# --------------------------------------------------------------------------- snapshot
def tuple_set(net, **kw):
    return sorted(tb().element_junction_tuples(net=net, **kw))


def element_tables(net):
    return [c.table_name() for c in net.component_list if c.table_name() in net and isinstance(net[c.table_name()], pd.DataFrame)]


def kind_of(table, col, row):
    """the property's reading of a cell: junction label / pipe label / no reference"""
    if table == "valve" and col == "element":
        return "KP" if row.get("et") == "pi" else "KJ"
    if col.endswith("junction"):
        return "KJ"
    return "KN"


def _payload(df, skip):
    """one integer per row that identifies everything the row carries besides its label and reference cells
    (all other columns, bit-exact): restructuring must move it with the row and never change it"""
    import hashlib
    from harness.drive import _canon
    cols = [c for c in df.columns if c not in skip and c != "old_index"]     # old_index: documented effect of store_old_index
    out = []
    for vals in (df[cols].values.tolist() if cols else [[] for _ in range(len(df))]):
        h = hashlib.sha1(repr([_canon(v) for v in vals]).encode()).hexdigest()
        out.append(int(h[:7], 16))
    return out


def snapshot(net):
    """{table: [(label, [(col, kind, value)])]}: reference cells of element tables plus one '#payload' cell per row
    (KN) in every table incl. geodata / res tables"""
    cs_all = tuple_set(net)
    snap = {}
    for t in element_tables(net):
        df = net[t]
        cols = sorted({c for tt, c in cs_all if tt == t and c in df.columns}
                      | {c for c in df.columns if str(c).endswith("junction")}
                      | ({"element"} if t == "valve" and "element" in df.columns else set()))
        rows = []
        et = df["et"].tolist() if "et" in df.columns else None
        vals = {c: df[c].tolist() for c in cols}
        pay = _payload(df, set(cols))
        for p, lab in enumerate(df.index.tolist()):
            r = {"et": et[p]} if et is not None else {}
            rows.append((int(lab), [(c, kind_of(t, c, r), int(vals[c][p])) for c in cols] + [("#payload", "KN", pay[p])]))
        snap[t] = rows
    for t in list(net.keys()):
        if isinstance(net[t], pd.DataFrame) and (t.startswith("res_") or t.endswith("_geodata")) and t not in snap:
            pay = _payload(net[t], set())
            snap[t] = [(int(l), [("#payload", "KN", pay[p])]) for p, l in enumerate(net[t].index.tolist())]
    return snap


def labels(snap, t):
    return [l for l, _ in snap.get(t, [])]


# --------------------------------------------------------------------------- Coq text
def c_cell(c):
    return "mkCell %s %s %s" % (cstr(c[0]), c[1], cz(c[2]))


def c_net(snap):
    tabs = []
    for t in sorted(snap):
        if not snap[t]:
            continue
        rows = ["mkRow %s %s" % (cz(l), clist([c_cell(c) for c in cells])) for l, cells in snap[t]]
        tabs.append("mkTable %s %s" % (cstr(t), clist(rows)))
    return clist(tabs)


def c_cs(cs):
    return clist(["(%s, %s)" % (cstr(a), cstr(b)) for a, b in cs])


def c_zs(l):
    return clist([cz(x) for x in l])


def c_lk(lk):
    return clist(["(%s, %s)" % (cz(k), cz(v)) for k, v in lk])


def c_op(op):
    k = op["op"]
    if k in ("reindex_junctions", "reindex_pipes", "reindex_elements"):
        return "Reindex %s %s %s" % (c_cs(op["cs"]), cstr(op["element"]), c_lk(op["lookup"]))
    if k in ("create_continuous_junction_index", "create_continuous_element_index"):
        return "ContElem %s %s %s" % (c_cs(op["cs"]), cstr(op["element"]), cz(op["start"]))
    if k == "create_continuous_elements_index":
        return "ContAll %s %s %s" % (c_cs(op["cs"]), clist([cstr(e) for e in op["order"]]), cz(op["start"]))
    if k == "fuse_junctions":
        return "%s %s %s %s" % ("Fuse" if op.get("drop", True) else "FuseKeep", c_cs(op["cs"]), cz(op["j1"]), c_zs(op["j2"]))
    if k == "select_subnet":
        # keep_everything_else / remove_internals / remove_unused_components do not change the element, geodata and
        # result tables (a table that was removed counts as empty)
        return "%s %s %s" % ("SelectRes" if op.get("include_results", False) else "Select", c_cs(op["cs"]), c_zs(op["junctions"]))
    if k == "drop_junctions":
        return "DropJ %s %s %s" % (c_cs(op["cs"]), c_zs(op["junctions"]), cbool(op["drop_elements"]))
    if k == "drop_elements_at_junctions":
        return "DropElems %s %s" % (c_cs(op["cs"]), c_zs(op["junctions"]))
    if k == "drop_pipes":
        return "DropP %s" % c_zs(op["pipes"])
    raise ValueError(k)


def c_case(before, op, obs):
    return "mkCase %s (%s) %s" % (c_net(before), c_op(op), "None" if obs is None else "(Some %s)" % c_net(obs))


HEADER = ("From Coq Require Import String List ZArith.\nFrom PP Require Import C17.Model.\n"
          "Import ListNotations.\nOpen Scope string_scope.\n")


def cases_file(cases):
    return (HEADER + "Definition cs : list case := [\n%s\n].\nEval vm_compute in (summary cs).\n"
            "Eval vm_compute in (summary_hyp cs).\n" % ";\n".join(c_case(*c) for c in cases))


# --------------------------------------------------------------------------- operations
def fill_op(op, net):
    """add what the running code reports for this call (tuple set, iteration order)"""
    t = tb()
    op = dict(op)
    k = op["op"]
    if k == "drop_elements_at_junctions":
        op["cs"] = sorted(t.element_junction_tuples(op.get("node_elements", True), op.get("branch_elements", True),
                                                    include_res_elements=False, net=net))
    elif k != "drop_pipes":
        op["cs"] = tuple_set(net)
    if k == "create_continuous_elements_index" and "order" not in op:
        op["order"] = []          # filled by apply_op: the tables in the order the running code visits them
    if k == "select_subnet":
        # a net whose (empty) pipe table was removed by remove_unused_components still has pipe_geodata
        import pandas as pd
        op["pipe_table_removed"] = (not isinstance(net.get("pipe", None), pd.DataFrame)) and "pipe_geodata" in net
    if k == "reindex_junctions":
        op["element"] = "junction"
    if k == "reindex_pipes":
        op["element"] = "pipe"
    if k == "create_continuous_junction_index":
        op["element"] = "junction"
    return op


def apply_op(op, net):
    """the real call; returns the resulting net (the same object, or the subnet)"""
    t = tb()
    k = op["op"]
    if k == "reindex_junctions":
        t.reindex_junctions(net, dict(op["lookup"]))
    elif k == "reindex_pipes":
        t.reindex_pipes(net, dict(op["lookup"]))
    elif k == "reindex_elements":
        t.reindex_elements(net, op["element"], dict(op["lookup"]))
    elif k == "create_continuous_junction_index":
        t.create_continuous_junction_index(net, start=op["start"], store_old_index=op.get("store_old_index", False))
    elif k == "create_continuous_element_index":
        t.create_continuous_element_index(net, op["element"], start=op["start"],
                                          store_old_index=op.get("store_old_index", False))
    elif k == "create_continuous_elements_index":
        # record which tables the code reindexes, in its own (set) order: input of the model
        seen = []
        orig = t.create_continuous_element_index

        def rec(net_, element, *a, **kw):
            if element in net_:
                seen.append(element)
            return orig(net_, element, *a, **kw)
        t.create_continuous_element_index = rec
        try:
            t.create_continuous_elements_index(net, start=op["start"], store_old_index=op.get("store_old_index", False))
        finally:
            t.create_continuous_element_index = orig
            op["order"] = seen
    elif k == "fuse_junctions":
        t.fuse_junctions(net, op["j1"], list(op["j2"]), drop=op.get("drop", True))
    elif k == "select_subnet":
        return t.select_subnet(net, list(op["junctions"]), include_results=op.get("include_results", False),
                               keep_everything_else=op.get("keep_everything_else", False),
                               remove_internals=op.get("remove_internals", True),
                               remove_unused_components=op.get("remove_unused_components", False))
    elif k == "drop_junctions":
        t.drop_junctions(net, list(op["junctions"]), drop_elements=op["drop_elements"])
    elif k == "drop_elements_at_junctions":
        t.drop_elements_at_junctions(net, list(op["junctions"]), node_elements=op.get("node_elements", True),
                                     branch_elements=op.get("branch_elements", True))
    elif k == "drop_pipes":
        t.drop_pipes(net, list(op["pipes"]))
    else:
        raise ValueError(k)
    return net


def gen_op(rng, snap, weights=None):
    """a random operation applicable to the net whose snapshot is given"""
    js, ps = labels(snap, "junction"), labels(snap, "pipe")
    kinds = ["reindex_junctions"] * 4 + ["reindex_pipes"] * 2 + ["reindex_elements", "create_continuous_junction_index",
             "create_continuous_element_index", "create_continuous_elements_index", "fuse_junctions",
             "fuse_junctions", "select_subnet", "select_subnet", "drop_junctions", "drop_junctions",
             "drop_elements_at_junctions", "drop_pipes", "drop_pipes"]
    k = rng.choice(weights or kinds)
    if k in ("reindex_pipes", "drop_pipes") and not ps:
        k = "reindex_junctions"
    if len(js) < 3 and k in ("fuse_junctions", "drop_junctions", "select_subnet", "drop_elements_at_junctions"):
        k = "reindex_junctions"

    def lookup(labs):
        mode = rng.choice(["perm", "fresh", "partial", "shift", "swap2"])
        labs = list(labs)
        if mode == "perm":
            new = list(labs)
            rng.shuffle(new)
            return list(zip(labs, new))
        if mode == "fresh":
            base = rng.choice([0, 1, 50, 1000, max(labs) + 1])
            new = rng.sample(range(base, base + 3 * len(labs) + 3), len(labs))
            # injective but possibly overlapping the old labels
            return list(zip(labs, new))
        if mode == "shift":
            d = rng.choice([1, -1, 7, 100])
            return [(l, l + d) for l in labs if l + d >= 0] if all(l + d >= 0 for l in labs) else [(l, l + 100) for l in labs]
        if mode == "swap2" and len(labs) >= 2:
            a, b = rng.sample(labs, 2)
            return [(a, b), (b, a)]
        sub = rng.sample(labs, max(1, len(labs) // 2))
        hi = max(labs) + 1
        return [(l, hi + i) for i, l in enumerate(sub)]

    if k == "reindex_junctions":
        return {"op": k, "lookup": lookup(js)}
    if k == "reindex_pipes":
        return {"op": k, "lookup": lookup(ps)}
    if k == "reindex_elements":
        cand = [t for t in snap if snap[t] and not t.startswith("res_") and not t.endswith("_geodata")]
        e = rng.choice(sorted(cand))
        return {"op": k, "element": e, "lookup": lookup(labels(snap, e))}
    if k == "create_continuous_junction_index":
        return {"op": k, "start": rng.choice([0, 0, 1, 5]), "store_old_index": rng.random() < 0.3}
    if k == "create_continuous_element_index":
        cand = [t for t in snap if snap[t] and not t.startswith("res_") and not t.endswith("_geodata")]
        return {"op": k, "element": rng.choice(sorted(cand)), "start": rng.choice([0, 0, 3]), "store_old_index": rng.random() < 0.3}
    if k == "create_continuous_elements_index":
        return {"op": k, "start": rng.choice([0, 0, 1]), "store_old_index": rng.random() < 0.3}
    if k == "fuse_junctions":
        j1 = rng.choice(js)
        j2 = rng.sample([j for j in js if j != j1], rng.choice([1, 1, 2]))
        if rng.random() < 0.2:
            j2 = j2 + [j1]
        return {"op": k, "j1": j1, "j2": j2, "drop": rng.random() < 0.8}
    if k == "select_subnet":
        n = rng.randint(1, max(1, len(js) - 1))
        return {"op": k, "junctions": rng.sample(js, n), "include_results": rng.random() < 0.35,
                "keep_everything_else": rng.random() < 0.35, "remove_internals": rng.random() < 0.7,
                "remove_unused_components": rng.random() < 0.4}
    if k == "drop_junctions":
        return {"op": k, "junctions": rng.sample(js, rng.choice([1, 1, 2])), "drop_elements": rng.random() < 0.8}
    if k == "drop_elements_at_junctions":
        return {"op": k, "junctions": rng.sample(js, rng.choice([1, 2])), "node_elements": rng.random() < 0.7,
                "branch_elements": rng.random() < 0.8}
    if k == "drop_pipes":
        return {"op": k, "pipes": rng.sample(ps, rng.choice([1, 1, 2]) if len(ps) > 1 else 1)}
    raise ValueError(k)


# --------------------------------------------------------------------------- property-level expectation
def _rank(labs, start):
    s = sorted(labs)
    return {l: start + i for i, l in enumerate(s)}


def expected(op, before):
    """The property's own words as a Python oracle: what the tables must be after the call.
    References are recognised by their kind (junction / pipe), not by any column list."""
    k = op["op"]
    snap = copy.deepcopy(before)
    fam = lambda e: [e, e + "_geodata", "res_" + e]  # noqa: E731

    def rename(e, rho, kind):
        for t in fam(e):
            if t in snap:
                snap[t] = [(rho.get(l, l), cells) for l, cells in snap[t]]
        if kind:
            for t in snap:
                snap[t] = [(l, [(c, kd, rho.get(v, v) if kd == kind else v) for c, kd, v in cells]) for l, cells in snap[t]]

    def drop_rows(pred):
        """pred(table, label, cells) -> True to drop; res_ / geodata rows follow their parent"""
        gone = {}
        for t in list(snap):
            if t.startswith("res_") or t.endswith("_geodata"):
                continue
            keep = []
            for l, cells in snap[t]:
                if pred(t, l, cells):
                    gone.setdefault(t, set()).add(l)
                else:
                    keep.append((l, cells))
            snap[t] = keep
        for t in list(snap):
            par = t[4:] if t.startswith("res_") else t[:-8] if t.endswith("_geodata") else None
            if par and par in gone:
                snap[t] = [(l, c) for l, c in snap[t] if l not in gone[par]]
        return gone

    def cascade_pipe_refs():
        """the property: no element may reference a missing pipe"""
        ps = set(labels(snap, "pipe"))
        drop_rows(lambda t, l, cells: any(kd == "KP" and v not in ps for _, kd, v in cells))

    kindmap = {"junction": "KJ", "pipe": "KP"}
    if k in ("reindex_junctions", "reindex_pipes", "reindex_elements"):
        rename(op["element"], dict(op["lookup"]), kindmap.get(op["element"]))
    elif k in ("create_continuous_junction_index", "create_continuous_element_index"):
        e = op["element"]
        rename(e, _rank(labels(snap, e), op["start"]), kindmap.get(e))
    elif k == "create_continuous_elements_index":
        for e in [t for t in snap if not t.startswith("res_") and not t.endswith("_geodata")]:
            rename(e, _rank(labels(snap, e), op["start"]), kindmap.get(e))
        for t in snap:
            if t.startswith("res_") and t[4:] not in snap:
                snap[t] = [(l, c) for l, c in snap[t]]
    elif k == "fuse_junctions":
        j2 = set(op["j2"]) - {op["j1"]}
        for t in snap:
            snap[t] = [(l, [(c, kd, op["j1"] if kd == "KJ" and v in j2 else v) for c, kd, v in cells]) for l, cells in snap[t]]
        if op.get("drop", True):
            drop_rows(lambda t, l, cells: t == "junction" and l in j2)
    elif k == "select_subnet":
        js = set(op["junctions"])
        drop_rows(lambda t, l, cells: (l not in js) if t == "junction" else
                  not all(v in js for _, kd, v in cells if kd == "KJ"))
        cascade_pipe_refs()
        if not op.get("include_results", False):
            for t in snap:
                if t.startswith("res_"):
                    snap[t] = []
    elif k == "drop_junctions":
        js = set(op["junctions"])
        if op["drop_elements"]:
            drop_rows(lambda t, l, cells: (l in js) if t == "junction" else any(kd == "KJ" and v in js for _, kd, v in cells))
            cascade_pipe_refs()
        else:
            drop_rows(lambda t, l, cells: t == "junction" and l in js)
    elif k == "drop_elements_at_junctions":
        js = set(op["junctions"])
        import pandapipes  # noqa: F401
        node_tabs = {"sink", "source", "ext_grid", "mass_storage"}
        def pred(t, l, cells):
            if t == "junction":
                return False
            is_node = t in node_tabs
            if (is_node and not op.get("node_elements", True)) or (not is_node and not op.get("branch_elements", True)):
                return False
            return any(kd == "KJ" and v in js for _, kd, v in cells)
        drop_rows(pred)
        cascade_pipe_refs()
    elif k == "drop_pipes":
        ps = set(op["pipes"])
        drop_rows(lambda t, l, cells: t == "pipe" and l in ps)
        cascade_pipe_refs()
    return snap


def diff(observed, exp):
    """first differences between the observed tables and the property's expectation:
    list of (table, column_or_'<rows>', text)"""
    out = []
    for t in sorted(set(observed) | set(exp)):
        o = sorted(observed.get(t, []))
        e = sorted(exp.get(t, []))
        if o == e:
            continue
        ol, el = [l for l, _ in o], [l for l, _ in e]
        if ol != el:
            extra = [x for x in o if x[0] not in set(el)]
            missing = [x for x in e if x[0] not in set(ol)]
            rowx = (extra or missing or [(None, [])])[0]
            col = "<rows>"
            kp = [c for c, kd, v in rowx[1] if kd == "KP"]
            if kp:
                col = kp[0]
            out.append((t, col, "labels %s, expected %s" % (ol[:12], el[:12])))
            continue
        for (l, oc), (_, ec) in zip(o, e):
            for (c, kd, v), (_, _, ev) in zip(oc, ec):
                if v != ev:
                    out.append((t, c, "row %s: %s=%s (%s), expected %s" % (l, c, v, kd, ev)))
                    break
            else:
                continue
            break
    return out


def dangling(snap):
    """referential integrity evaluated directly: (table, col, label, value) of references to nothing"""
    js, ps = set(labels(snap, "junction")), set(labels(snap, "pipe"))
    bad = []
    for t, rows in snap.items():
        for l, cells in rows:
            for c, kd, v in cells:
                if (kd == "KJ" and v not in js) or (kd == "KP" and v not in ps):
                    bad.append((t, c, l, v))
    for t, rows in snap.items():
        par = t[4:] if t.startswith("res_") else t[:-8] if t.endswith("_geodata") else None
        if par and par in snap:
            pl = set(labels(snap, par))
            for l, _ in rows:
                if l not in pl:
                    bad.append((t, "<index>", l, l))
    return bad


def duplicate_labels(snap):
    return [(t, l) for t, rows in snap.items() for l in {x for x, _ in rows} if [x for x, _ in rows].count(l) > 1]


def modelled(op):
    """operations / option combinations that coq/C17/Model.v covers (the others are judged by the Python oracle only)"""
    # every operation and option combination is covered by coq/C17/Model.v (a removed table counts as empty)
    return True


# --------------------------------------------------------------------------- everything else a net carries
def meta_state(net):
    """what no restructuring call may touch: component list, fluid (identity and contents), std types, user options,
    name, and every user table that is not an element / geodata / result table"""
    import json
    import pandas as pd
    from harness.drive import _canon, snapshot_tables
    fluid = net.get("fluid", None) if hasattr(net, "get") else None
    fl = None
    if fluid is not None:
        props = {}
        for key, prop in sorted(getattr(fluid, "all_properties", {}).items()):
            props[key] = (type(prop).__name__, {a: _canon(v) for a, v in sorted(vars(prop).items())
                                                 if isinstance(v, (int, float, str, bool, list, tuple, np.ndarray))})
        fl = (fluid.name, bool(fluid.is_gas), props)
    elems = set(element_tables(net))
    other = {t: v for t, v in snapshot_tables(net).items()
             if t not in elems and not t.endswith("_geodata")}
    return {"component_list": [c.__name__ for c in net.component_list],
            "fluid": json.dumps(fl, sort_keys=True, default=str), "fluid_id": id(fluid),
            "std_types": json.dumps(net.get("std_types", {}), sort_keys=True, default=str),
            "user_pf_options": json.dumps(net.get("user_pf_options", {}), sort_keys=True, default=str),
            "name": repr(net.get("name", None)), "other_tables": json.dumps(other, sort_keys=True, default=str)}


def full_state(net):
    """bit-exact state of a net that a call must leave alone completely (source net of select_subnet)"""
    from harness.drive import snapshot_tables
    import pandas as pd
    st = meta_state(net)
    st["tables"] = snapshot_tables(net)
    st["results"] = {t: (net[t].index.tolist(), [str(c) for c in net[t].columns],
                         [[None if (isinstance(x, float) and x != x) else x for x in r] for r in net[t].values.tolist()])
                     for t in net.keys() if t.startswith("res_") and isinstance(net[t], pd.DataFrame)}
    st["keys"] = sorted(k for k in net.keys() if not k.startswith("_"))
    return st


def state_diff(a, b):
    return [k for k in sorted(set(a) | set(b)) if a.get(k) != b.get(k)]


def shared_objects(src, new):
    """mutable parts of the source net that the returned net still references"""
    out = []
    for k in ("component_list", "fluid", "std_types", "user_pf_options"):
        if k in src and k in new and src[k] is new[k] and src[k] is not None and not isinstance(src[k], (str, int, float)):
            out.append(k)
    return out
