"""Helpers shared by the C04 and C06 checks (own file; the shared harness files are not edited).

  structural(net)          run the real set-up stages and capture the integer (structural) state
  comps_of(net, names)     the component list as create_lookups sees it (for the Coq model)
  coq literals for the above
"""
import copy
import os
import sys

import numpy as np

sys.path.insert(0, os.path.dirname(os.path.dirname(os.path.abspath(__file__))))
from vlib import cz, cnat, cbool, clist  # noqa: E402
from harness import drive  # noqa: E402


def zl(xs):
    return clist([cz(int(x)) for x in xs])


def bl(xs):
    return clist([cbool(bool(x)) for x in xs])


def zpl(ps):
    return clist(["(%s, %s)" % (cz(int(a)), cz(int(b))) for a, b in ps])


def zll(xss):
    return clist([zl(xs) for xs in xss])


def as_int_list(arr, what):
    """exactness guard: the structural code must produce integers"""
    a = np.asarray(arr, dtype=np.float64)
    if a.size and not np.all(np.isfinite(a) & (a == np.round(a))):
        raise ValueError("non-integer structural value in %s: %r" % (what, a[:10]))
    return [int(x) for x in a]


class Names:
    """table / internal-node names -> small nat ids (stable inside one cases file)"""

    def __init__(self):
        self.ids = {}

    def __call__(self, name):
        if name not in self.ids:
            self.ids[name] = len(self.ids)
        return self.ids[name]


def comp_classes():
    import pandapipes  # noqa: F401
    from pandapipes.component_models.abstract_models.node_models import NodeComponent
    from pandapipes.component_models.abstract_models.branch_w_internals_models import BranchWInternalsComponent
    from pandapipes.component_models.abstract_models.branch_wo_internals_models import BranchWOInternalsComponent
    return NodeComponent, BranchWInternalsComponent, BranchWOInternalsComponent


def comps_of(net, names):
    """[(coq_text, info)] per component of net.component_list that owns pit rows"""
    NodeC, BW, BWO = comp_classes()
    out = []
    for comp in net["component_list"]:
        tbl = comp.table_name()
        labels = [int(i) for i in net[tbl].index.values]
        if issubclass(comp, NodeC):
            out.append("{| c_name := %s; c_labels := %s; c_branch := None; c_node := Some (%s, None) |}"
                       % (cnat(names(tbl)), zl(labels), cnat(names(tbl))))
        elif issubclass(comp, BW):
            secs = [int(x) for x in comp.get_internal_branch_number(net)]
            cnt = [int(x) for x in comp.get_internal_node_number(net)]
            if tbl == "pipe":     # for pipes the counts are table data: sections, sections - 1
                s_tab = [int(x) for x in net.pipe.sections.values]
                if secs != s_tab or cnt != [s - 1 for s in s_tab]:
                    raise ValueError("pipe internals differ from the sections column")
            out.append("{| c_name := %s; c_labels := %s; c_branch := Some (Some %s); c_node := Some (%s, Some %s) |}"
                       % (cnat(names(tbl)), zl(labels), zl(secs), cnat(names(comp.internal_node_name())), zl(cnt)))
        elif issubclass(comp, BWO):
            out.append("{| c_name := %s; c_labels := %s; c_branch := Some None; c_node := None |}"
                       % (cnat(names(tbl)), zl(labels)))
    return out


def sparse_idx(arr):
    a = np.asarray(arr)
    nz = np.flatnonzero(a != -1)
    return "(%s, %s)" % (cz(len(a)), zpl([(int(p), int(a[p])) for p in nz]))


def ft_list(d, names):
    return clist(["(%s, (%s, %s))" % (cnat(names(k)), cz(int(v[0])), cz(int(v[1]))) for k, v in d.items()])


def idx_list(d, names):
    return clist(["(%s, %s)" % (cnat(names(k)), sparse_idx(v)) for k, v in d.items()])


def int_list(d, names):
    return clist(["(%s, %s)" % (cnat(names(k)), zpl([(int(a), int(b)) for a, b in v])) for k, v in d.items()])


def lookups_case(net):
    """Coq literal of one lk_case: the component list + the real net._lookups after create_lookups"""
    s = drive.psetup()
    s.init_options(net)
    s.create_lookups(net)
    L = net["_lookups"]
    names = Names()
    comps = comps_of(net, names)
    return ("{| lc_comps := %s; lc_branch_ft := %s; lc_node_ft := %s; lc_branch_idx := %s; lc_node_idx := %s; "
            "lc_int_branches := %s; lc_int_nodes := %s; lc_branch_len := %s; lc_node_len := %s |}"
            % (clist(comps), ft_list(L["branch_from_to"], names), ft_list(L["node_from_to"], names),
               idx_list(L["branch_index"], names), idx_list(L["node_index"], names),
               int_list(L["internal_branches"], names), int_list(L["internal_nodes"], names),
               cz(L["branch_length"]), cz(L["node_length"])))


def stages_quiet(net, **kw):
    """drive.stages with the default options; returns None if the set-up itself raises
    PipeflowNotConverged (nothing supplied)"""
    return drive.stages(net, **kw)


def flag_columns(net):
    """all (table, column) boolean flags that decide what is switched on"""
    out = []
    for tbl, col in (("junction", "in_service"), ("pipe", "in_service"), ("valve", "opened"),
                     ("flow_control", "in_service"), ("flow_control", "control_active"),
                     ("heat_consumer", "in_service"), ("pump", "in_service"), ("compressor", "in_service"),
                     ("pressure_control", "in_service"), ("pressure_control", "control_active"),
                     ("heat_exchanger", "in_service"), ("ext_grid", "in_service"),
                     ("circ_pump_pressure", "in_service"), ("circ_pump_mass", "in_service")):
        if tbl in net and len(net[tbl]) and col in net[tbl].columns:
            for i in net[tbl].index:
                out.append((tbl, col, int(i)))
    return out


def clone(net):
    return copy.deepcopy(net)


def tight(kw):
    """the same run with the Newton tolerances at round-off level: used to tell a difference in start values /
    elimination order (which then shrinks to round-off) from a difference of the solved system (which stays)"""
    k = dict(kw)
    k.update(tol_p=1e-12, tol_m=1e-12, tol_T=1e-10, tol_res=1e-7, iter=200)
    return k
