"""Shared seeded generator of pandapipes networks (DESIGN.md 2.6).

A network is a JSON-able *spec*  {"fluid": str, "ops": [[create_fn_name, kwargs], ...]}  that is
rebuilt through the public create_* API by `build(spec)`; every replay file carries such a spec.

gen_net(rng, profile, size) profiles:
  "water" / "gas"  hydraulic networks: meshed, parallel branches, valves (ju / pi), pumps or
                   compressors, pressure / flow controllers, several ext grids, loads of all kinds,
                   out-of-service parts and an unsupplied island, random labelling.
  "heat"           district-heating loop: circulation pump (pressure or mass), supply / return lines
                   with multi-section pipes, heat consumers in all modes, heat exchangers, flow controls.
All random choices come from the one `rng` passed in.
"""
import copy
import json

GASES = ["lgas", "hgas", "hydrogen", "methane", "biomethane_pure", "biomethane_treated"]
LIQUIDS = ["water"]  # ethane, propane ... exist as single-property gases only


def build(spec, name=""):
    import pandapipes as pp
    net = pp.create_empty_network(name=name, fluid=spec["fluid"])
    for fn, kw in spec["ops"]:
        getattr(pp, fn)(net, **copy.deepcopy(kw))
    for tbl, row, col, val in spec.get("edits", []):
        net[tbl].at[row, col] = val
    return net


def spec_key(spec):
    return json.dumps(spec, sort_keys=True, default=str)


def make_labels(rng, n, mode, base=0):
    if mode == "contig":
        return list(range(base, base + n))
    if mode == "shuffled":
        l = list(range(base, base + n))
        rng.shuffle(l)
        return l
    if mode == "sparse":
        return rng.sample(range(base, base + 7 * n + 5), n)
    if mode == "large":
        return rng.sample(range(100000, 100000 + 50 * n + 50), n)
    raise ValueError(mode)


class _B:
    """spec builder with label bookkeeping"""

    def __init__(self, rng, fluid, label_mode):
        self.rng, self.fluid, self.label_mode = rng, fluid, label_mode
        self.ops = []
        self.next = {}
        self.pools = {}
        self.labels = {}      # table -> list of labels in creation order

    def label(self, table):
        pool = self.pools.get(table)
        if pool is None:
            mode = self.label_mode if table in ("junction", "pipe", "valve", "sink") else \
                self.rng.choice(["contig", self.label_mode])
            pool = make_labels(self.rng, 400, mode)
            if table == "pipe" and self.rng.random() < 0.5 and "junction" in self.pools:
                pool = list(self.pools["junction_all"])     # colliding pipe / junction labels
                self.rng.shuffle(pool)
            self.pools[table] = pool
            if table == "junction":
                self.pools["junction_all"] = list(pool)
        l = pool.pop(0)
        self.labels.setdefault(table, []).append(l)
        return l

    def add(self, fn, table, **kw):
        kw["index"] = self.label(table)
        self.ops.append([fn, kw])
        return kw["index"]

    def spec(self):
        return {"fluid": self.fluid, "ops": self.ops}


def gen_net(rng, profile="water", size=None, label_mode=None, features=None):
    """features: optional dict to force/forbid things, e.g. {"island": True, "oos": True, "pi_valve": False}"""
    f = dict(features or {})
    label_mode = label_mode or rng.choice(["contig", "shuffled", "sparse", "large"])
    if profile == "heat":
        return _gen_heat(rng, size, label_mode, f)
    fluid = "water" if profile == "water" else (f.get("fluid") or rng.choice(GASES))
    gas = profile == "gas"
    b = _B(rng, fluid, label_mode)
    n = size or rng.randint(3, 9)
    p0 = rng.choice([3.0, 5.0, 8.0, 16.0]) if not gas else rng.choice([1.0, 3.0, 8.0])
    t0 = rng.choice([283.15, 293.15, 313.15])
    hilly = rng.random() < 0.4 and not f.get("flat")
    js = [b.add("create_junction", "junction", pn_bar=p0 * rng.choice([1, 0.9, 1.1]), tfluid_k=t0,
                height_m=(rng.choice([0., 5., -3., 12.]) if hilly else 0.)) for _ in range(n)]

    def pipe(a, c, in_service=True):
        d = rng.choice([60., 80., 100., 150., 200.])
        return b.add("create_pipe_from_parameters", "pipe", from_junction=a, to_junction=c,
                     length_km=rng.choice([0.05, 0.1, 0.25, 0.6, 1.0]), inner_diameter_mm=d,
                     k_mm=rng.choice([0.05, 0.1, 0.2, 0.5]),
                     loss_coefficient=rng.choice([0., 0., 0., 1.5]) if not f.get("no_zeta") else 0.,
                     sections=rng.choice([1, 1, 1, 2, 3, 4]) if not f.get("one_section") else 1,
                     in_service=in_service)

    # spanning tree (random attachment) -> supplied, connected
    edges = []
    for i in range(1, n):
        a = js[rng.randrange(0, i)]
        c = js[i]
        if rng.random() < 0.5:
            a, c = c, a
        r = rng.random()
        if r < 0.12 and not f.get("pipes_only"):
            b.add("create_valve", "valve", junction=a, element=c, et="ju", inner_diameter_mm=rng.choice([50., 100.]),
                  opened=True, loss_coefficient=rng.choice([0., 0.5]))
        else:
            pipe(a, c)
        edges.append((a, c))
    # mesh / parallel edges and special branches
    n_extra = rng.randint(0, max(1, n // 2))
    for _ in range(n_extra):
        a, c = rng.sample(js, 2) if rng.random() < 0.75 else rng.choice(edges)
        r = rng.random()
        if f.get("pipes_only") or r < 0.5:
            pipe(a, c, in_service=not (rng.random() < 0.2 and f.get("oos", True)))
        elif r < 0.65:
            b.add("create_valve", "valve", junction=a, element=c, et="ju", inner_diameter_mm=80.,
                  opened=rng.random() < 0.6, loss_coefficient=rng.choice([0., 1.0]))
        elif r < 0.8:
            b.add("create_flow_control", "flow_control", from_junction=a, to_junction=c,
                  controlled_mdot_kg_per_s=rng.choice([0.02, 0.05, 0.1]) * (0.1 if gas else 1.0),
                  control_active=rng.random() < 0.8, in_service=rng.random() < 0.9)
        elif r < 0.9 and not gas:
            b.add("create_pump", "pump", from_junction=a, to_junction=c, std_type=rng.choice(["P1", "P2", "P3"]),
                  in_service=rng.random() < 0.9)
        elif r < 0.9 and gas:
            b.add("create_compressor", "compressor", from_junction=a, to_junction=c,
                  pressure_ratio=rng.choice([1.05, 1.2]), in_service=rng.random() < 0.9)
        else:
            pipe(a, c)
    # junction-pipe valve: a pipe leaving a junction, closed or open
    if f.get("pi_valve", rng.random() < 0.25) and b.labels.get("pipe"):
        for fn, kw in list(b.ops):
            if fn == "create_pipe_from_parameters" and rng.random() < 0.5:
                b.add("create_valve", "valve", junction=rng.choice([kw["from_junction"], kw["to_junction"]]),
                      element=kw["index"], et="pi", inner_diameter_mm=80., opened=rng.random() < 0.7,
                      loss_coefficient=0.)
                break
    # supply
    n_eg = rng.choice([1, 1, 2, 3])
    egj = [js[0]] + [rng.choice(js) for _ in range(n_eg - 1)]
    for j in egj:
        b.add("create_ext_grid", "ext_grid", junction=j, p_bar=p0, t_k=t0,
              in_service=True if j == js[0] else rng.random() < 0.8)
    # loads
    scale = 0.02 if gas else 0.5
    for j in js[1:]:
        r = rng.random()
        if r < 0.55:
            b.add("create_sink", "sink", junction=j, mdot_kg_per_s=scale * rng.choice([0.2, 0.5, 1.0, 2.0]),
                  scaling=rng.choice([1., 1., 0.5, 2.]), in_service=rng.random() < 0.9)
        if r > 0.8:
            b.add("create_source", "source", junction=j, mdot_kg_per_s=scale * rng.choice([0.1, 0.3]),
                  scaling=rng.choice([1., 1.5]), in_service=rng.random() < 0.9)
        if 0.5 < r < 0.6:
            b.add("create_mass_storage", "mass_storage", junction=j, mdot_kg_per_s=scale * rng.choice([0.2, -0.1]),
                  scaling=rng.choice([1., 0.5]), in_service=rng.random() < 0.9)
        if r < 0.1:   # a second sink on the same junction
            b.add("create_sink", "sink", junction=j, mdot_kg_per_s=scale * 0.3)
    # unsupplied island / out-of-service junction
    if f.get("island", rng.random() < 0.35):
        k = rng.randint(1, 3)
        isl = [b.add("create_junction", "junction", pn_bar=p0, tfluid_k=t0, height_m=0.) for _ in range(k)]
        for x, y in zip(isl, isl[1:]):
            pipe(x, y)
        b.add("create_sink", "sink", junction=isl[-1], mdot_kg_per_s=scale)
        r = rng.random()
        if r < 0.4:
            pipe(rng.choice(js), isl[0], in_service=False)
        elif r < 0.7:
            b.add("create_valve", "valve", junction=rng.choice(js), element=isl[0], et="ju", inner_diameter_mm=80.,
                  opened=False)
    if f.get("oos_junction", rng.random() < 0.15) and n > 3:
        # a leaf junction out of service together with everything attached to it
        leaf = b.add("create_junction", "junction", pn_bar=p0, tfluid_k=t0, height_m=0., in_service=False)
        pipe(rng.choice(js), leaf, in_service=False)
    return b.spec()


def _gen_heat(rng, size, label_mode, f):
    b = _B(rng, "water", label_mode)
    k = size or rng.randint(1, 4)                       # number of consumer rungs
    p0, tf = rng.choice([5.0, 8.0]), rng.choice([350.15, 360.15, 380.15])
    sup = [b.add("create_junction", "junction", pn_bar=p0, tfluid_k=tf - 5) for _ in range(k + 1)]
    ret = [b.add("create_junction", "junction", pn_bar=p0, tfluid_k=tf - 40) for _ in range(k + 1)]

    def pipe(a, c):
        return b.add("create_pipe_from_parameters", "pipe", from_junction=a, to_junction=c,
                     length_km=rng.choice([0.1, 0.3, 0.8]), inner_diameter_mm=rng.choice([80., 100., 150.]),
                     k_mm=0.1, sections=rng.choice([1, 1, 2, 3, 4]), u_w_per_m2k=rng.choice([0., 0.5, 1.5, 5.0]),
                     text_k=rng.choice([273.15, 283.15, 293.15]))
    for i in range(k):
        a, c = sup[i], sup[i + 1]
        if rng.random() < 0.3:
            a, c = c, a                                  # declared against the flow direction
        pipe(a, c)
        a, c = ret[i + 1], ret[i]
        if rng.random() < 0.3:
            a, c = c, a
        pipe(a, c)
    if k >= 2 and rng.random() < 0.4:
        pipe(sup[0], sup[k])                             # supply-side mesh
    mass_pump = f.get("mass_pump", rng.random() < 0.4)
    modes = []
    for i in range(1, k + 1):
        r = rng.random()
        md = rng.choice([0.3, 0.6, 1.0])
        if r < 0.55 or (mass_pump and i == k):
            mode = f.get("hc_mode") or rng.choice(["MF_QE", "MF_DT", "MF_TR"] + (["QE_DT", "QE_TR"] if not mass_pump else []))
            kw = dict(from_junction=sup[i], to_junction=ret[i])
            if mode == "MF_QE":
                kw.update(controlled_mdot_kg_per_s=md, qext_w=rng.choice([20000., 50000., -10000.]))
            elif mode == "MF_DT":
                kw.update(controlled_mdot_kg_per_s=md, deltat_k=rng.choice([15., 25.]))
            elif mode == "MF_TR":
                kw.update(controlled_mdot_kg_per_s=md, treturn_k=rng.choice([320.15, 330.15]))
            elif mode == "QE_DT":
                kw.update(qext_w=rng.choice([30000., 60000.]), deltat_k=rng.choice([20., 30.]))
            else:
                kw.update(qext_w=rng.choice([30000., 60000.]), treturn_k=rng.choice([320.15, 330.15]))
            b.add("create_heat_consumer", "heat_consumer", **kw)
            modes.append(mode)
        else:
            mid = b.add("create_junction", "junction", pn_bar=p0, tfluid_k=tf - 20)
            b.add("create_flow_control", "flow_control", from_junction=sup[i], to_junction=mid,
                  controlled_mdot_kg_per_s=md)
            b.add("create_heat_exchanger", "heat_exchanger", from_junction=mid, to_junction=ret[i],
                  qext_w=rng.choice([20000., 40000.]), inner_diameter_mm=80.)
            modes.append("FC_HEX")
    if mass_pump:
        b.add("create_circ_pump_const_mass_flow", "circ_pump_mass", return_junction=ret[0], flow_junction=sup[0],
              p_flow_bar=p0, mdot_flow_kg_per_s=rng.choice([2.0, 3.0]), t_flow_k=tf)
        # with a mass pump the loop needs a free path: last rung is a plain valve-less pipe
        b.add("create_pipe_from_parameters", "pipe", from_junction=sup[k], to_junction=ret[k], length_km=0.05,
              inner_diameter_mm=50., k_mm=0.1, sections=1, u_w_per_m2k=0., text_k=283.15)
    else:
        b.add("create_circ_pump_const_pressure", "circ_pump_pressure", return_junction=ret[0], flow_junction=sup[0],
              p_flow_bar=p0, plift_bar=rng.choice([1.0, 2.0]), t_flow_k=tf)
    s = b.spec()
    s["heat_modes"] = modes
    return s


def describe(spec):
    """small summary used for evidence distributions / non-triviality rules"""
    c = {}
    for fn, kw in spec["ops"]:
        c[fn.replace("create_", "").replace("_from_parameters", "")] = c.get(fn.replace("create_", "").replace("_from_parameters", ""), 0) + 1
    js = [kw["index"] for fn, kw in spec["ops"] if fn == "create_junction"]
    oos = sum(1 for fn, kw in spec["ops"] if kw.get("in_service") is False or kw.get("opened") is False
              or kw.get("control_active") is False)
    multi = sum(1 for fn, kw in spec["ops"] if kw.get("sections", 1) > 1)
    return {"counts": c, "junctions": len(js), "oos": oos, "multi_section": multi,
            "contiguous": js == list(range(len(js))), "fluid": spec["fluid"]}
