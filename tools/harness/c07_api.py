"""C07 API monitor: the same generated net under use_numba True/False and with / without
only_update_hydraulic_matrix + reuse_internal_data across a sequence of load changes on ONE net object.

Reference = a freshly built net, numpy kernels, fresh matrix assembly, for every load step.
All runs use tight solver tolerances, so two converged runs of the same system agree to ~1e-12; the comparison
bound is rtol = atol = 1e-9 (documented in design_notes/C07.md)."""
import copy

from harness import gen, drive

TIGHT = dict(tol_p=1e-10, tol_m=1e-10, tol_T=1e-9, tol_res=1e-9, iter=100)
RTOL = ATOL = 1e-9


def add_pressure_control(rng, spec, controlled="to"):
    """insert  a --pipe--> x --PC--> c  in front of a leaf sink junction c  (controlled junction: c = to junction, or the
    junction behind one more pipe).  Returns the new spec (or None if the net has no suitable pipe)."""
    spec = copy.deepcopy(spec)
    ops = spec["ops"]
    pipes = [(i, kw) for i, (fn, kw) in enumerate(ops) if fn == "create_pipe_from_parameters" and kw.get("in_service", True)]
    juncs = [kw for fn, kw in ops if fn == "create_junction"]
    if not pipes or not juncs:
        return None
    i, pk = rng.choice(pipes)
    jl = [kw["index"] for kw in juncs]
    new_j = max(jl) + 1 + rng.randrange(3)
    j0 = dict(juncs[0])
    j0["index"] = new_j
    j0["height_m"] = 0.
    ops.insert(len(juncs), ["create_junction", j0])
    old_to = pk["to_junction"]
    pk["to_junction"] = new_j                       # pipe now ends at the new junction
    pc = {"from_junction": new_j, "to_junction": old_to, "controlled_junction": old_to,
          "controlled_p_bar": round(0.8 * j0["pn_bar"], 3), "index": rng.randrange(0, 50)}
    if controlled == "far":
        far = max(jl) + 10
        jf = dict(j0)
        jf["index"] = far
        ops.insert(len(juncs), ["create_junction", jf])
        ops.append(["create_pipe_from_parameters", {"from_junction": old_to, "to_junction": far, "length_km": 0.1,
                                                    "inner_diameter_mm": 100., "k_mm": 0.1, "index": 9000 + rng.randrange(50)}])
        ops.append(["create_sink", {"junction": far, "mdot_kg_per_s": 0.01, "index": 9000 + rng.randrange(50)}])
        pc["controlled_junction"] = far
    ops.append(["create_pressure_control", pc])
    spec["pc"] = controlled
    return spec


def gas_heat_net(rng, fluid=None):
    """small gas net for a sequential (hydraulics + heat) run with a pipe declared against the flow direction"""
    fluid = fluid or rng.choice(gen.GASES)
    t0 = rng.choice([330.15, 350.15])
    ops = []
    n = rng.randint(3, 5)
    for i in range(n):
        ops.append(["create_junction", {"pn_bar": 3.0, "tfluid_k": 293.15, "index": i}])
    ops.append(["create_ext_grid", {"junction": 0, "p_bar": 3.0, "t_k": t0, "index": 0}])
    for i in range(n - 1):
        a, c = i, i + 1
        if i == 0 or rng.random() < 0.5:
            a, c = c, a                              # reverse declaration -> negative mass flow -> switched in heat mode
        ops.append(["create_pipe_from_parameters", {"from_junction": a, "to_junction": c, "length_km": rng.choice([0.3, 1.0]),
                                                    "inner_diameter_mm": 100., "k_mm": 0.1, "sections": rng.choice([1, 2]),
                                                    "u_w_per_m2k": rng.choice([2.0, 10.0]), "text_k": 283.15, "index": i}])
    ops.append(["create_sink", {"junction": n - 1, "mdot_kg_per_s": rng.choice([0.02, 0.05]), "index": 0}])
    return {"fluid": fluid, "ops": ops, "mode": "sequential"}


def pc_chain_net(rng, fluid=None, controlled="to"):
    """ext grid -> pipe -> pressure controller -> pipes -> sink (controlled junction = to junction of the PC, or the
    junction one pipe further)"""
    fluid = fluid or rng.choice(["water"] + gen.GASES)
    gas = fluid != "water"
    ops = [["create_junction", {"pn_bar": 5.0, "tfluid_k": 293.15, "index": i}] for i in range(5)]
    ops.append(["create_ext_grid", {"junction": 0, "p_bar": 5.0, "t_k": 293.15, "index": 0}])
    d = rng.choice([80., 100., 150.])
    for i, (a, c) in enumerate([(0, 1), (2, 3), (3, 4)]):
        ops.append(["create_pipe_from_parameters", {"from_junction": a, "to_junction": c, "length_km": rng.choice([0.2, 0.5]),
                                                    "inner_diameter_mm": d, "k_mm": 0.1, "index": i}])
    ops.append(["create_pressure_control", {"from_junction": 1, "to_junction": 2,
                                            "controlled_junction": 2 if controlled == "to" else 3,
                                            "controlled_p_bar": rng.choice([4.0, 4.5]), "index": 0}])
    ops.append(["create_sink", {"junction": 4, "mdot_kg_per_s": (0.02 if gas else 0.5) * rng.choice([0.5, 1.0]), "index": 0}])
    return {"fluid": fluid, "ops": ops, "pc": controlled}


def set_loads(net, factor):
    for t in ("sink", "source"):
        if t in net and len(net[t]):
            net[t]["mdot_kg_per_s"] = net[t]["mdot_kg_per_s"].values * factor


def run_variant(spec, factors, mode, use_numba, update, reuse, one_object, opts=None):
    """-> list of (status, snapshot or None) per load step"""
    out = []
    net = None
    for f in factors:
        if net is None or not one_object:
            net = gen.build(spec)
            cum = 1.0
        set_loads(net, f / cum)
        cum = f
        kw = dict(opts or TIGHT, mode=mode, use_numba=use_numba, only_update_hydraulic_matrix=update, reuse_internal_data=reuse)
        st, msg = drive.run(net, **kw)
        out.append((st, drive.snapshot_results(net) if st == "ok" else None, msg))
    return out


VARIANTS = [  # name, use_numba, update, reuse, one_object
    ("numba", True, False, False, False),
    ("update", False, True, False, False),
    ("update+reuse(one net object)", False, True, True, True),
    ("numba+update+reuse(one net object)", True, True, True, True),
]


def col_class(c):
    if c.startswith("lambda"):
        return "lambda"
    if "mdot" in c or "vdot" in c or c.startswith("v_") or c.startswith("reynolds"):
        return "flow"
    return "state"


def diff_results(a, b):
    """differences between two result snapshots, tolerance per column class (design_notes/C07.md):
    state (p, T, norm factors, powers): rtol 1e-8 + atol 1e-9;
    flow (mdot, vdot, v, Re): atol 1e-6 * max|column| + floor (1e-7 kg/s, 1e-4 m/s, Re 1): a branch with zero pressure
      difference has dp ~ m^2, so the Newton iteration determines m there only to ~sqrt(tolerance);
    lambda: only where Re > 1 (64/Re of a numerically-zero flow is noise); rows of a branch table whose |mdot| <= 1e-6 kg/s
    on both sides are compared in p / T only."""
    diffs = []
    for t in sorted(set(a) | set(b)):
        if t not in a or t not in b:
            diffs.append((t, "<table>", None, "missing on one side"))
            continue
        if a[t]["index"] != b[t]["index"]:
            diffs.append((t, "<index>", None, "row labels differ"))
            continue
        for c in sorted(set(a[t]["cols"]) | set(b[t]["cols"])):
            if c not in a[t]["cols"] or c not in b[t]["cols"]:
                diffs.append((t, c, None, "column missing on one side"))
                continue
            xa, xb = a[t]["cols"][c], b[t]["cols"][c]
            cls = col_class(c)
            nums = [abs(x) for x in xa if isinstance(x, float)]
            scale = max(nums) if nums else 0.
            re_a = a[t]["cols"].get("reynolds")
            ma, mb = a[t]["cols"].get("mdot_from_kg_per_s"), b[t]["cols"].get("mdot_from_kg_per_s")
            for p, (x, y) in enumerate(zip(xa, xb)):
                if ma is not None and cls != "state" or c.startswith("dp_friction"):
                    # a branch that does not flow (|m| <= 1e-6 kg/s in both runs): its velocity, Re, lambda and friction
                    # loss are numerical noise (dp ~ m^2: m is determined only to ~sqrt(tolerance) there)
                    if ma is not None and ma[p] is not None and mb[p] is not None and abs(ma[p]) <= 1e-6 and abs(mb[p]) <= 1e-6:
                        continue
                if x is None or y is None:
                    if x is not y:
                        diffs.append((t, c, a[t]["index"][p], "%r vs %r" % (x, y)))
                    continue
                if not (isinstance(x, float) and isinstance(y, float)):
                    if x != y:
                        diffs.append((t, c, a[t]["index"][p], "%r vs %r" % (x, y)))
                    continue
                if cls == "lambda" and re_a is not None and (re_a[p] is None or abs(re_a[p]) <= 1.0):
                    continue
                floor = 1.0 if c.startswith("reynolds") else 1e-4 if c.startswith("v_") else 1e-7
                tol = (1e-9 + 1e-8 * max(abs(x), abs(y))) if cls == "state" else \
                    (1e-6 * scale + floor) if cls == "flow" else 1e-6 * max(abs(x), abs(y))
                if not (x == y or abs(x - y) <= tol):
                    diffs.append((t, c, a[t]["index"][p], "%r vs %r" % (x, y)))
    return diffs


def compare_all(spec, factors, mode, variants=VARIANTS, opts=None):
    """-> (reference statuses, list of disagreements (variant, step, kind, detail, columns))"""
    ref = run_variant(spec, factors, mode, False, False, False, False, opts)
    dis = []
    for name, nb, upd, reuse, one in variants:
        fs = factors if one or nb else factors[:1]       # a fresh net per step adds nothing after the first step
        got = run_variant(spec, fs, mode, nb, upd, reuse, one, opts)
        for step, ((rs, rsnap, _), (gs, gsnap, gmsg)) in enumerate(zip(ref, got)):
            if rs != gs:
                dis.append((name, step, "status", "%s (reference: %s) %s" % (gs, rs, gmsg[:120]), [gs]))
                if one:
                    break                    # the object is in an undefined state afterwards
            elif rs == "ok":
                d = diff_results(rsnap, gsnap)
                if d:
                    dis.append((name, step, "values", "; ".join("%s.%s[%s]: %s" % x for x in d[:3]),
                                sorted(set("%s.%s" % (x[0], x[1]) for x in d))))
    return [r[0] for r in ref], dis
