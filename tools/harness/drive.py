"""Driving the real pandapipes pipeline stage by stage and taking snapshots (no source hooks).

    st = stages(net, **options)        init_options .. reduce_pit(hydraulics); returns dict with pits/lookups
    snapshot_tables(net)               deep, NaN-aware canonical snapshot of all user tables (C12/C13/C16/C17)
    snapshot_results(net)              all res_* tables as {table: {col: [values]}} with NaN -> None
    run(net, **kw)                     pipeflow -> ("ok"|"PipeflowNotConverged"|other exception class, message)
    same_results(a, b, rtol, atol)     compare two result snapshots -> list of differences
"""
import math
import sys

import numpy as np


def psetup():
    import pandapipes  # noqa: F401
    return sys.modules["pandapipes.pf.pipeflow_setup"]


def ppipeflow():
    import pandapipes  # noqa: F401
    return sys.modules["pandapipes.pipeflow"]


def stages(net, mode_stage="hydraulics", **kw):
    """Run the set-up phases of pipeflow exactly as pipeflow() does, stop before the Newton loop."""
    s = psetup()
    s.init_options(net, **kw)
    s.init_all_result_tables(net)
    s.create_lookups(net)
    s.initialize_pit(net)
    net.converged = False
    s.identify_active_nodes_branches(net)
    s.reduce_pit(net, mode="hydraulics")
    net["_internal_data"] = dict()
    return {"node_pit": net["_pit"]["node"], "branch_pit": net["_pit"]["branch"],
            "active_node_pit": net["_active_pit"]["node"], "active_branch_pit": net["_active_pit"]["branch"],
            "lookups": net["_lookups"], "options": net["_options"]}


def run(net, **kw):
    import pandapipes as pp
    try:
        pp.pipeflow(net, **kw)
        return "ok", ""
    except Exception as e:  # noqa: BLE001 - the class name is the observation
        return type(e).__name__, str(e)[:300]


def _canon(v):
    if v is None:
        return None
    if isinstance(v, (bool, np.bool_)):
        return bool(v)
    if isinstance(v, (int, np.integer)):
        return int(v)
    if isinstance(v, (float, np.floating)):
        f = float(v)
        return None if math.isnan(f) else ("inf" if f == math.inf else "-inf" if f == -math.inf else f.hex())
    if isinstance(v, str):
        return v
    if isinstance(v, (list, tuple, np.ndarray)):
        return [_canon(x) for x in v]
    return repr(v)


def user_tables(net):
    import pandas as pd
    return [k for k in net.keys() if isinstance(net[k], pd.DataFrame) and not k.startswith("res_")
            and not k.startswith("_")]


def snapshot_tables(net, hexfloats=True):
    """bit-exact snapshot of every user table: index, column order, dtypes, values"""
    out = {}
    for t in sorted(user_tables(net)):
        df = net[t]
        out[t] = {"index": [_canon(i) for i in df.index.tolist()], "columns": list(map(str, df.columns)),
                  "dtypes": [str(d) for d in df.dtypes.tolist()],
                  "values": [[_canon(x) for x in row] for row in df.values.tolist()]}
    return out


def snapshot_results(net):
    import pandas as pd
    out = {}
    for k in sorted(net.keys()):
        if k.startswith("res_") and isinstance(net[k], pd.DataFrame):
            df = net[k]
            out[k] = {"index": [int(i) for i in df.index.tolist()],
                      "cols": {str(c): [None if (isinstance(x, float) and math.isnan(x)) else
                                        (float(x) if isinstance(x, (float, np.floating, int, np.integer)) else repr(x))
                                        for x in df[c].tolist()] for c in df.columns}}
    return out


def same_results(a, b, rtol=0.0, atol=0.0, index_map=None):
    """differences between two result snapshots; index_map: {table: {index_in_a: index_in_b}}"""
    diffs = []
    for t in sorted(set(a) | set(b)):
        if t not in a or t not in b:
            diffs.append((t, "table missing on one side"))
            continue
        ia, ib = a[t]["index"], b[t]["index"]
        m = (index_map or {}).get(t[4:], None)
        pos_b = {i: p for p, i in enumerate(ib)}
        for c in sorted(set(a[t]["cols"]) | set(b[t]["cols"])):
            if c not in a[t]["cols"] or c not in b[t]["cols"]:
                diffs.append((t, "column %s missing on one side" % c))
                continue
            for p, i in enumerate(ia):
                j = m[i] if m else i
                if j not in pos_b:
                    diffs.append((t, "row %s missing" % j))
                    continue
                x, y = a[t]["cols"][c][p], b[t]["cols"][c][pos_b[j]]
                if x is None or y is None:
                    if x is not y:
                        diffs.append((t, "%s[%s]: %r vs %r" % (c, i, x, y)))
                elif isinstance(x, float) and isinstance(y, float):
                    if not (x == y or abs(x - y) <= atol + rtol * max(abs(x), abs(y))):
                        diffs.append((t, "%s[%s]: %r vs %r" % (c, i, x, y)))
                elif x != y:
                    diffs.append((t, "%s[%s]: %r vs %r" % (c, i, x, y)))
    return diffs


def all_results_nan(net):
    """True iff no result table holds a number"""
    import pandas as pd
    for k in net.keys():
        if k.startswith("res_") and isinstance(net[k], pd.DataFrame) and len(net[k]):
            num = net[k].select_dtypes(include=[np.number])
            if num.size and not np.all(np.isnan(num.values.astype(float))):
                return False
    return True
