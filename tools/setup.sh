#!/bin/sh
# MANIFEST.setup_cmd: offline build of the whole Coq development from files on disk.
set -e
cd "$(dirname "$0")/.."
export PYTHONPATH=/repo/src PYTHONHASHSEED=0 PIP_NO_INDEX=1
mkdir -p .scratch coq/Gen evidence replay
/venv/bin/python tools/gen_all.py
/venv/bin/python -c "
import sys; sys.path.insert(0,'tools'); import vlib; vlib.ensure_makefile()"
cd coq
timeout 3000 make -j16 2>&1 | grep -v '^Closed under\|^COQDEP\|^COQC' | tail -40
timeout 3000 make -j16 >/dev/null 2>&1   # exit status of the build proper
echo "setup ok"
