#!/bin/sh
# MANIFEST.setup_cmd: offline build of the whole Coq development from files on disk.
# Tolerant (make -k): a file that does not build only breaks the checks that depend on it; each
# check rebuilds the closure of its own Props.v anyway and reports a broken obligation itself.
cd "$(dirname "$0")/.."
: "${VERIF_REPO:=/repo}"
export VERIF_REPO PYTHONPATH="$VERIF_REPO/src" PYTHONHASHSEED=0 PIP_NO_INDEX=1
mkdir -p .scratch coq/Gen evidence replay
/venv/bin/python tools/gen_all.py 2>&1 | grep -v 'WARNING conda'
/venv/bin/python -c "
import sys; sys.path.insert(0,'tools'); import vlib; vlib.ensure_makefile()" || exit 1
cd coq
timeout 3400 make -k -j16 > ../.scratch/setup_build.log 2>&1
rc=$?
grep -E '^File |^Error|Error:' ../.scratch/setup_build.log | head -20
echo "setup: make exit status $rc ($(ls */*.vo 2>/dev/null | wc -l) .vo files)"
exit 0
