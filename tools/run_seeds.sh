#!/bin/sh
# run every stored seeded change (seeded/<Cxx-n>/) against the check of the property it breaks; 4 in parallel
cd "$(dirname "$0")/.."
ls -d seeded/C*/ | sed 's#/$##' | while read d; do
  p=$(python3 -c "import json,sys;print(json.load(open('$d/meta.json')).get('breaks_property') or json.load(open('$d/meta.json'))['property'])")
  echo "$d $p"
done | xargs -P ${SEED_JOBS:-4} -L 1 sh -c 'tools/seedtest.sh $0 $1 | head -1' 2>&1 | sort | cut -c1-200
