"""Shared machinery of every check (DESIGN.md 2.5): Coq build / evaluation, obligation
accounting, verdict logic (VIOLATION / KNOWN-FINDING / no-failing-input-found), evidence.

A property module `tools/props/cXX.py` exposes `run(ctx)` and uses only this API:

    ctx.gen(name, text)                 write coq/Gen/<name>.v if its text changed (T-tie)
    ctx.prove("C14")                    make the closure of coq/C14/Props.v, compile Props.v,
                                        collect theorems + Print Assumptions -> obligations
    ctx.coq_eval(text, name)            evaluate a generated .v (cases file) -> stdout
    ctx.coq_counts(text, name)          same, parse a line  `= (n, m, k)`  (cases, mismatches, first)
    ctx.corr(name, n, mism, detail)     record a correspondence run
    ctx.case(sample, nontrivial, key)   record one explored case (for evidence counts)
    ctx.violation(signature, what, replay)   a concrete failing input found
    ctx.broken(kind, name, excerpt)     an obligation / correspondence no longer checks
    ctx.finish()                        decide, write evidence, exit
"""
import fcntl
import hashlib
import json
import os
import random
import re
import shutil
import subprocess
import sys
import time

VERIF = os.path.dirname(os.path.dirname(os.path.abspath(__file__)))
REPO = os.environ.get("VERIF_REPO", "/repo")
SRC = os.path.join(REPO, "src", "pandapipes")
COQ = os.environ.get("VERIF_COQ") or os.path.join(VERIF, "coq")
SCRATCH_ROOT = os.path.join(VERIF, ".scratch")
FORBIDDEN = re.compile(
    r"\b(Admitted|admit|Axiom|Axioms|Parameter|Parameters|Conjecture|Admit Obligations|"
    r"Unset Guard Checking|bypass_check|Unset Positivity Checking|Unset Universe Checking|"
    r"type-in-type|impredicative-set|native_compute)\b")

BASE_TRUSTED = [
    "Coq 8.16.1 kernel and vm_compute (no native_compute); full .vo build, no -vos",
    "translator / generators in /verif/tools (Python ast -> Coq text), regenerated on every run",
    "correspondence harness in /verif/tools (runs /repo code and the Coq model on the same inputs)",
    "modelled, not verified: IEEE rounding, scipy spsolve/newton/interp1d, pandas, networkx, "
    "numba code generation, pandapower control/timeseries/JSON machinery",
]


def sh(cmd, timeout=600, cwd=None, env=None):
    e = dict(os.environ)
    if env:
        e.update(env)
    try:
        p = subprocess.run(cmd, shell=isinstance(cmd, str), cwd=cwd, env=e, timeout=timeout,
                           stdout=subprocess.PIPE, stderr=subprocess.STDOUT, text=True)
        return p.returncode, p.stdout
    except subprocess.TimeoutExpired as ex:
        out = ex.stdout or ""
        if isinstance(out, bytes):
            out = out.decode("utf8", "replace")
        return 124, out + "\n[timeout after %ss]" % timeout


class BuildLock:
    def __enter__(self):
        self.f = open(os.path.join(VERIF, ".build.lock"), "w")
        fcntl.flock(self.f, fcntl.LOCK_EX)
        return self

    def __exit__(self, *a):
        fcntl.flock(self.f, fcntl.LOCK_UN)
        self.f.close()


def coq_files():
    out = []
    for d, _, fs in os.walk(COQ):
        for f in sorted(fs):
            if f.endswith(".v") and not f.startswith("."):
                out.append(os.path.relpath(os.path.join(d, f), COQ))
    return sorted(out)


def ensure_makefile():
    """(Re)create _CoqProject / Makefile when the set of .v files changed."""
    files = coq_files()
    proj = "-Q . PP\n-arg -w -arg -notation-overridden,-deprecated-hint-without-locality," \
           "-deprecated-instance-without-locality,-ambiguous-paths\n" + "\n".join(files) + "\n"
    pth = os.path.join(COQ, "_CoqProject")
    old = open(pth).read() if os.path.exists(pth) else None
    if old != proj or not os.path.exists(os.path.join(COQ, "Makefile")):
        open(pth, "w").write(proj)
        rc, out = sh("coq_makefile -f _CoqProject -o Makefile", cwd=COQ, timeout=120)
        if rc != 0:
            raise RuntimeError("coq_makefile failed:\n" + out)


def lint_sources():
    """No Admitted / Axiom / disabled checks anywhere in the development."""
    bad = []
    for f in coq_files():
        txt = open(os.path.join(COQ, f)).read()
        txt_nc = strip_coq_comments(txt)
        for m in FORBIDDEN.finditer(txt_nc):
            bad.append("%s: %s" % (f, m.group(0)))
    return bad


def strip_coq_comments(txt):
    out, depth, i = [], 0, 0
    while i < len(txt):
        if txt.startswith("(*", i):
            depth += 1
            i += 2
        elif txt.startswith("*)", i) and depth:
            depth -= 1
            i += 2
        else:
            if not depth:
                out.append(txt[i])
            i += 1
    return "".join(out)


def write_if_changed(path, text):
    old = open(path).read() if os.path.exists(path) else None
    if old != text:
        os.makedirs(os.path.dirname(path), exist_ok=True)
        with open(path, "w") as f:
            f.write(text)
        return True
    return False


def load_known():
    """known_findings.json (committed, coordinator) merged with per-property known/Cxx.json files"""
    out = []
    p = os.path.join(VERIF, "known_findings.json")
    if os.path.exists(p):
        out += json.load(open(p)).get("findings", [])
    kd = os.path.join(VERIF, "known")
    if os.path.isdir(kd):
        for f in sorted(os.listdir(kd)):
            if f.endswith(".json"):
                out += json.load(open(os.path.join(kd, f))).get("findings", [])
    return out


def sig_matches(entry_sig, sig):
    """A known entry matches iff every key of its signature is present with an equal value."""
    return all(k in sig and sig[k] == v for k, v in entry_sig.items())


class Ctx:
    def __init__(self, pid, tier, seed):
        self.pid, self.tier, self.seed = pid, tier, seed
        self.t0 = time.time()
        self.rng = random.Random(seed * 1000003 + int(pid[1:]))
        self.scratch = os.path.join(SCRATCH_ROOT, "%s_%d" % (pid, os.getpid()))
        os.makedirs(self.scratch, exist_ok=True)
        self.obligations = []          # (name, ok)
        self.axioms = set()
        self.corrs = []                # dicts
        self.samples = []
        self.case_keys = set()
        self.nontrivial_keys = set()
        self.evaluations = 0
        self.violations = []           # printed VIOLATION
        self.known_hits = []
        self.brokens = []              # (kind, name, excerpt)
        self.notes = []
        self.dist = {}
        self.assumptions = []
        self.extra = {}
        self.gen_changed = []
        self.known = [k for k in load_known() if k.get("property") == pid]
        self.quick = tier == "quick"

    # ---------------------------------------------------------------- generation / build
    def gen(self, name, text):
        path = os.path.join(COQ, "Gen", name + ".v")
        with BuildLock():
            if write_if_changed(path, text):
                self.gen_changed.append(name)
        return path

    def make(self, targets, timeout=1500):
        with BuildLock():
            ensure_makefile()
            t = " ".join(targets)
            rc, out = sh("timeout %d make -j12 %s" % (timeout, t), cwd=COQ, timeout=timeout + 30)
        return rc, out

    def prove(self, sub, props="Props", timeout=1500):
        """Build the closure of coq/<sub>/<props>.v and account its theorems as obligations.
        Returns True iff everything compiled."""
        bad = lint_sources()
        if bad:
            self.broken("lint", "forbidden-construct", "; ".join(bad[:10]))
            return False
        rel = "%s/%s.v" % (sub, props)
        src = open(os.path.join(COQ, rel)).read()
        thms = re.findall(r"^\s*(?:Theorem|Lemma|Corollary)\s+([A-Za-z0-9_']+)", strip_coq_comments(src), re.M)
        # dependencies first (so a failure is attributed to the right file), then Props itself,
        # always recompiled so that Print Assumptions output is from this run.
        with BuildLock():
            ensure_makefile()
            try:
                os.remove(os.path.join(COQ, rel + "o"))
            except OSError:
                pass
            rc, out = sh("timeout %d make -j12 %so" % (timeout, rel), cwd=COQ, timeout=timeout + 30)
        self.extra.setdefault("build_logs", []).append(out[-1500:] if rc else "ok: %s" % rel)
        if rc != 0:
            m = re.search(r'File "\./([^"]+)", line (\d+)', out)
            where = "%s:%s" % (m.group(1), m.group(2)) if m else rel
            # attribute to a named theorem if possible
            name = where
            if m:
                name = where + " (" + (self._theorem_at(m.group(1), int(m.group(2))) or "?") + ")"
            for t in thms:
                self.obligations.append((sub + "." + t, False))
            self.broken("obligation", name, out[-1200:])
            return False
        # parse Print Assumptions blocks
        closed = out.count("Closed under the global context")
        for ax in re.findall(r"^([A-Za-z_][\w']*(?:\.[A-Za-z_][\w']*)+)\s*(?::|$)", out, re.M):
            self.axioms.add(ax)
        n_pa = len(re.findall(r"Print\s+Assumptions", strip_coq_comments(src)))
        if n_pa < len(thms):
            self.note("%s: %d theorems but only %d Print Assumptions" % (rel, len(thms), n_pa))
        for t in thms:
            self.obligations.append((sub + "." + t, True))
        self.extra.setdefault("print_assumptions", {})[rel] = {"closed": closed, "blocks": n_pa}
        if not self.quick and os.environ.get("VERIF_NO_COQCHK") != "1":
            self.coqchk(sub, props)
        return True

    def coqchk(self, sub, props="Props", timeout=2400):
        """thorough tier: re-check the compiled closure of the property theorems with Coq's independent
        checker and record the axioms it lists (DESIGN 2.5 / trusted base)."""
        mod = "PP.%s.%s" % (sub, props)
        rc, out = sh("timeout %d coqchk -silent -o -Q %s PP %s" % (timeout, COQ, mod), cwd=COQ, timeout=timeout + 60)
        summ = out[out.find("CONTEXT SUMMARY"):] if "CONTEXT SUMMARY" in out else out[-1500:]
        axioms = []
        m = re.search(r"\* Axioms:(.*?)\n\s*\n\* Constants/Inductives relying on type-in-type", summ, re.S)
        if m:
            axioms = [l.strip() for l in m.group(1).strip().split("\n") if l.strip() and l.strip() != "<none>"]
        bad = [k for k in ("type-in-type", "unsafe (co)fixpoints", "positivity is assumed")
               if re.search(re.escape(k) + r": (?!<none>)", summ)]
        self.extra.setdefault("coqchk", {})[mod] = {"exit": rc, "axioms": axioms, "flags_not_none": bad,
                                                    "summary_excerpt": summ[:1200]}
        if rc == 124:
            self.note("coqchk on %s timed out after %ds (recorded, not an obligation)" % (mod, timeout))
        elif rc != 0 or bad:
            self.broken("coqchk", mod, summ[-1200:])
        return rc

    def _theorem_at(self, rel, line):
        try:
            lines = open(os.path.join(COQ, rel)).read().split("\n")[:line]
        except OSError:
            return None
        for l in reversed(lines):
            m = re.match(r"\s*(?:Theorem|Lemma|Corollary|Example|Definition|Fixpoint)\s+([A-Za-z0-9_']+)", l)
            if m:
                return m.group(1)
        return None

    def coq_eval(self, text, name="cases", timeout=900):
        path = os.path.join(self.scratch, name + ".v")
        with open(path, "w") as f:
            f.write(text)
        rc, out = sh("ulimit -s unlimited 2>/dev/null; timeout %d coqc -Q %s PP -w none %s" % (timeout, COQ, path),
                     cwd=self.scratch, timeout=timeout + 30)
        return rc, out

    def coq_counts(self, text, name="cases", timeout=900):
        """Evaluate; every `Eval vm_compute in (...)` must print `= (n, m, k)`; returns list of triples."""
        rc, out = self.coq_eval(text, name, timeout)
        if rc != 0:
            return None, out
        flat = re.sub(r"\s+", " ", out)
        trip = [(int(a), int(b), int(c)) for a, b, c in
                re.findall(r"= \((\d+)(?:%\w+)?, (\d+)(?:%\w+)?, \(?(-?\d+)\)?(?:%\w+)?\)", flat)]
        return trip, out

    # ---------------------------------------------------------------- accounting
    def note(self, s):
        self.notes.append(s)
        print("note: " + s)

    def count(self, key, n=1):
        self.dist[key] = self.dist.get(key, 0) + n

    def case(self, sample, nontrivial, key=None):
        self.evaluations += 1
        if key is None:
            key = hashlib.sha1(json.dumps(sample, sort_keys=True, default=str).encode()).hexdigest()
        self.case_keys.add(key)
        if nontrivial:
            self.nontrivial_keys.add(key)
        if len(self.samples) < 4 and (nontrivial or not self.samples):
            s = json.dumps(sample, default=str)
            self.samples.append(json.loads(s) if len(s) < 3000 else s[:3000] + "...")

    def corr(self, name, n, mismatches, detail=""):
        self.corrs.append({"name": name, "cases": n, "mismatches": mismatches, "detail": detail})

    # ---------------------------------------------------------------- verdict
    def replay_path(self, obj):
        h = hashlib.sha1(json.dumps(obj, sort_keys=True, default=str).encode()).hexdigest()[:12]
        os.makedirs(os.path.join(VERIF, "replay"), exist_ok=True)
        p = os.path.join(VERIF, "replay", "%s_%s.json" % (self.pid, h))
        with open(p, "w") as f:
            json.dump(obj, f, indent=1, default=str, sort_keys=True)
        return p

    def violation(self, signature, what, replay):
        """A concrete input on which the property fails on the current tree."""
        for k in self.known:
            if k.get("status") == "known" and sig_matches(k["signature"], signature):
                if k["id"] not in [h[0] for h in self.known_hits]:
                    self.known_hits.append((k["id"], what))
                    print("KNOWN-FINDING: property=%s %s [%s] %s" % (self.pid, k["id"], k.get("what", ""), what))
                return "known"
        if signature in [v[0] for v in self.violations]:
            return "violation"          # one replay file / VIOLATION line per distinct signature
        if len(self.violations) >= 25:
            self.extra["violations_not_listed"] = self.extra.get("violations_not_listed", 0) + 1
            return "violation"
        obj = {"property": self.pid, "kind": "input", "seed": self.seed, "tier": self.tier,
               "signature": signature, "what": what, "replay": replay}
        p = self.replay_path(obj)
        self.violations.append((signature, what, p))
        print("VIOLATION property=%s replay=%s" % (self.pid, p))
        print("  what: %s" % what)
        return "violation"

    def broken(self, kind, name, excerpt=""):
        self.brokens.append((kind, name, excerpt))
        print("BROKEN %s %s: %s" % (kind, self.pid, name))
        if excerpt:
            print("  " + excerpt.strip().replace("\n", "\n  ")[-1500:])

    def finish(self):
        # a broken obligation / correspondence with no concrete failing input found
        if self.brokens and not self.violations:
            obj = {"property": self.pid, "kind": "obligation", "seed": self.seed, "tier": self.tier,
                   "broken": [{"kind": k, "name": n, "excerpt": e[-2000:]} for k, n, e in self.brokens],
                   "note": "model / proof / correspondence no longer checks against the current source; "
                           "the failing-input search found nothing"}
            p = self.replay_path(obj)
            self.violations.append(({"broken": [n for _, n, _ in self.brokens]}, "broken obligation", p))
            print("VIOLATION property=%s replay=%s no-failing-input-found" % (self.pid, p))
        n_obl = len(self.obligations)
        n_ok = sum(1 for _, ok in self.obligations if ok)
        n_corr = sum(c["cases"] for c in self.corrs)
        cov = {
            "obligations": n_obl,
            "discharged": n_ok,
            "checker_cmd": "cd /verif && ./check %s --tier %s   (gen -> make coq/<prop>/Props.vo via coqc 8.16.1 -> "
                           "correspondence by coqc vm_compute on generated cases)" % (self.pid, self.tier),
            "trusted_base": BASE_TRUSTED + ["axioms reported by Print Assumptions: " +
                                            (", ".join(sorted(self.axioms)) if self.axioms else
                                             "none (all property theorems closed under the global context)")]
                            + self.assumptions,
            "theorems": [n for n, _ in self.obligations],
            "evaluations": self.evaluations,
            "distinct_nontrivial": len(self.nontrivial_keys),
            "distinct": len(self.case_keys),
            "rule": self.extra.pop("rule", "cases are hashed canonically; see per-property rule"),
            "samples": self.samples or [{"note": "no sampled case in this run"}],
            "correspondence": self.corrs,
            "correspondence_cases": n_corr,
            "input_distribution": self.dist,
            "known_findings_hit": [h[0] for h in self.known_hits],
            "regenerated_from_source": sorted(set(self.gen_changed)),
            "notes": self.notes,
        }
        cov.update(self.extra)
        ev = {"property_id": self.pid, "tier": self.tier, "seed": self.seed, "level": "proof",
              "coverage": cov, "assumptions": BASE_TRUSTED + self.assumptions,
              "wall_s": round(time.time() - self.t0, 2), "violations": len(self.violations)}
        # evidence/Cxx.json describes runs against /repo itself; trial runs against another tree (seeded changes:
        # VERIF_REPO / VERIF_COQ set) and replays write theirs next to the scratch logs instead
        trial = os.path.realpath(REPO) != "/repo" or bool(os.environ.get("VERIF_COQ")) or getattr(self, "is_replay", False)
        edir = os.path.join(SCRATCH_ROOT, "trial_evidence") if trial else os.path.join(VERIF, "evidence")
        os.makedirs(edir, exist_ok=True)
        with open(os.path.join(edir, self.pid + ".json"), "w") as f:
            json.dump(ev, f, indent=1, default=str)
        shutil.rmtree(self.scratch, ignore_errors=True)
        print("%s %s: obligations %d/%d, correspondence cases %d, evaluations %d, violations %d, known %d, %.0fs"
              % (self.pid, self.tier, n_ok, n_obl, n_corr, self.evaluations, len(self.violations),
                 len(self.known_hits), time.time() - self.t0))
        return 1 if self.violations else 0


# --------------------------------------------------------------------------- Coq text helpers
def cz(x):
    """Python int -> Coq Z literal."""
    x = int(x)
    return "(%d)%%Z" % x if x < 0 else "%d%%Z" % x


def cnat(x):
    return "%d%%nat" % int(x)


def cbool(b):
    return "true" if b else "false"


def clist(items):
    return "[" + "; ".join(items) + "]"


def cstr(s):
    return '"' + str(s).replace('"', '""') + '"%string'


def cq(fr):
    """fractions.Fraction -> Coq Q literal (num # den)."""
    n, d = fr.numerator, fr.denominator
    return "(%s # %d)%%Q" % ("(%d)" % n if n < 0 else str(n), d)


def copt(x, f):
    return "None" if x is None else "(Some %s)" % f(x)
