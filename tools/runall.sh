#!/bin/sh
# run every registered check (quick by default) and print a one-line verdict per property
cd "$(dirname "$0")/.."
TIER="${1:-quick}"
mkdir -p .scratch/runall
for p in $(python3 -c "import json;print(' '.join(c['property_id'] for c in json.load(open('MANIFEST.json'))['checks']))"); do
  start=$(date +%s)
  ./check $p --tier $TIER > .scratch/runall/$p.log 2>&1
  rc=$?
  end=$(date +%s)
  echo "$p rc=$rc $((end-start))s $(grep -c '^VIOLATION' .scratch/runall/$p.log) violations, $(grep -c '^KNOWN-FINDING' .scratch/runall/$p.log) known | $(tail -1 .scratch/runall/$p.log)"
done
