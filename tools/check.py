#!/venv/bin/python
"""./check <Cxx> [--tier quick|thorough] [--replay file]   (see DESIGN.md 2.5)"""
import argparse
import importlib
import os
import sys
import traceback

sys.path.insert(0, os.path.dirname(os.path.abspath(__file__)))
import vlib  # noqa: E402
import logging  # noqa: E402
import warnings  # noqa: E402

logging.disable(logging.CRITICAL)
warnings.filterwarnings('ignore')


def main():
    ap = argparse.ArgumentParser()
    ap.add_argument("pid")
    ap.add_argument("--tier", default=os.environ.get("VERIF_TIER", "quick"), choices=["quick", "thorough"])
    ap.add_argument("--replay", default=None)
    a = ap.parse_args()
    seed = int(os.environ.get("VERIF_SEED", "0") or 0)
    pid = a.pid.upper()
    ctx = vlib.Ctx(pid, a.tier, seed)
    ctx.is_replay = bool(a.replay)
    mod = importlib.import_module("props." + pid.lower())
    try:
        if a.replay:
            mod.replay(ctx, a.replay)
        else:
            mod.run(ctx)
    except Exception:
        ctx.broken("harness", "exception in check", traceback.format_exc())
    sys.stdout.flush()
    rc = ctx.finish()
    sys.stdout.flush()
    os._exit(rc)


if __name__ == "__main__":
    main()
