"""C01 / C03 T-tie: which component hooks write which pit columns (fail-closed ast scan).

Scans every class of pandapipes/component_models for the methods
    adaption_before_derivatives_hydraulic, adaption_after_derivatives_hydraulic, create_pit_node_entries
and records every subscript store  <pit>[rows, COL] = / op=  where <pit> is a pit array (a parameter named *_pit, a
slice of one, or the value returned by super().<same method>(...)) and COL is a column constant of idx_branch / idx_node
(resolved through `import ... as` aliases).  Anything else that could write a pit column raises:
  * a store into a pit whose column index is not a single known column constant,
  * a pit passed to a call that is not on the list of known readers / known writers (set_fixed_node_entries is
    modelled separately: it writes PINIT/TINIT, the count and the type columns only).
generate() -> text of coq/Gen/C01Hooks.v
"""
import ast
import glob
import os

REPO = os.environ.get("VERIF_REPO", "/repo")
SRC = os.path.join(REPO, "src", "pandapipes")
METHODS = ["adaption_before_derivatives_hydraulic", "adaption_after_derivatives_hydraulic", "create_pit_node_entries"]
READERS = {"get_branch_cp", "get_from_nodes_corrected", "get_to_nodes_corrected", "len", "get_branch_real_density",
           "get_branch_real_eta", "get_component_array", "get_lookup", "get_net_option", "get_fluid", "isin", "where",
           "any", "all", "astype", "copy", "zeros", "ones", "get_std_type_lookup", "itemgetter", "map", "list", "array",
           "divide", "isnan", "p_correction_height_air", "abs", "maximum", "minimum", "sum", "get_compressibility",
           "get_density", "get_heat_capacity", "get_molar_mass", "str", "UserWarning", "int32", "bool_", "flatnonzero",
           "repeat", "arange", "cumsum", "nan_to_num", "ones_like", "_sum_by_group", "get_pressure", "tolist", "error",
           "debug", "info", "warning", "table_name", "get_connected_node_type", "from_to_node_cols", "active_identifier",
           "get_node_col", "get_internal_node_number", "vinterp", "get_result_table", "insert", "delete", "tile",
           "concatenate", "unique", "empty", "full", "sign", "get_connected_junction", "get_internal_pipe_number",
           "get_internal_branch_number", "sqrt", "power", "exp", "log", "float", "int", "bool", "enumerate", "range", "zip",
           "get_der_compressibility", "get_viscosity", "isclose", "logical_and", "logical_or", "logical_not", "nonzero"}
SPECIAL_WRITERS = {"set_fixed_node_entries"}     # writes PINIT / TINIT, EXT_GRID_OCCURENCE(_T), NODE_TYPE(_T) only


class ScanError(Exception):
    pass


def _columns():
    cols = {}
    for mod in ("idx_branch", "idx_node"):
        tree = ast.parse(open(os.path.join(SRC, mod + ".py")).read())
        for st in tree.body:
            if isinstance(st, ast.Assign) and len(st.targets) == 1 and isinstance(st.targets[0], ast.Name):
                cols[(mod, st.targets[0].id)] = True
    return cols


def _aliases(tree, cols):
    al = {}
    for st in tree.body:
        if isinstance(st, ast.ImportFrom) and st.module in ("pandapipes.idx_branch", "pandapipes.idx_node"):
            mod = st.module.split(".")[1]
            for a in st.names:
                if (mod, a.name) in cols:
                    al[a.asname or a.name] = (mod, a.name)
    return al


def _name(n):
    if isinstance(n, ast.Name):
        return n.id
    if isinstance(n, ast.Attribute):
        return n.attr
    return None


def scan_method(cls, fn, al, path):
    pits = {a.arg for a in fn.args.args if a.arg.endswith("_pit") or a.arg.endswith("_pit_old")}
    out = []

    def is_pit_expr(e):
        if isinstance(e, ast.Name):
            return e.id in pits
        if isinstance(e, ast.Subscript):
            return is_pit_expr(e.value)
        if isinstance(e, ast.Call) and isinstance(e.func, ast.Attribute) and isinstance(e.func.value, ast.Call) \
                and _name(e.func.value.func) == "super":
            return True
        return False

    def colof(target):
        sl = target.slice
        col = sl.elts[-1] if isinstance(sl, ast.Tuple) and len(sl.elts) == 2 else None
        if isinstance(col, ast.Slice) and col.lower is None and col.upper is None and col.step is None:
            return ("row", "WHOLE_ROW_INIT")          # pit[:, :] = initial row (creation only)
        cname = _name(col) if col is not None else None
        if cname is None or cname not in al:
            raise ScanError("%s:%s.%s line %d: store into a pit with a column index that is not a known column constant"
                            % (path, cls, fn.name, target.lineno))
        return al[cname]

    def store(target, where):
        if not (isinstance(target, ast.Subscript) and is_pit_expr(target.value)):
            return
        out.append(colof(target))

    for node in ast.walk(fn):
        if isinstance(node, ast.Assign):
            for t in node.targets:
                store(t, node)
                if isinstance(t, ast.Name) and is_pit_expr(node.value):
                    pits.add(t.id)
                if isinstance(t, ast.Tuple) and isinstance(node.value, ast.Call) and \
                        isinstance(node.value.func, ast.Attribute) and isinstance(node.value.func.value, ast.Call) and \
                        _name(node.value.func.value.func) == "super":
                    for e in t.elts:
                        if isinstance(e, ast.Name) and e.id.endswith("_pit"):
                            pits.add(e.id)
        elif isinstance(node, ast.AugAssign):
            store(node.target, node)
    # second pass (pits may have grown): stores through aliases defined after first use are caught as well
    for node in ast.walk(fn):
        if isinstance(node, (ast.Assign, ast.AugAssign)):
            for t in (node.targets if isinstance(node, ast.Assign) else [node.target]):
                if isinstance(t, ast.Subscript) and is_pit_expr(t.value):
                    if colof(t) not in out:
                        out.append(colof(t))
        if isinstance(node, ast.Call):
            fname = _name(node.func)
            args = list(node.args) + [k.value for k in node.keywords]
            if any(isinstance(a, ast.Name) and a.id in pits for a in args):
                if isinstance(node.func, ast.Attribute) and isinstance(node.func.value, ast.Call) and \
                        _name(node.func.value.func) == "super":
                    continue                      # the parent's method is scanned under its own class
                if fname in SPECIAL_WRITERS:
                    out.append(("call", fname))
                elif fname not in READERS:
                    raise ScanError("%s:%s.%s line %d: pit passed to unknown function %r"
                                    % (path, cls, fn.name, node.lineno, fname))
    return out


def scan():
    cols = _columns()
    res = []
    for path in sorted(glob.glob(os.path.join(SRC, "component_models", "**", "*.py"), recursive=True)):
        tree = ast.parse(open(path).read())
        al = _aliases(tree, cols)
        for st in tree.body:
            if isinstance(st, ast.ClassDef):
                for fn in st.body:
                    if isinstance(fn, ast.FunctionDef) and fn.name in METHODS:
                        for w in scan_method(st.name, fn, al, os.path.relpath(path, SRC)):
                            res.append((st.name, fn.name, w[0], w[1]))
    if not res:
        raise ScanError("no hook found at all")
    return sorted(set(res))


LIFT_HOOKS = [("pump_component.py", "Pump"), ("compressor_component.py", "Compressor")]


def lift_calls():
    """every function / method name called inside the hooks that compute the pressure lift PL (Pump and Compressor
    adaption_before_derivatives_hydraulic) and every comparison / boolean-mask store on the lift: exposes the density
    source of the pump's volume flow and any clamp (maximum / where / clip) on the compressor lift"""
    out = []
    for fname, cls in LIFT_HOOKS:
        tree = ast.parse(open(os.path.join(SRC, "component_models", fname)).read())
        found = False
        for st in tree.body:
            if isinstance(st, ast.ClassDef) and st.name == cls:
                for fn in st.body:
                    if isinstance(fn, ast.FunctionDef) and fn.name == "adaption_before_derivatives_hydraulic":
                        found = True
                        for node in ast.walk(fn):
                            if isinstance(node, ast.Call):
                                n = _name(node.func)
                                if n is None and isinstance(node.func, ast.Call) and _name(node.func.func):
                                    n = "(" + _name(node.func.func) + ")()"       # itemgetter(...)(...)
                                if n is None and isinstance(node.func, ast.Lambda):
                                    n = "lambda"
                                if n is None:
                                    raise ScanError("%s.%s: call of an unnamed function" % (cls, fn.name))
                                out.append((cls, n))
        if not found:
            raise ScanError("%s.adaption_before_derivatives_hydraulic not found" % cls)
    return sorted(set(out))


def generate():
    rows = scan()
    body = ";\n  ".join('("%s", "%s", "%s", "%s")' % r for r in rows)
    return ("(* GENERATED by tools/translate/c01_hooks.py from pandapipes/component_models - do not edit.\n"
            "   (class, method, idx module | \"call\", column | callee): every pit column store of the hydraulic hooks and of\n"
            "   create_pit_node_entries; the scan fails closed on anything it cannot attribute to a column constant. *)\n"
            "From Coq Require Import String List.\nImport ListNotations.\nOpen Scope string_scope.\n"
            "Definition hook_writes : list (string * string * string * string) := [\n  %s\n].\n"
            "(* functions called inside the hooks that compute the pressure lift PL *)\n"
            "Definition lift_hook_calls : list (string * string) := [\n  %s\n].\n"
            % (body, ";\n  ".join('("%s", "%s")' % r for r in lift_calls())))


if __name__ == "__main__":
    print(generate())
