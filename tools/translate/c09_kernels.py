"""Gen/KCalcLambda.v - the friction-factor assembly `calc_lambda` / `calc_der_lambda`
(pf/derivative_calculation.py) specialised to the default friction model (nikuradse), for liquids and
gases and both engines, translated with the shared fail-closed kernel translator (tools/translate/kernels.py).

Used by C09 (lambda is an even function of the mass flow) and by C08/KernelMono.v (the incompressible
residual with lambda = lambda_laminar + lambda_nikuradse is strictly increasing in m).
Anything the translator does not understand raises kernels.TranslateError.
"""
import os
import sys

sys.path.insert(0, os.path.dirname(os.path.dirname(os.path.abspath(__file__))))
from translate import kernels  # noqa: E402

DC = "pf/derivative_calculation.py"


def k_calc_lambda(gas, numba):
    return kernels.translate(
        DC, "calc_lambda",
        {"m": "b", "eta": "b", "d": "b", "k": "b", "gas_mode": ("const", gas),
         "friction_model": ("const", "nikuradse"), "lengths": "b",
         "options": ("const", {"use_numba": numba}), "area": "b"},
        name="calc_lambda_%s_%s" % ("comp" if gas else "incomp", "nb" if numba else "np"),
        outputs=["lambda_tot", "re"])


def k_calc_der_lambda():
    return kernels.translate(
        DC, "calc_der_lambda",
        {"m": "b", "eta": "b", "d": "b", "k": "b", "friction_model": ("const", "nikuradse"),
         "lambda_pipe": "b", "area": "b", "re": "b", "lengths": "b"},
        name="calc_der_lambda_nik", outputs=["lambda_der"])


def generate():
    ks = [k_calc_lambda(g, nb) for g in (False, True) for nb in (False, True)] + [k_calc_der_lambda()]
    return kernels.coq_file("KCalcLambda", ks)


if __name__ == "__main__":
    print(generate())


# ------------------------------------------------------------------------------------------------------------
# Gen/KTSwitch.v - the thermal direction switch  branch_pit[:, FROM_NODE_T_SWITCHED] = branch_pit[:, MDOTINIT] < c
# (pipeflow.py) and the column arithmetic of get_from_nodes_corrected / get_to_nodes_corrected (pf/internals_toolbox.py).
# Fail-closed: any other shape of these statements raises TranslateError.
def generate_tswitch():
    import ast
    from fractions import Fraction
    src = open(os.path.join(kernels.src_root(), "pipeflow.py")).read()
    tree = ast.parse(src)
    found = []
    for node in ast.walk(tree):
        if isinstance(node, ast.Assign) and len(node.targets) == 1 and isinstance(node.targets[0], ast.Subscript):
            t = node.targets[0]
            if "FROM_NODE_T_SWITCHED" in ast.dump(t.slice):
                found.append(node)
    if len(found) != 1:
        raise kernels.TranslateError("expected exactly one assignment to FROM_NODE_T_SWITCHED in pipeflow.py, found %d"
                                     % len(found))
    v = found[0].value
    ok = (isinstance(v, ast.Compare) and len(v.ops) == 1 and isinstance(v.ops[0], ast.Lt)
          and isinstance(v.left, ast.Subscript) and ast.unparse(v.left).replace(" ", "") == "branch_pit[:,MDOTINIT]"
          and ast.unparse(found[0].targets[0]).replace(" ", "") == "branch_pit[:,FROM_NODE_T_SWITCHED]")
    c = v.comparators[0] if ok else None
    if ok and isinstance(c, ast.UnaryOp) and isinstance(c.op, ast.USub) and isinstance(c.operand, ast.Constant):
        thr = -Fraction(ast.get_source_segment(src, c.operand))
    elif ok and isinstance(c, ast.Constant):
        thr = Fraction(ast.get_source_segment(src, c))
    else:
        raise kernels.TranslateError("FROM_NODE_T_SWITCHED is not `branch_pit[:, MDOTINIT] < <constant>`: %s"
                                     % ast.unparse(found[0]))
    # get_from_nodes_corrected: column = switch * (TO_NODE - FROM_NODE) + FROM_NODE ; get_to_nodes_corrected: mirrored
    it = open(os.path.join(kernels.src_root(), "pf", "internals_toolbox.py")).read()
    itree = ast.parse(it)
    want = {"get_from_nodes_corrected": "switch_from_to_col.astype(np.int32)*(TO_NODE-FROM_NODE)+FROM_NODE",
            "get_to_nodes_corrected": "switch_from_to_col.astype(np.int32)*(FROM_NODE-TO_NODE)+TO_NODE"}
    for f in itree.body:
        if isinstance(f, ast.FunctionDef) and f.name in want:
            cols = [ast.unparse(s.value).replace(" ", "") for s in f.body if isinstance(s, ast.Assign)
                    and isinstance(s.targets[0], ast.Name) and s.targets[0].id.endswith("_node_col")]
            dflt = [ast.unparse(s).replace(" ", "").replace("\n", "") for s in f.body if isinstance(s, ast.If)]
            if cols != [want[f.name]] or dflt != ["ifswitch_from_to_colisNone:switch_from_to_col=branch_pit[:,FROM_NODE_T_SWITCHED]"]:
                raise kernels.TranslateError("%s has an unexpected body: %r %r" % (f.name, cols, dflt))
            want[f.name] = None
    if any(v is not None for v in want.values()):
        raise kernels.TranslateError("get_from/to_nodes_corrected not found")
    num, den = thr.numerator, thr.denominator
    lit = "(%s / %d)" % (("(- %d)" % -num) if num < 0 else str(num), den)
    return ("(* GENERATED by tools/translate/c09_kernels.py from pipeflow.py and pf/internals_toolbox.py - do not edit. *)\n"
            "From Coq Require Import Reals Bool.\nFrom PP Require Import Kern.RBool.\nOpen Scope R_scope.\n"
            "(* branch_pit[:, FROM_NODE_T_SWITCHED] = branch_pit[:, MDOTINIT] < %s *)\n"
            "Definition t_switch_threshold : R := %s.\n"
            "Definition t_switched (m : R) : bool := Rltb m t_switch_threshold.\n"
            "(* get_from_nodes_corrected / get_to_nodes_corrected: the node column read for a branch *)\n"
            "Definition corrected_from {X : Type} (sw : bool) (from_node to_node : X) : X := if sw then to_node else from_node.\n"
            "Definition corrected_to {X : Type} (sw : bool) (from_node to_node : X) : X := if sw then from_node else to_node.\n"
            % (ast.unparse(c), lit))
