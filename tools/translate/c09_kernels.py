"""Gen/KCalcLambda.v - the friction-factor assembly `calc_lambda` / `calc_der_lambda`
(pf/derivative_calculation.py) specialised to the default friction model (nikuradse), for liquids and
gases and both engines, translated with the shared fail-closed kernel translator (tools/translate/kernels.py).

Used by C09 (lambda is an even function of the mass flow) and by C08/KernelMono.v (the incompressible
residual with lambda = lambda_laminar + lambda_nikuradse is strictly increasing in m).
Anything the translator does not understand raises kernels.TranslateError.
"""
import os
import sys

sys.path.insert(0, os.path.dirname(os.path.dirname(os.path.abspath(__file__))))
from translate import kernels  # noqa: E402

DC = "pf/derivative_calculation.py"


def k_calc_lambda(gas, numba):
    return kernels.translate(
        DC, "calc_lambda",
        {"m": "b", "eta": "b", "d": "b", "k": "b", "gas_mode": ("const", gas),
         "friction_model": ("const", "nikuradse"), "lengths": "b",
         "options": ("const", {"use_numba": numba}), "area": "b"},
        name="calc_lambda_%s_%s" % ("comp" if gas else "incomp", "nb" if numba else "np"),
        outputs=["lambda_tot", "re"])


def k_calc_der_lambda():
    return kernels.translate(
        DC, "calc_der_lambda",
        {"m": "b", "eta": "b", "d": "b", "k": "b", "friction_model": ("const", "nikuradse"),
         "lambda_pipe": "b", "area": "b", "re": "b", "lengths": "b"},
        name="calc_der_lambda_nik", outputs=["lambda_der"])


def generate():
    ks = [k_calc_lambda(g, nb) for g in (False, True) for nb in (False, True)] + [k_calc_der_lambda()]
    return kernels.coq_file("KCalcLambda", ks)


if __name__ == "__main__":
    print(generate())
