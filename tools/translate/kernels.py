"""Shared kernel translator (T-tie, DESIGN.md 2.1): a fail-closed Python-`ast` symbolic executor that turns the
straight-line per-element arithmetic of pandapipes' kernels into Coq definitions over the reals.

    k = translate("pf/derivative_toolbox.py", "derivatives_hydraulic_incomp_np", params={...})
    text = coq_file("KHydIncompNp", [k])          # -> coq/Gen/KHydIncompNp.v   (see KERNELS_API.md)

Model: every array is represented by ONE element of it (the kernels are element-wise); an element of a branch
array may be combined with scalars and with the gathered node value of its own from/to node, nothing else
(domain check: 'b' branch arrays, 'n' node arrays, 's' scalars; masks must agree).  Every assignment becomes a
`let`, a masked update `x[mask] = e` / a scalar `if` becomes `if <bool> then .. else ..` per assigned variable.
Decimal literals are exact rationals (9.81 -> 981/100); float rounding is abstracted.  NaN is outside the real
model: np.isnan(x) translates to `false`.  Anything not understood raises TranslateError."""
import ast
import os
import sys
from fractions import Fraction

sys.path.insert(0, os.path.dirname(os.path.dirname(os.path.abspath(__file__))))
import vlib  # noqa: E402


class TranslateError(Exception):
    pass


def err(node, msg):
    ln = getattr(node, "lineno", "?")
    raise TranslateError("line %s: %s" % (ln, msg))


# ------------------------------------------------------------------------------------------------ modules
_MODS = {}


def src_root():
    return os.path.join(os.environ.get("VERIF_REPO", vlib.REPO), "src", "pandapipes")


class Mod:
    """a parsed pandapipes module: functions, imported constants / column numbers / functions"""

    def __init__(self, rel):
        self.rel = rel
        self.path = os.path.join(src_root(), rel)
        self.text = open(self.path).read()
        self.tree = ast.parse(self.text)
        self.funcs = {}
        self.names = {}            # alias -> ("const", Fraction) | ("col", module, NAME, int) | ("func", rel, name) | ("np",)
        for node in self.tree.body:
            if isinstance(node, ast.FunctionDef):
                self.funcs[node.name] = node
        for node in self.tree.body:
            self._import(node, self.names)
            if isinstance(node, ast.Try):
                for sub in node.body:
                    self._import(sub, self.names, soft=True)

    def _import(self, node, table, soft=False):
        if isinstance(node, ast.Import):
            for a in node.names:
                if a.name == "numpy":
                    table[a.asname or "numpy"] = ("np",)
        elif isinstance(node, ast.ImportFrom) and node.module:
            m = node.module
            for a in node.names:
                alias = a.asname or a.name
                if m == "pandapipes.constants":
                    table[alias] = ("const", module_constants("constants.py")[a.name])
                elif m in ("pandapipes.idx_branch", "pandapipes.idx_node"):
                    short = m.split(".")[1]
                    v = module_constants(short + ".py")[a.name]
                    if v.denominator != 1:
                        raise TranslateError("column constant %s.%s is not an integer" % (m, a.name))
                    table[alias] = ("col", short, a.name, int(v))
                elif m.startswith("pandapipes."):
                    rel = m[len("pandapipes."):].replace(".", "/") + ".py"
                    if os.path.exists(os.path.join(src_root(), rel)):
                        table[alias] = ("func", rel, a.name)
                elif m == "numpy" and a.name in ("linalg",):
                    pass


_CONSTS = {}


def literal_fraction(node, text):
    """numeric literal -> exact Fraction of the decimal text as written"""
    seg = ast.get_source_segment(text, node)
    v = node.value
    if isinstance(v, bool) or not isinstance(v, (int, float)):
        raise TranslateError("not a numeric literal: %r" % (v,))
    try:
        return Fraction(seg.replace("_", ""))
    except Exception:
        return Fraction(repr(v))


def module_constants(rel):
    key = (src_root(), rel)
    if key in _CONSTS:
        return _CONSTS[key]
    text = open(os.path.join(src_root(), rel)).read()
    out = {}
    for node in ast.parse(text).body:
        if isinstance(node, ast.Assign) and len(node.targets) == 1 and isinstance(node.targets[0], ast.Name):
            v = node.value
            sign = 1
            if isinstance(v, ast.UnaryOp) and isinstance(v.op, ast.USub):
                v, sign = v.operand, -1
            if isinstance(v, ast.Constant) and isinstance(v.value, (int, float)) and not isinstance(v.value, bool):
                out[node.targets[0].id] = sign * literal_fraction(v, text)
    _CONSTS[key] = out
    return out


def get_mod(rel):
    key = (src_root(), rel)
    if key not in _MODS:
        _MODS[key] = Mod(rel)
    return _MODS[key]


# ------------------------------------------------------------------------------------------------ values
class V:
    """symbolic value.  kind: num | bool | idx | pit | tuple | col | undef | dict | len | py | obj | func | graph
    dom : 'b' | 'n' | 's' (array domain of num/bool/idx);  mask : None or bool expr (compressed by x[mask])"""

    def __init__(self, kind, e=None, dom="s", mask=None, **kw):
        self.kind, self.e, self.dom, self.mask = kind, e, dom, mask
        self.__dict__.update(kw)

    def __repr__(self):
        return "V(%s,%r,%s,%r)" % (self.kind, self.e, self.dom, self.mask)


def const(fr):
    return ("c", Fraction(fr))


def is_const(e):
    return e[0] == "c"


TRUE, FALSE, UNDEF = ("T",), ("F",), ("undef",)


def b_not(c):
    if c == TRUE:
        return FALSE
    if c == FALSE:
        return TRUE
    if c[0] == "not":
        return c[1]
    return ("not", c)


def b_and(a, b):
    if a == FALSE or b == FALSE:
        return FALSE
    if a == TRUE:
        return b
    if b == TRUE:
        return a
    return ("and", a, b)


def b_or(a, b):
    if a == TRUE or b == TRUE:
        return TRUE
    if a == FALSE:
        return b
    if b == FALSE:
        return a
    return ("or", a, b)


FOLD = [True]      # constant folding over exact rationals; switched off for the float shadow (float ops are not exact)


def arith(op, a, b):
    if FOLD[0] and is_const(a) and is_const(b):
        x, y = a[1], b[1]
        if op == "+":
            return const(x + y)
        if op == "-":
            return const(x - y)
        if op == "*":
            return const(x * y)
        if op == "/" and y != 0:
            return const(x / y)
    return (op, a, b)


def neg(a):
    if is_const(a):
        return const(-a[1])
    return ("neg", a)


def assume(e, cond, truth):
    """simplify e under the assumption that the boolean expression cond has the given truth value"""
    if not isinstance(e, tuple):
        return e
    if e[0] == "ite":
        c = e[1]
        if c == cond:
            return assume(e[2] if truth else e[3], cond, truth)
        if c == b_not(cond) or b_not(c) == cond:
            return assume(e[3] if truth else e[2], cond, truth)
        return ("ite", c, assume(e[2], cond, truth), assume(e[3], cond, truth))
    return e


def mk_ite(c, a, b):
    if c == TRUE:
        return a
    if c == FALSE:
        return b
    a, b = assume(a, c, True), assume(b, c, False)
    if a == b:
        return a
    return ("ite", c, a, b)


def has_undef(e):
    if e == UNDEF:
        return True
    return isinstance(e, tuple) and any(has_undef(x) for x in e[1:] if isinstance(x, tuple))


# ------------------------------------------------------------------------------------------------ kernel
class Kernel:
    def __init__(self, name, source):
        self.name = name                # prefix of the Coq definitions
        self.source = source
        self.inputs = {}                # name -> Coq type
        self.bindings = []              # (ssa, type, expr)
        self.bind_idx = {}
        self.used = set()
        self.outputs = []               # (name, type, expr)
        self.notes = []

    def add_input(self, name, typ="R"):
        if name in self.inputs and self.inputs[name] != typ:
            raise TranslateError("input %s used at two types" % name)
        if name in self.bind_idx:
            raise TranslateError("input name %s clashes with a local" % name)
        self.inputs[name] = typ
        self.used.add(name)

    def bind(self, name, typ, e):
        n, k = name, 0
        while n in self.used:
            k += 1
            n = "%s_%d" % (name, k)
        self.used.add(n)
        self.bind_idx[n] = len(self.bindings)
        self.bindings.append((n, typ, e))
        return n

    def expand(self, e):
        """inline every let reference (for structural checks only)"""
        if not isinstance(e, tuple):
            return e
        if e[0] in ("r", "br"):
            return self.expand(self.bindings[self.bind_idx[e[1]]][2])
        return tuple(self.expand(x) if isinstance(x, tuple) else x for x in e)

    # ---- dependency closure of an expression
    def deps(self, e, lets, ins):
        if not isinstance(e, tuple):
            return
        if e[0] in ("r", "br"):
            if e[1] not in lets:
                lets.add(e[1])
                self.deps(self.bindings[self.bind_idx[e[1]]][2], lets, ins)
            return
        if e[0] in ("v", "bv"):
            ins.add(e[1])
            return
        if e[0] == "app":
            ins.add(e[1])
            for x in e[2]:
                self.deps(x, lets, ins)
            return
        for x in e[1:]:
            if isinstance(x, tuple):
                self.deps(x, lets, ins)

    def all_inputs(self):
        ins = set()
        for _, _, e in self.outputs:
            self.deps(e, set(), ins)
        return sorted(ins)

    def signature(self):
        return [(n, self.inputs[n]) for n in self.all_inputs()]

    def output_names(self):
        return [n for n, _, _ in self.outputs]


# ------------------------------------------------------------------------------------------------ Coq printer
def coq_const(fr):
    n, d = fr.numerator, fr.denominator
    s = str(abs(n)) if d == 1 else "(%d / %d)" % (abs(n), d)
    return "(- %s)" % s if n < 0 else s


def coq_expr(e):
    t = e[0]
    if t == "c":
        return coq_const(e[1])
    if t in ("v", "r", "bv", "br"):
        return e[1]
    if t == "pi":
        return "PI"
    if t in ("+", "-", "*", "/"):
        return "(%s %s %s)" % (coq_expr(e[1]), t, coq_expr(e[2]))
    if t == "neg":
        return "(- %s)" % coq_expr(e[1])
    if t in ("abs", "sqrt", "exp", "ln", "log10"):
        return "(%s %s)" % ({"abs": "Rabs"}.get(t, t), coq_expr(e[1]))
    if t in ("max", "min"):
        return "(R%s %s %s)" % (t, coq_expr(e[1]), coq_expr(e[2]))
    if t == "pow":
        return "(%s ^ %d)" % (coq_expr(e[1]), e[2])
    if t == "rpower":
        return "(Rpower %s %s)" % (coq_expr(e[1]), coq_const(e[2]))
    if t == "ite":
        return "(if %s then %s else %s)" % (coq_expr(e[1]), coq_expr(e[2]), coq_expr(e[3]))
    if t == "app":
        return "(%s %s)" % (e[1], " ".join(coq_expr(x) for x in e[2]))
    if t == "T":
        return "true"
    if t == "F":
        return "false"
    if t in ("le", "lt", "eq"):
        return "(R%sb %s %s)" % (t, coq_expr(e[1]), coq_expr(e[2]))
    if t == "not":
        return "(negb %s)" % coq_expr(e[1])
    if t in ("and", "or"):
        return "(%sb %s %s)" % (t, coq_expr(e[1]), coq_expr(e[2]))
    raise TranslateError("cannot print %r" % (e,))


def coq_defs(k):
    """Definitions `<kernel>_<output>`; all definitions of one kernel take the same input list (sorted)."""
    sig = k.signature()
    binders = " ".join("(%s : %s)" % (n, t) for n, t in sig)
    out = ["(* kernel %s  <-  %s" % (k.name, k.source),
           "   inputs (same list and order for every output): %s *)" % (" ".join(n for n, _ in sig) or "-")]
    for n in k.notes:
        out.append("(* note: %s *)" % n)
    for name, typ, e in k.outputs:
        if has_undef(k.expand(e)):
            raise TranslateError("%s.%s may be read before it is assigned (np.empty)" % (k.name, name))
        lets, ins = set(), set()
        k.deps(e, lets, ins)
        lines = ["Definition %s_%s %s : %s :=" % (k.name, name, binders, typ)]
        for (n, t, be) in k.bindings:
            if n in lets:
                lines.append("  let %s : %s := %s in" % (n, t, coq_expr(be)))
        lines.append("  %s." % coq_expr(e))
        out.append("\n".join(lines))
    return "\n".join(out) + "\n"


# ------------------------------------------------------------------------------------------------ float shadow
def float_lit(fr):
    x = float(fr)                      # correctly rounded, like the Python literal
    h = x.hex()
    return "(%s)" % h if x < 0 else h


POW_CHAIN = [False]


def coq_fexpr(e):
    """the same expression tree over PrimFloat (only + - * / abs max sqrt, x**2, comparisons); anything else raises"""
    t = e[0]
    if t == "c":
        return float_lit(e[1])
    if t in ("v", "r", "bv", "br"):
        return e[1]
    if t in ("+", "-", "*", "/"):
        return "(%s %s %s)" % (coq_fexpr(e[1]), t, coq_fexpr(e[2]))
    if t == "neg":
        return "(- %s)" % coq_fexpr(e[1])
    if t == "abs":
        return "(abs %s)" % coq_fexpr(e[1])
    if t == "sqrt":
        return "(sqrt %s)" % coq_fexpr(e[1])
    if t == "max":
        return "(fmax %s %s)" % (coq_fexpr(e[1]), coq_fexpr(e[2]))
    if t == "pow" and e[2] == 2:
        return "(fsq %s)" % coq_fexpr(e[1])          # numpy evaluates x ** 2 as x * x
    if t == "pow" and e[2] == 1:
        return coq_fexpr(e[1])
    if t == "pow" and e[2] == 3 and POW_CHAIN[0]:
        return "(fcube %s)" % coq_fexpr(e[1])         # LLVM (numba) evaluates x ** 3 as (x * x) * x; numpy calls pow()
    if t == "ite":
        return "(if %s then %s else %s)" % (coq_fexpr(e[1]), coq_fexpr(e[2]), coq_fexpr(e[3]))
    if t == "T":
        return "true"
    if t == "F":
        return "false"
    if t == "le":
        return "(%s <=? %s)" % (coq_fexpr(e[1]), coq_fexpr(e[2]))
    if t == "lt":
        return "(%s <? %s)" % (coq_fexpr(e[1]), coq_fexpr(e[2]))
    if t == "eq":
        return "(%s =? %s)" % (coq_fexpr(e[1]), coq_fexpr(e[2]))
    if t == "not":
        return "(negb %s)" % coq_fexpr(e[1])
    if t in ("and", "or"):
        return "(%sb %s %s)" % (t, coq_fexpr(e[1]), coq_fexpr(e[2]))
    raise TranslateError("not expressible over PrimFloat: %r" % (t,))


FHEADER = """(* GENERATED by tools/translate/kernels.py - float shadow: the kernel's expression tree over PrimFloat (binary64,
   round to nearest even, like numpy), constants NOT folded, literals correctly rounded.  Used only to validate the
   translator bit-exactly against numpy (thorough tier); no theorem depends on it. *)
From Coq Require Import Floats Bool List ZArith.
Import ListNotations.
Open Scope float_scope.
Definition fmax (a b : float) : float := if a <? b then b else a.
Definition fsq (a : float) : float := a * a.
Definition fcube (a : float) : float := (a * a) * a.
(* same value: equal, or both NaN (the sign of zero is not distinguished) *)
Definition fsame (a b : float) : bool := (a =? b) || (is_nan a && is_nan b).
"""


def float_defs(k, outputs=None, pow_chain=False):
    """Definition <kernel>_<out>_f over float for a kernel translated with fold=False.  pow_chain: x ** 3 as (x*x)*x - true for
    numba-compiled kernels (measured: bit-identical), false for numpy, whose pow() differs in the last bit for 26 % of inputs"""
    POW_CHAIN[0] = pow_chain
    sig = k.signature()
    for n, t in sig:
        if t not in ("R", "bool"):
            raise TranslateError("float shadow: input %s has type %s" % (n, t))
    binders = " ".join("(%s : %s)" % (n, "float" if t == "R" else "bool") for n, t in sig)
    out = []
    for name, typ, e in k.outputs:
        if outputs is not None and name not in outputs:
            continue
        lets, ins = set(), set()
        k.deps(e, lets, ins)
        lines = ["Definition %s_%s_f %s : %s :=" % (k.name, name, binders, "float" if typ == "R" else "bool")]
        for (n, t, be) in k.bindings:
            if n in lets:
                lines.append("  let %s : %s := %s in" % (n, "float" if t == "R" else "bool", coq_fexpr(be)))
        lines.append("  %s." % coq_fexpr(e))
        out.append("\n".join(lines))
    return "\n".join(out) + "\n"


HEADER = """(* GENERATED by tools/translate/kernels.py from the pandapipes sources - do not edit.
   Per-element real-number reading of the kernel source: decimal literals are exact rationals, np.isnan is
   [false] (NaN is outside the real model), masks / scalar ifs are [if <bool> then .. else ..]. *)
From Coq Require Import Reals Bool.
From PP Require Import Kern.RBool.
Open Scope R_scope.
"""


def coq_file(name, kernels, extra=""):
    return HEADER + "(* file Gen/%s.v *)\n\n" % name + "\n".join(coq_defs(k) for k in kernels) + extra


# ------------------------------------------------------------------------------------------------ evaluator
class Return(Exception):
    def __init__(self, value):
        self.value = value


NP_UNARY = {"abs": "abs", "absolute": "abs", "sqrt": "sqrt", "exp": "exp", "log": "ln", "log10": "log10"}


class Exec:
    def __init__(self, kernel, mod, opts):
        self.k = kernel
        self.mod = mod
        self.o = opts
        self.loop = None            # (loopvar, dom) inside `for i in range(..)`
        self.early = []             # (mask, Tuple value) of `if not np.any(mask): return ..`
        self.local_imports = {}
        self.depth = 0

    # ---------------------------------------------------------------- helpers
    def num(self, e, dom="s", mask=None):
        return V("num", e, dom, mask)

    def join(self, node, *vals):
        dom, mask, have_mask = "s", None, False
        for v in vals:
            if v.dom != "s":
                if dom != "s" and dom != v.dom:
                    err(node, "combines a %s-array with a %s-array element-wise" % (dom, v.dom))
                dom = v.dom
        arrays = [v for v in vals if v.dom != "s"]
        masks = set(v.mask for v in arrays)
        if len(masks) > 1:
            err(node, "combines arrays compressed by different masks: %r" % (masks,))
        if masks:
            mask = masks.pop()
        for v in vals:
            if v.dom == "s" and v.mask is not None:
                err(node, "masked scalar")
        return dom, mask

    def want(self, node, v, kind):
        if v.kind == "undef" and kind == "num":
            return V("num", UNDEF, v.dom, None)
        if v.kind == "py" and kind == "num" and isinstance(v.e, (int, float)) and not isinstance(v.e, bool):
            return self.num(const(Fraction(repr(v.e)) if isinstance(v.e, float) else v.e))
        if v.kind == "py" and kind == "bool" and isinstance(v.e, bool):
            return V("bool", TRUE if v.e else FALSE)
        if v.kind == "col" and kind == "num":
            return self.num(const(v.value))
        if v.kind != kind:
            err(node, "expected %s, got %s" % (kind, v.kind))
        return v

    def store(self, name, v):
        """bind a num/bool value to a (versioned) let unless it is atomic"""
        if v.kind in ("num", "bool") and v.e[0] not in ("v", "bv", "r", "br", "c", "T", "F", "undef") \
                and not has_undef(v.e):
            typ = "R" if v.kind == "num" else "bool"
            ssa = self.k.bind(name, typ, v.e)
            v = V(v.kind, ("r" if v.kind == "num" else "br", ssa), v.dom, v.mask)
        self.env[name] = v

    # ---------------------------------------------------------------- function entry
    def run(self, fdef, args):
        self.env = {}
        params = [a.arg for a in fdef.args.args]
        if len(args) != len(params):
            err(fdef, "arity mismatch calling %s" % fdef.name)
        for p, a in zip(params, args):
            self.env[p] = a
        try:
            self.block(fdef.body)
        except Return as r:
            ret = r.value
        else:
            err(fdef, "function %s has no return" % fdef.name)
        for mask, early in self.early:
            self.check_early(fdef, mask, early, ret)
        return ret

    def check_early(self, node, mask, early, ret):
        if early.kind != "tuple" or ret.kind != "tuple" or len(early.e) != len(ret.e):
            err(node, "early return has a different shape than the final return")
        for a, b in zip(early.e, ret.e):
            fa = self.k.expand(a.e)
            fb = assume(self.k.expand(b.e), self.k.expand(mask), True)   # mask here = "return condition holds"
            if fa != fb:
                err(node, "early return is not the empty-mask case of the final return")

    # ---------------------------------------------------------------- statements
    def block(self, stmts):
        for s in stmts:
            self.stmt(s)

    def stmt(self, s):
        if isinstance(s, ast.Expr):
            if isinstance(s.value, ast.Constant) and isinstance(s.value.value, str):
                return
            if self.is_logger_call(s.value):
                return
            err(s, "expression statement not understood: %s" % ast.dump(s.value)[:80])
        if isinstance(s, ast.ImportFrom):
            self.mod._import(s, self.local_imports)
            return
        if isinstance(s, ast.Assign):
            if len(s.targets) != 1:
                err(s, "chained assignment")
            return self.assign(s.targets[0], s.value, s)
        if isinstance(s, ast.AugAssign):
            op = {ast.Add: "+", ast.Sub: "-", ast.Mult: "*", ast.Div: "/"}.get(type(s.op))
            if op is None:
                err(s, "augmented assignment operator")
            if self.skip_target(s.target):
                return
            cur = self.expr(s.target)
            rhs = self.expr(s.value)
            val = self.binop(s, op, cur, rhs)
            return self.assign_value(s.target, val, s)
        if isinstance(s, ast.For):
            return self.for_(s)
        if isinstance(s, ast.If):
            return self.if_(s)
        if isinstance(s, ast.Return):
            raise Return(self.expr(s.value))
        if isinstance(s, ast.Pass):
            return
        err(s, "statement %s not supported" % type(s).__name__)

    def is_logger_call(self, e):
        return isinstance(e, ast.Call) and isinstance(e.func, ast.Attribute) and \
            isinstance(e.func.value, ast.Name) and e.func.value.id == "logger"

    def target_name(self, t):
        while isinstance(t, ast.Subscript):
            t = t.value
        return t.id if isinstance(t, ast.Name) else None

    def skip_target(self, t):
        names = [self.target_name(x) for x in (t.elts if isinstance(t, ast.Tuple) else [t])]
        skip = [n in self.o["graph"] or n in self.o["bool_inputs"] for n in names]
        if any(skip) and not all(skip):
            err(t, "graph-part and arithmetic targets mixed in one assignment")
        return all(skip)

    def is_skipped(self, t):
        n = self.target_name(t)
        return n in self.o["graph"] or n in self.o["bool_inputs"]

    def assign(self, target, value, s):
        if isinstance(target, ast.Tuple):
            if all(self.is_skipped(t) for t in target.elts):
                return
            v = self.expr(value)
            if v.kind != "tuple" or len(v.e) != len(target.elts):
                err(s, "cannot unpack")
            for t, x in zip(target.elts, v.e):
                if not self.is_skipped(t):
                    self.assign_value(t, x, s)
            return
        if self.skip_target(target):
            return                                   # graph part: replaced by boolean inputs / dropped outputs
        v = self.expr(value)
        self.assign_value(target, v, s)

    def assign_value(self, target, v, s):
        if isinstance(target, ast.Name):
            if v.kind == "num" and v.mask is None and self.loop and v.dom == "s":
                pass
            self.store(target.id, v)
            return
        if isinstance(target, ast.Tuple):
            if v.kind != "tuple" or len(v.e) != len(target.elts):
                err(s, "cannot unpack")
            for t, x in zip(target.elts, v.e):
                self.assign_value(t, x, s)
            return
        if isinstance(target, ast.Subscript) and isinstance(target.value, ast.Name):
            name = target.value.id
            if name not in self.env:
                err(s, "assignment into unknown array %s" % name)
            old = self.env[name]
            if old.kind == "undef":
                old = V("num", UNDEF, old.dom, None)
            if old.kind not in ("num", "bool"):
                err(s, "assignment into %s value" % old.kind)
            v = self.want(s, v, old.kind) if not (old.kind == "num" and v.kind == "bool") else v
            if old.kind == "num" and v.kind == "bool":
                err(s, "bool stored in a float array")
            idx = target.slice
            # x[i] = e  inside a loop
            if self.loop and isinstance(idx, ast.Name) and idx.id == self.loop[0]:
                if old.dom != self.loop[1]:
                    err(s, "%s[%s]: array domain %s differs from the loop domain %s" % (name, idx.id, old.dom,
                                                                                         self.loop[1]))
                if v.dom not in ("s", old.dom) or v.mask is not None:
                    err(s, "element assignment from a different domain")
                self.store(name, V(old.kind, v.e, old.dom, None))
                return
            # x[mask] = e
            m = self.expr(idx)
            if m.kind == "bool" and m.dom != "s":
                if m.dom != old.dom or m.mask is not None or old.mask is not None:
                    err(s, "masked update: mask / array domains differ")
                if not (v.dom == "s" or (v.dom == old.dom and v.mask == m.e)):
                    err(s, "masked update: right-hand side is not compressed by the same mask")
                self.store(name, V(old.kind, mk_ite(m.e, v.e, old.e), old.dom, None))
                return
            err(s, "subscript assignment form not supported")
        err(s, "assignment target not supported")

    def for_(self, s):
        if s.orelse:
            err(s, "for-else")
        if self.loop:
            err(s, "nested loop")
        it = s.iter
        extra = None
        if isinstance(it, ast.Call) and isinstance(it.func, ast.Name) and it.func.id == "range" and len(it.args) == 1 \
                and isinstance(s.target, ast.Name):
            n = self.expr(it.args[0])
            if n.kind != "len":
                err(s, "range() over something that is not an array length")
            var, dom = s.target.id, n.dom
        elif isinstance(it, ast.Call) and isinstance(it.func, ast.Name) and it.func.id == "enumerate" and \
                len(it.args) == 1 and isinstance(s.target, ast.Tuple) and len(s.target.elts) == 2:
            arr = self.expr(it.args[0])
            if arr.kind != "num" or arr.dom == "s" or arr.mask is not None:
                err(s, "enumerate over a non-array")
            var, dom = s.target.elts[0].id, arr.dom
            extra = (s.target.elts[1].id, arr)
        else:
            err(s, "loop form not supported")
        self.loop = (var, dom)
        self.env[var] = V("loopvar", None, dom)
        if extra:
            self.env[extra[0]] = V("num", extra[1].e, dom, None)
        # the body is executed once, symbolically, for the generic element
        self.block(s.body)
        self.loop = None
        del self.env[var]

    def if_(self, s):
        # `if not np.any(mask): return ...`  /  `if np.any(mask): logger...`
        t = s.test
        anyc, negated = t, False
        if isinstance(t, ast.UnaryOp) and isinstance(t.op, ast.Not):
            anyc, negated = t.operand, True
        if self.is_np_call(anyc, "any"):
            m = self.expr(anyc.args[0])
            if m.kind != "bool":
                err(s, "np.any of a non-mask")
            if negated and len(s.body) == 1 and isinstance(s.body[0], ast.Return) and not s.orelse:
                self.early.append((b_not(m.e), self.expr(s.body[0].value)))
                return
            if not negated and not s.orelse and all(isinstance(x, ast.Expr) and self.is_logger_call(x.value)
                                                    for x in s.body):
                return
            err(s, "np.any(...) guard of this shape is not supported")
        c = self.expr(t)
        if c.kind == "py":
            return self.block(s.body if c.e else s.orelse)
        if c.kind == "graph":
            # a branch taken on graph information may only touch the graph part
            for sub in ast.walk(s):
                if isinstance(sub, (ast.Assign, ast.AugAssign)):
                    tg = sub.targets[0] if isinstance(sub, ast.Assign) else sub.target
                    if not self.skip_target(tg):
                        err(s, "arithmetic under a graph condition")
            return
        c = self.want(s, c, "bool")
        if c.e == TRUE:
            return self.block(s.body)
        if c.e == FALSE:
            return self.block(s.orelse)
        if c.mask is not None or (c.dom != "s" and not self.loop):
            err(s, "`if` on an array outside a loop")
        base = dict(self.env)
        self.block(s.body)
        env_t = self.env
        self.env = dict(base)
        self.block(s.orelse)
        env_e = self.env
        merged = dict(base)
        for name in sorted(set(env_t) | set(env_e)):
            a, b = env_t.get(name), env_e.get(name)
            if a is b:
                merged[name] = a
                continue
            if a is None or b is None:
                # defined in one branch only: usable only inside that branch
                merged[name] = V("undef", None, (a or b).dom)
                continue
            if a.kind == "undef" and b.kind == "undef":
                merged[name] = a
                continue
            a2 = V("num", UNDEF, a.dom) if a.kind == "undef" else a
            b2 = V("num", UNDEF, b.dom) if b.kind == "undef" else b
            if a2.kind != b2.kind or a2.kind not in ("num", "bool"):
                if a2.kind in ("graph", "idx", "py") or b2.kind in ("graph", "idx", "py"):
                    merged[name] = V("undef", None, "s")
                    continue
                err(s, "branches give %s different kinds" % name)
            dom, mask = self.join(s, a2, b2, c)
            self.env = merged
            self.store(name, V(a2.kind, mk_ite(c.e, a2.e, b2.e), dom, mask))
            merged = self.env
        self.env = merged

    # ---------------------------------------------------------------- expressions
    def is_np_call(self, e, fname):
        return isinstance(e, ast.Call) and isinstance(e.func, ast.Attribute) and e.func.attr == fname and \
            isinstance(e.func.value, ast.Name) and self.lookup_static(e.func.value.id) == ("np",)

    def lookup_static(self, name):
        if name in self.local_imports:
            return self.local_imports[name]
        return self.mod.names.get(name)

    def name(self, node):
        n = node.id
        if n in self.o["bool_inputs"]:
            dom = self.o["bool_inputs"][n]
            self.k.add_input(n, "bool")
            return V("bool", ("bv", n), dom, None)
        if n in self.o["graph"]:
            return V("graph")
        if n in self.env:
            v = self.env[n]
            if v.kind == "undef" and not isinstance(getattr(node, "ctx", None), ast.Store):
                return v
            return v
        st = self.lookup_static(n)
        if st is not None:
            if st[0] == "const":
                return self.num(const(st[1]))
            if st[0] == "col":
                return V("col", None, module=st[1], cname=st[2], value=st[3])
            if st[0] == "func":
                return V("func", None, rel=st[1], fname=st[2])
            if st[0] == "np":
                return V("np")
        if n in self.mod.funcs:
            return V("func", None, rel=self.mod.rel, fname=n)
        if n in ("True", "False"):
            return V("py", n == "True")
        err(node, "unknown name %s" % n)

    def expr(self, e):
        if isinstance(e, ast.Constant):
            if isinstance(e.value, bool) or e.value is None or isinstance(e.value, str):
                return V("py", e.value)
            if isinstance(e.value, (int, float)):
                return self.num(const(literal_fraction(e, self.mod.text)))
            err(e, "constant")
        if isinstance(e, ast.Name):
            return self.name(e)
        if isinstance(e, ast.Tuple) or isinstance(e, ast.List):
            return V("tuple", [self.expr(x) for x in e.elts])
        if isinstance(e, ast.Dict):
            keys = []
            for kx in e.keys:
                if not (isinstance(kx, ast.Constant) and isinstance(kx.value, str)):
                    err(e, "dict key")
                keys.append(kx.value)
            return V("dict", dict(zip(keys, [self.expr(x) for x in e.values])))
        if isinstance(e, ast.UnaryOp):
            v = self.expr(e.operand)
            if isinstance(e.op, ast.USub):
                v = self.want(e, v, "num")
                return V("num", neg(v.e), v.dom, v.mask)
            if isinstance(e.op, ast.UAdd):
                return self.want(e, v, "num")
            if isinstance(e.op, (ast.Invert, ast.Not)):
                if v.kind == "graph":
                    return v
                if v.kind == "py":
                    return V("py", not v.e)
                v = self.want(e, v, "bool")            # `~` on masks / numba booleans is logical not
                return V("bool", b_not(v.e), v.dom, v.mask)
        if isinstance(e, ast.BinOp):
            return self.binop_node(e)
        if isinstance(e, ast.BoolOp):
            vals = [self.expr(x) for x in e.values]
            if any(v.kind == "graph" for v in vals):
                return V("graph")
            if all(v.kind == "py" for v in vals):
                return V("py", all(v.e for v in vals) if isinstance(e.op, ast.And) else any(v.e for v in vals))
            vals = [self.want(e, v, "bool") for v in vals]
            dom, mask = self.join(e, *vals)
            f = b_and if isinstance(e.op, ast.And) else b_or
            acc = vals[0].e
            for v in vals[1:]:
                acc = f(acc, v.e)
            return V("bool", acc, dom, mask)
        if isinstance(e, ast.Compare):
            return self.compare(e)
        if isinstance(e, ast.IfExp):
            c = self.expr(e.test)
            if c.kind == "graph":
                return V("graph")
            a, b = self.expr(e.body), self.expr(e.orelse)
            if a.kind == "graph" or b.kind == "graph":
                return V("graph")
            if c.kind == "py":
                return a if c.e else b
            c = self.want(e, c, "bool")
            if a.kind != b.kind or a.kind not in ("num", "bool"):
                err(e, "conditional expression kinds")
            dom, mask = self.join(e, a, b, c)
            return V(a.kind, mk_ite(c.e, a.e, b.e), dom, mask)
        if isinstance(e, ast.Subscript):
            return self.subscript(e)
        if isinstance(e, ast.Attribute):
            return self.attribute(e)
        if isinstance(e, ast.Call):
            return self.call(e)
        if isinstance(e, ast.ListComp):
            # allocation comprehension: [np.empty_like(x) for _ in range(3)]
            if len(e.generators) == 1 and not e.generators[0].ifs:
                g = e.generators[0]
                if isinstance(g.iter, ast.Call) and isinstance(g.iter.func, ast.Name) and g.iter.func.id == "range" \
                        and len(g.iter.args) == 1 and isinstance(g.iter.args[0], ast.Constant) and \
                        isinstance(g.target, ast.Name) and g.target.id == "_":
                    return V("tuple", [self.expr(e.elt) for _ in range(g.iter.args[0].value)])
            err(e, "list comprehension")
        err(e, "expression %s not supported" % type(e).__name__)

    def binop_node(self, e):
        a, b = self.expr(e.left), self.expr(e.right)
        if isinstance(e.op, (ast.BitAnd, ast.BitOr)):
            if a.kind == "graph" or b.kind == "graph":
                return V("graph")
            a, b = self.want(e, a, "bool"), self.want(e, b, "bool")
            dom, mask = self.join(e, a, b)
            return V("bool", (b_and if isinstance(e.op, ast.BitAnd) else b_or)(a.e, b.e), dom, mask)
        if isinstance(e.op, ast.Pow):
            return self.power(e, a, b)
        op = {ast.Add: "+", ast.Sub: "-", ast.Mult: "*", ast.Div: "/"}.get(type(e.op))
        if op is None:
            err(e, "operator %s" % type(e.op).__name__)
        return self.binop(e, op, a, b)

    def binop(self, node, op, a, b):
        if a.kind == "graph" or b.kind == "graph":
            return V("graph")
        a, b = self.want(node, a, "num"), self.want(node, b, "num")
        dom, mask = self.join(node, a, b)
        return V("num", arith(op, a.e, b.e), dom, mask)

    def power(self, node, a, b):
        a, b = self.want(node, a, "num"), self.want(node, b, "num")
        if not is_const(b.e):
            err(node, "non-constant exponent")
        p = b.e[1]
        if p.denominator == 1:
            n = int(p)
            if n >= 0:
                return V("num", ("pow", a.e, n), a.dom, a.mask)
            return V("num", ("/", const(1), ("pow", a.e, -n)), a.dom, a.mask)
        return V("num", ("rpower", a.e, p), a.dom, a.mask)

    def compare(self, e):
        if len(e.ops) != 1:
            err(e, "chained comparison")
        a, b = self.expr(e.left), self.expr(e.comparators[0])
        op = e.ops[0]
        if a.kind == "graph" or b.kind == "graph" or a.kind in ("loopvar", "len") or b.kind in ("loopvar", "len"):
            return V("graph")
        if a.kind == "py" and b.kind == "py":
            if isinstance(op, ast.Eq):
                return V("py", a.e == b.e)
            if isinstance(op, ast.NotEq):
                return V("py", a.e != b.e)
            err(e, "comparison of python constants")
        if a.kind == "idx" or b.kind == "idx":
            return V("graph")
        a, b = self.want(e, a, "num"), self.want(e, b, "num")
        dom, mask = self.join(e, a, b)
        x, y = a.e, b.e
        r = {ast.LtE: ("le", x, y), ast.Lt: ("lt", x, y), ast.GtE: ("le", y, x), ast.Gt: ("lt", y, x),
             ast.Eq: ("eq", x, y), ast.NotEq: ("not", ("eq", x, y))}.get(type(op))
        if r is None:
            err(e, "comparison operator")
        return V("bool", r, dom, mask)

    def attribute(self, e):
        # np.pi, x.shape, obj.attr constants
        base = e.value
        if isinstance(base, ast.Name):
            st = self.lookup_static(base.id)
            if st == ("np",) and base.id not in self.env:
                if e.attr == "pi":
                    return self.num(("pi",))
                if e.attr in ("int32", "int64", "float64", "bool_"):
                    return V("py", "dtype:" + e.attr)
                err(e, "np.%s" % e.attr)
            key = "%s.%s" % (base.id, e.attr)
            if key in self.o["attr_consts"]:
                return V("py", self.o["attr_consts"][key])
        v = self.expr(base)
        if e.attr == "shape":
            if v.kind in ("num", "bool", "idx", "undef") and v.dom != "s":
                return V("shape", None, v.dom)
        err(e, "attribute .%s" % e.attr)

    def subscript(self, e):
        base, idx = e.value, e.slice
        # x.shape[0]
        v = self.expr(base)
        if v.kind == "shape":
            if isinstance(idx, ast.Constant) and idx.value == 0:
                return V("len", None, v.dom)
            err(e, "shape index")
        if v.kind == "graph":
            return V("graph")
        if v.kind == "py" and isinstance(v.e, dict):
            if isinstance(idx, ast.Constant) and idx.value in v.e:
                return V("py", v.e[idx.value])
            err(e, "unknown option key")
        if v.kind == "dict":
            if isinstance(idx, ast.Constant) and idx.value in v.e:
                return v.e[idx.value]
            err(e, "dict key")
        if v.kind == "pit":
            return self.pit_read(e, v, idx)
        if v.kind == "pitrow":
            col = self.expr(idx)
            return self.pit_col(e, v.pit, col, v.how)
        if v.kind in ("num", "bool", "idx", "undef"):
            i = self.expr(idx)
            if i.kind == "loopvar":
                if v.dom != i.dom:
                    err(e, "array of domain %s indexed by a loop over %s" % (v.dom, i.dom))
                if v.mask is not None:
                    err(e, "compressed array indexed by loop variable")
                return v
            if i.kind == "bool":
                if i.dom != v.dom or i.mask is not None or v.mask is not None:
                    err(e, "mask / array domain mismatch in x[mask]")
                if v.kind == "undef":
                    return V("num", UNDEF, v.dom, i.e)
                return V(v.kind, v.e, v.dom, i.e, **({"which": v.which} if v.kind == "idx" else {}))
            if i.kind == "idx" or i.kind == "graph":
                return V("graph")
            err(e, "subscript of an array by %s" % i.kind)
        err(e, "subscript of %s" % v.kind)

    def pit_read(self, e, pit, idx):
        if isinstance(idx, ast.Tuple) and len(idx.elts) == 2:
            r, c = idx.elts
            col = self.expr(c)
            if isinstance(r, ast.Slice):
                if r.lower or r.upper or r.step:
                    err(e, "partial slice of a pit")
                return self.pit_col(e, pit, col, ("all",))
            rv = self.expr(r)
            return self.pit_col(e, pit, col, self.row_how(e, pit, rv))
        rv = self.expr(idx)                     # pit[i]  -> row, column follows
        return V("pitrow", None, pit=pit, how=self.row_how(e, pit, rv))

    def row_how(self, e, pit, rv):
        if rv.kind == "loopvar":
            if rv.dom != pit.dom:
                err(e, "%s-pit indexed by a loop over %s" % (pit.dom, rv.dom))
            return ("all",)
        if rv.kind == "idx":
            if pit.dom != "n":
                err(e, "node index used on the branch pit")
            return ("gather", rv.which, rv.mask)
        err(e, "pit row index of kind %s" % rv.kind)

    def pit_col(self, e, pit, col, how):
        if col.kind != "col":
            err(e, "pit column is not an idx_* constant")
        want_mod = "idx_branch" if pit.dom == "b" else "idx_node"
        if col.module != want_mod:
            err(e, "column %s of %s used on the %s pit" % (col.cname, col.module, "branch" if pit.dom == "b" else "node"))
        if how[0] == "all":
            name = ("bp_" if pit.dom == "b" else "np_") + col.cname
            self.k.add_input(name)
            return V("num", ("v", name), pit.dom, None)
        name = "np_%s_%s" % (how[1], col.cname)
        self.k.add_input(name)
        return V("num", ("v", name), "b", how[2])

    # ---------------------------------------------------------------- calls
    def call(self, e):
        f = e.func
        kw = {k.arg: k.value for k in e.keywords}
        if isinstance(f, ast.Attribute):
            # x.copy(), x.astype(..), np.*, fluid.*
            if isinstance(f.value, ast.Name) and self.lookup_static(f.value.id) == ("np",) and f.value.id not in self.env:
                return self.np_call(e, f.attr, e.args, kw)
            key = None
            if isinstance(f.value, ast.Name):
                key = "%s.%s" % (f.value.id, f.attr)
            if key in self.o["opaque_calls"]:
                return self.opaque(e, self.o["opaque_calls"][key], e.args)
            obj = self.expr(f.value)
            if obj.kind == "graph":
                return V("graph")
            if f.attr == "copy" and not e.args and obj.kind in ("num", "bool"):
                return obj
            if f.attr == "astype" and len(e.args) == 1:
                t = self.expr(e.args[0])
                if t.kind == "py" and t.e in ("dtype:int32", "dtype:int64"):
                    if obj.kind == "idx":
                        return obj
                    if obj.kind == "num" and obj.e[0] == "v" and obj.e[1] in ("bp_FROM_NODE", "bp_TO_NODE"):
                        return V("idx", None, "b", obj.mask, which="from" if obj.e[1] == "bp_FROM_NODE" else "to")
                    err(e, ".astype(int) of something that is not a node-index column")
                if t.kind == "py" and t.e == "dtype:bool_" and obj.kind == "num":
                    return V("bool", b_not(("eq", obj.e, const(0))), obj.dom, obj.mask)
            err(e, "method call .%s" % f.attr)
        if isinstance(f, ast.Name):
            n = f.id
            if n in self.o["opaque_calls"]:
                return self.opaque(e, self.o["opaque_calls"][n], e.args)
            if n in ("abs", "max", "min", "len", "int", "float"):
                args = [self.expr(a) for a in e.args]
                if n == "len":
                    a = args[0]
                    if a.kind == "graph":
                        return V("graph")
                    if a.kind in ("num", "bool", "idx", "undef", "pit") and a.dom != "s":
                        return V("len", None, a.dom)
                    err(e, "len()")
                if any(a.kind == "graph" for a in args):
                    return V("graph")
                if n == "abs":
                    return self.unary(e, "abs", args[0])
                if n in ("max", "min") and len(args) == 2:
                    a, b = self.want(e, args[0], "num"), self.want(e, args[1], "num")
                    dom, mask = self.join(e, a, b)
                    return V("num", (n, a.e, b.e), dom, mask)
                err(e, "builtin %s" % n)
            fv = self.name(f)
            if fv.kind == "func":
                return self.inline(e, fv, [self.expr(a) for a in e.args])
        err(e, "call not supported: %s" % ast.dump(f)[:60])

    def opaque(self, e, spec, args):
        """spec: ("obj", name) | ("var", name, dom) | ("fun", name, arity)"""
        if spec[0] == "obj":
            return V("obj", spec[1])
        if spec[0] == "var":
            self.k.add_input(spec[1])
            return V("num", ("v", spec[1]), spec[2], None)
        if spec[0] == "idx":                       # opaque producer of a node-index array (e.g. flow-corrected from nodes)
            return V("idx", None, "b", None, which=spec[1])
        if spec[0] == "fun":
            a = [self.want(e, self.expr(x), "num") for x in list(args) + [k.value for k in getattr(e, "keywords", [])]]
            if len(a) != spec[2]:
                err(e, "opaque function %s called with %d arguments, expected %d" % (spec[1], len(a), spec[2]))
            dom, mask = self.join(e, *a)
            self.k.add_input(spec[1], " -> ".join(["R"] * (spec[2] + 1)))
            return V("num", ("app", spec[1], tuple(x.e for x in a)), dom, mask)
        err(e, "opaque spec")

    def unary(self, e, op, a):
        if a.kind == "graph":
            return a
        a = self.want(e, a, "num")
        return V("num", (op, a.e), a.dom, a.mask)

    def np_call(self, e, fn, args, kw):
        if fn in NP_UNARY and len(args) == 1:
            return self.unary(e, NP_UNARY[fn], self.expr(args[0]))
        if fn in ("maximum", "minimum", "divide", "less_equal") and len(args) == 2:
            a, b = self.want(e, self.expr(args[0]), "num"), self.want(e, self.expr(args[1]), "num")
            dom, mask = self.join(e, a, b)
            if fn == "divide":
                return V("num", arith("/", a.e, b.e), dom, mask)
            if fn == "less_equal":
                return V("bool", ("le", a.e, b.e), dom, mask)
            return V("num", ("max" if fn == "maximum" else "min", a.e, b.e), dom, mask)
        if fn == "power" and len(args) == 2:
            return self.power(e, self.expr(args[0]), self.expr(args[1]))
        if fn in ("ones_like", "zeros_like", "empty_like") and len(args) == 1:
            a = self.expr(args[0])
            if a.kind not in ("num", "bool", "idx", "undef") or a.dom == "s":
                err(e, "np.%s of a non-array" % fn)
            isb = "dtype" in kw and isinstance(kw["dtype"], ast.Name) and kw["dtype"].id == "bool"
            if fn == "empty_like":
                return V("undef", None, a.dom)
            if isb:
                return V("bool", TRUE if fn == "ones_like" else FALSE, a.dom, a.mask)
            return V("num", const(1 if fn == "ones_like" else 0), a.dom, a.mask)
        if fn in ("empty", "zeros", "ones", "full") and args:
            if fn == "ones" and self.is_np_call(args[0], "sum"):
                m = self.expr(args[0].args[0])            # np.ones(np.sum(mask)): ones compressed by mask
                if m.kind == "bool" and m.dom != "s" and m.mask is None:
                    return V("num", const(1), m.dom, m.e)
                err(e, "np.ones(np.sum(..)) of a non-mask")
            n = self.expr(args[0])
            if n.kind == "graph":
                return V("graph")
            if n.kind != "len":
                err(e, "np.%s size is not an array length" % fn)
            if fn == "empty":
                return V("undef", None, n.dom)
            if fn == "full":
                x = self.want(e, self.expr(args[1]), "num")
                if x.dom != "s":
                    err(e, "np.full value")
                return V("num", x.e, n.dom, None)
            return V("num", const(1 if fn == "ones" else 0), n.dom, None)
        if fn == "where" and len(args) == 3:
            c, a, b = self.want(e, self.expr(args[0]), "bool"), self.want(e, self.expr(args[1]), "num"), \
                self.want(e, self.expr(args[2]), "num")
            dom, mask = self.join(e, c, a, b)
            return V("num", mk_ite(c.e, a.e, b.e), dom, mask)
        if fn == "isnan" and len(args) == 1:
            a = self.expr(args[0])
            if a.kind == "graph":
                return a
            a = self.want(e, a, "num")
            return V("bool", FALSE, a.dom, a.mask)       # NaN is outside the real model
        if fn == "isclose" and len(args) == 2:
            a, b = self.want(e, self.expr(args[0]), "num"), self.want(e, self.expr(args[1]), "num")
            rtol = self.want(e, self.expr(kw["rtol"]), "num").e if "rtol" in kw else const(Fraction("1e-5"))
            atol = self.want(e, self.expr(kw["atol"]), "num").e if "atol" in kw else const(Fraction("1e-8"))
            if set(kw) - {"rtol", "atol"}:
                err(e, "np.isclose keyword")
            dom, mask = self.join(e, a, b)
            if is_const(b.e) and b.e[1] == 0:
                return V("bool", ("le", ("abs", a.e), atol), dom, mask)     # |a - 0| <= atol + rtol*|0|
            return V("bool", ("le", ("abs", ("-", a.e, b.e)), ("+", atol, ("*", rtol, ("abs", b.e)))), dom, mask)
        err(e, "np.%s is not supported" % fn)

    def inline(self, e, fv, args):
        if self.depth > 4:
            err(e, "call depth")
        mod = get_mod(fv.rel)
        if fv.fname not in mod.funcs:
            err(e, "function %s not found in %s" % (fv.fname, fv.rel))
        sub = Exec(self.k, mod, self.o)
        sub.depth = self.depth + 1
        ret = sub.run(mod.funcs[fv.fname], args)
        return ret


# ------------------------------------------------------------------------------------------------ entry point
def translate(rel, fname, params, name=None, outputs=None, drop_outputs=(), graph=(), bool_inputs=None,
              opaque_calls=None, attr_consts=None, fold=True):
    """Translate function `fname` of src/pandapipes/<rel>.

    params: {param: kind} with kind in
        "b" | "n" | "s"        float array over branches / over nodes / scalar  (input named like the parameter)
        "bpit" | "npit"        the branch / node pit  (reads become inputs bp_<COL>, np_<COL>, np_from_<COL>, np_to_<COL>)
        "from" | "to"          int array of from / to node positions (gather index)
        ("const", value)       python constant the function is specialised to (bool, str, number, dict of options)
        "obj"                  opaque object (only usable through attr_consts / opaque_calls)
        "unused"               must not be touched on the translated path
      parameters not listed default to "b".
    outputs: names for the returned tuple (default: the returned variable names / dict keys)
    graph: names whose assignments belong to the graph part and are skipped; bool_inputs: {name: dom} names that are
      read as boolean inputs instead (their assignments are skipped)."""
    mod = get_mod(rel)
    if "." in fname:                                   # "outer.inner": a function defined inside another function
        outer, inner = fname.split(".", 1)
        if outer not in mod.funcs:
            raise TranslateError("function %s not found in %s" % (outer, rel))
        cand = [n for n in ast.walk(mod.funcs[outer]) if isinstance(n, ast.FunctionDef) and n.name == inner]
        if len(cand) != 1:
            raise TranslateError("nested function %s not found (uniquely) in %s" % (fname, rel))
        fdef = cand[0]
    else:
        if fname not in mod.funcs:
            raise TranslateError("function %s not found in %s" % (fname, rel))
        fdef = mod.funcs[fname]
    k = Kernel(name or fname, "%s:%s" % (rel, fname))
    opts = {"graph": set(graph), "bool_inputs": dict(bool_inputs or {}), "opaque_calls": dict(opaque_calls or {}),
            "attr_consts": dict(attr_consts or {})}
    ex = Exec(k, mod, opts)
    args = []
    pnames = [a.arg for a in fdef.args.args]
    for p in params:
        if p not in pnames:
            raise TranslateError("%s has no parameter %s" % (fname, p))
    for p in pnames:
        k.used.add(p)
    for p in pnames:
        kind = params.get(p, "b")
        if kind in ("b", "n", "s"):
            k.inputs[p] = "R"
            args.append(V("num", ("v", p), kind, None))
        elif kind in ("bpit", "npit"):
            args.append(V("pit", None, "b" if kind == "bpit" else "n"))
        elif kind in ("from", "to"):
            args.append(V("idx", None, "b", None, which=kind))
        elif isinstance(kind, tuple) and kind[0] == "const":
            v = kind[1]
            if isinstance(v, (int, float)) and not isinstance(v, bool):
                args.append(V("num", const(Fraction(repr(v)) if isinstance(v, float) else v)))
            else:
                args.append(V("py", v))
        elif kind == "obj":
            args.append(V("obj", p))
        elif kind == "unused":
            args.append(V("unused", p))
        else:
            raise TranslateError("bad parameter kind %r" % (kind,))
    FOLD[0] = fold
    try:
        ret = ex.run(fdef, args)
    finally:
        FOLD[0] = True
    # outputs
    names = outputs
    rnode = [s for s in ast.walk(fdef) if isinstance(s, ast.Return)][-1]
    if ret.kind == "dict":
        items = list(ret.e.items())
    else:
        vals = ret.e if ret.kind == "tuple" else [ret]
        if names is None:
            rv = rnode.value
            elts = rv.elts if isinstance(rv, ast.Tuple) else [rv]
            names = [x.id if isinstance(x, ast.Name) else "ret%d" % i for i, x in enumerate(elts)]
        if len(names) != len(vals):
            raise TranslateError("%s returns %d values, %d names given" % (fname, len(vals), len(names)))
        items = list(zip(names, vals))
    for n, v in items:
        if n in drop_outputs or n in opts["graph"]:
            continue
        if v.kind == "undef":
            raise TranslateError("%s: output %s is never assigned" % (fname, n))
        if v.kind in ("idx", "graph"):
            continue
        if v.kind == "col":
            v = V("num", const(v.value))
        if v.kind not in ("num", "bool"):
            raise TranslateError("%s: output %s has kind %s" % (fname, n, v.kind))
        if v.mask is not None:
            raise TranslateError("%s: output %s is a compressed array" % (fname, n))
        k.outputs.append((n, "R" if v.kind == "num" else "bool", v.e))
    if not k.outputs:
        raise TranslateError("%s: no outputs" % fname)
    return k


# ------------------------------------------------------------------------------------------------ standard files
TB_NP = "pf/derivative_toolbox.py"
TB_NB = "pf/derivative_toolbox_numba.py"
_HYD_INCOMP = {"branch_pit": "bpit"}
_HYD_COMP = {"node_pit": "npit", "branch_pit": "bpit"}
_THERM = {"node_pit": "npit", "branch_pit": "bpit", "node_pit_old": "unused", "node_pit_old_lookup": "unused",
          "branch_pit_old": "unused", "branch_pit_old_lookup": "unused", "from_nodes": "from", "to_nodes": "to",
          "t_init_n": "n", "dt": "unused", "transient": ("const", False), "amb": "s"}
_THERM_KW = dict(graph=("club_to", "club_from", "max_val_to", "max_val_from", "infeed", "result_from", "result_to"),
                 bool_inputs={"nodes_flow": "n"}, drop_outputs=("infeed",))
_DERIVED = {"node_pit": "npit", "from_nodes": "from", "to_nodes": "to"}


def k_hyd_incomp(tw):
    return translate(TB_NP if tw == "np" else TB_NB, "derivatives_hydraulic_incomp_" + ("np" if tw == "np" else "numba"),
                     _HYD_INCOMP, name="hyd_incomp_" + tw)


def k_hyd_comp(tw):
    return translate(TB_NP if tw == "np" else TB_NB, "derivatives_hydraulic_comp_" + ("np" if tw == "np" else "numba"),
                     _HYD_COMP, name="hyd_comp_" + tw)


def k_therm(tw):
    return translate(TB_NP if tw == "np" else TB_NB, "derivatives_thermal_" + ("np" if tw == "np" else "numba"),
                     _THERM, name="therm_" + tw, **_THERM_KW)


def k_branches_flow(tw):
    if tw == "np":
        return translate(TB_NP, "_branches_not_zero_flow", {"branch_pit": "bpit"}, name="branches_flow_np",
                         outputs=["flow"])
    return translate(TB_NB, "_make_lookups", {"branch_pit": "bpit", "to_nodes": "to", "from_nodes": "from"},
                     name="branches_flow_nb", outputs=["club_to", "club_from", "flow"],
                     graph=("club_to", "club_from", "max_val_to", "max_val_from"))


def k_pm(tw):
    return translate(TB_NP if tw == "np" else TB_NB,
                     "calc_medium_pressure_with_derivative_" + ("np" if tw == "np" else "numba"), {}, name="pm_" + tw)


def k_lambda(tw, fluid):
    return translate(TB_NP if tw == "np" else TB_NB,
                     "calc_lambda_nikuradse_%s_%s" % (fluid, "np" if tw == "np" else "numba"), {},
                     name="lambda_%s_%s" % (fluid, tw))


def k_derived(tw):
    return translate(TB_NP if tw == "np" else TB_NB, "calc_derived_values_" + ("np" if tw == "np" else "numba"),
                     _DERIVED, name="derived_" + tw)


RE_X = "pf/result_extraction.py"
_FLUID = {"get_fluid": ("obj", "fluid"), "fluid.get_compressibility": ("fun", "fl_compressibility", 2),
          "fluid.get_density": ("fun", "fl_density", 1), "get_branch_real_density": ("var", "rho_real", "b")}


def k_gasres_np():
    return translate(RE_X, "get_branch_results_gas", {"net": "obj", "branch_pit": "bpit", "node_pit": "npit",
                                                      "from_nodes": "from", "to_nodes": "to"},
                     name="gasres_np", opaque_calls=_FLUID)


def k_gasres_nb():
    return [translate(RE_X, "get_pressures_numba", {"node_pit": "npit", "from_nodes": "from", "to_nodes": "to"},
                      name="gaspress_nb"),
            translate(RE_X, "get_gas_vel_numba", {"branch_pit": "bpit"}, name="gasvel_nb")]


def k_basic(gas):
    return translate(RE_X, "get_basic_branch_results", {"net": "obj", "branch_pit": "bpit", "node_pit": "npit"},
                     name="basic_gas" if gas else "basic_liq", opaque_calls=_FLUID, attr_consts={"fluid.is_gas": gas})


DC = "pf/derivative_calculation.py"


def k_calc_lambda(friction_model, gas, use_numba=False):
    """calc_lambda specialised to a friction model ('nikuradse' | 'swamee-jain'), fluid kind and engine"""
    nm = "calc_lambda_%s_%s_%s" % ({"nikuradse": "nik", "swamee-jain": "sj"}[friction_model], "gas" if gas else "liq",
                                  "nb" if use_numba else "np")
    return translate(DC, "calc_lambda", {"m": "b", "eta": "b", "d": "b", "k": "b", "gas_mode": ("const", gas),
                                         "friction_model": ("const", friction_model), "lengths": "b",
                                         "options": ("const", {"use_numba": use_numba}), "area": "b"},
                     name=nm, outputs=["lambda_", "re"])


def k_der_lambda(friction_model):
    nm = "calc_der_lambda_%s" % {"nikuradse": "nik", "swamee-jain": "sj"}[friction_model]
    return translate(DC, "calc_der_lambda", {"friction_model": ("const", friction_model)}, name=nm,
                     outputs=["lambda_der"])


def k_colebrook():
    """the implicit Colebrook-White function handed to scipy.optimize.newton and its derivative (nested in colebrook_white)"""
    return [translate(DC, "colebrook_white.colebrook_white_implicit", {}, name="cw_implicit", outputs=["f"]),
            translate(DC, "colebrook_white.cw_derivative", {}, name="cw_derivative", outputs=["df"])]


def k_pamb():
    return translate("component_models/component_toolbox.py", "p_correction_height_air", {"height": "n"},
                     name="p_correction_height_air", outputs=["p"])


PT = "properties/properties_toolbox.py"
_PROPS_OPAQUE = {"get_from_nodes_corrected": ("idx", "inlet"), "get_to_nodes_corrected": ("idx", "outlet"),
                 "fluid.get_viscosity": ("fun", "fl_viscosity", 2), "fluid.get_density": ("fun", "fl_density", 1),
                 "fluid.get_compressibility": ("fun", "fl_compressibility", 2),
                 "fluid.get_heat_capacity": ("fun", "fl_heat_capacity", 1)}


def k_branch_props():
    """get_branch_real_eta / get_branch_real_density (liquid, gas) / get_branch_cp: which temperatures and pressures enter.
    Gathers through get_from/to_nodes_corrected (flow-direction corrected nodes) are inputs np_inlet_<COL> / np_outlet_<COL>."""
    par = {"fluid": "obj", "node_pit": "npit", "branch_pit": "bpit"}
    return [translate(PT, "get_branch_real_eta", dict(par, pm="b"), name="real_eta", outputs=["eta"],
                      opaque_calls=_PROPS_OPAQUE),
            translate(PT, "get_branch_real_density", par, name="real_rho_liq", outputs=["rho"],
                      opaque_calls=_PROPS_OPAQUE, attr_consts={"fluid.is_gas": False}),
            translate(PT, "get_branch_real_density", par, name="real_rho_gas", outputs=["rho"],
                      opaque_calls=_PROPS_OPAQUE, attr_consts={"fluid.is_gas": True}),
            translate(PT, "get_branch_cp", par, name="real_cp", outputs=["cp"], opaque_calls=_PROPS_OPAQUE)]


FILES = {
    "KBranchProps": k_branch_props,
    "KFriction": lambda: [k_calc_lambda(f, g, nb) for f in ("nikuradse", "swamee-jain") for g in (False, True)
                            for nb in (False, True)] + [k_der_lambda("nikuradse"), k_der_lambda("swamee-jain")],
    "KPamb": lambda: [k_pamb()],
    "KColebrook": k_colebrook,
    "KGasResNp": lambda: [k_gasres_np()], "KGasResNb": k_gasres_nb,
    "KBasicRes": lambda: [k_basic(False), k_basic(True)],
    "KHydIncompNp": lambda: [k_hyd_incomp("np")], "KHydIncompNb": lambda: [k_hyd_incomp("nb")],
    "KHydCompNp": lambda: [k_hyd_comp("np")], "KHydCompNb": lambda: [k_hyd_comp("nb")],
    "KThermNp": lambda: [k_therm("np"), k_branches_flow("np")],
    "KThermNb": lambda: [k_therm("nb"), k_branches_flow("nb")],
    "KPmNp": lambda: [k_pm("np")], "KPmNb": lambda: [k_pm("nb")],
    "KLambdaNp": lambda: [k_lambda("np", "incomp"), k_lambda("np", "comp")],
    "KLambdaNb": lambda: [k_lambda("nb", "incomp"), k_lambda("nb", "comp")],
    "KDerivedNp": lambda: [k_derived("np")], "KDerivedNb": lambda: [k_derived("nb")],
}


def generate(fname):
    """Coq text of the standard generated file `fname` (a key of FILES)."""
    return coq_file(fname, FILES[fname]())


def gen_entries(names):
    """GEN entries for tools/props/cxx.py:  GEN = kernels.gen_entries(["KHydIncompNp", ...])"""
    return [(n, (lambda n=n: generate(n))) for n in names]


if __name__ == "__main__":
    for f in (sys.argv[1:] or sorted(FILES)):
        print(generate(f))
