"""C10 / C11 T-tie: the thermal glue code around the kernels, as Coq definitions over R.

The shared symbolic executor tools/translate/kernels.py translates plain element-wise functions.  The code
this module is after is *not* plain: it is a slice of `calculate_derivatives_thermal` and class methods
(`adaption_*`, `extract_results`) that address a row range of the pit, a component array and result tables.
This module is a fail-closed AST *normaliser*: it rewrites those bodies by a fixed list of patterns into
plain functions over (branch_pit, node_pit, corrected-from gather, component-array columns), registers them
as synthetic modules, and lets `kernels.translate` do the arithmetic.  Any statement or expression shape
that is not in the list raises `TranslateError` (-> broken obligation).

Generated files
  KThermExpr.v  thermexpr_{cp_i1,cp_nt,cp_n,cp_b,t_init_i,t_init_i1,t_init_nt}  slice of calculate_derivatives_thermal
                branch_cp_cp                                         properties_toolbox.get_branch_cp
                therm_wiring_branch / therm_wiring_node              which kernel output is stored in which column
                therm_call_ok                                        the kernel call passes like-named arguments
                switch_threshold_{num,den}, solve_T_update            solve_temperature: direction switch, update lines
  KHooksHeat.v  hc_bh_* hc_ah_* hc_bt_* hc_at_* hc_res_*             HeatConsumer hooks / extract_results
                cp_at_* cp_res_*                                      CirculationPump thermal hook / extract_results
                hex_pit_*                                             HeatExchanger.create_pit_branch_entries wiring
                hc_mode_consts, hc_mode_assignments                   HeatConsumer mode constants and decision table

Input naming: as in KERNELS_API.md; `np_from_TINIT` is node_pit[get_from_nodes_corrected(..), TINIT], i.e. the
temperature at the *flow-corrected* from node; `ca_<COL>` is consumer_array[:, cls.<COL>]; `fl_cp` is
fluid.get_heat_capacity (uninterpreted R -> R).
"""
import ast
import copy
import os
import sys
from fractions import Fraction

sys.path.insert(0, os.path.dirname(os.path.dirname(os.path.abspath(__file__))))
from translate import kernels  # noqa: E402
from translate.kernels import TranslateError  # noqa: E402

PROPS = "properties/properties_toolbox.py"
DCALC = "pf/derivative_calculation.py"
HC = "component_models/heat_consumer_component.py"
HEX = "component_models/heat_exchanger_component.py"
CP = "component_models/abstract_models/circulation_pump.py"
PIPEFLOW = "pipeflow.py"
SYN = "SYN/"

OPAQUE = {"get_fluid": ("obj", "fluid"), "fluid.get_heat_capacity": ("fun", "fl_cp", 1)}
PIT_ALIASES_OK = ("hc_pit", "circ_pump_pit", "heat_exchanger_pit")


def fail(node, msg):
    raise TranslateError("heat.py line %s: %s" % (getattr(node, "lineno", "?"), msg))


def dump(n):
    return ast.dump(n)[:90]


def is_name(n, ident=None):
    return isinstance(n, ast.Name) and (ident is None or n.id == ident)


def is_call(n, fname):
    return isinstance(n, ast.Call) and is_name(n.func, fname)


def full_slice(s):
    return isinstance(s, ast.Slice) and s.lower is None and s.upper is None and s.step is None


def ft_slice(s):
    return isinstance(s, ast.Slice) and is_name(s.lower, "f") and is_name(s.upper, "t") and s.step is None


def find_class_method(tree, cname, mname):
    for node in tree.body:
        if isinstance(node, ast.ClassDef) and node.name == cname:
            for sub in node.body:
                if isinstance(sub, ast.FunctionDef) and sub.name == mname:
                    return node, sub
    raise TranslateError("method %s.%s not found" % (cname, mname))


def class_int_consts(cls):
    out = {}
    for sub in cls.body:
        if isinstance(sub, ast.Assign) and len(sub.targets) == 1 and is_name(sub.targets[0]) and \
                isinstance(sub.value, ast.Constant) and isinstance(sub.value.value, int) \
                and not isinstance(sub.value.value, bool):
            out[sub.targets[0].id] = sub.value.value
    return out


# ------------------------------------------------------------------------------------------------ synthetic modules
def register(rel, base_rel, funcs, override_names=None):
    """a synthetic module SYN/<rel> holding `funcs`, resolving names like the real module base_rel"""
    base = kernels.get_mod(base_rel)
    m = kernels.Mod.__new__(kernels.Mod)
    m.rel, m.path, m.text, m.tree = SYN + rel, base.path, base.text, base.tree
    m.funcs = {f.name: f for f in funcs}
    m.names = dict(base.names)
    m.names.update(override_names or {})
    kernels._MODS[(kernels.src_root(), SYN + rel)] = m
    return m


def mkfun(name, params, body, like):
    fd = ast.FunctionDef(name=name, args=ast.arguments(posonlyargs=[], args=[ast.arg(arg=p) for p in params],
                                                        kwonlyargs=[], kw_defaults=[], defaults=[]),
                         body=body, decorator_list=[], returns=None, type_params=[])
    ast.copy_location(fd, like)
    ast.fix_missing_locations(fd)
    return fd


# ------------------------------------------------------------------------------------------------ the normaliser
class Rewriter:
    """rewrites one method body; see module docstring for the accepted shapes"""

    def __init__(self, consts, comp_array="consumer_array"):
        self.consts = consts
        self.comp_array = comp_array
        self.aliases = {"branch_pit"}
        self.written = []
        self.results = []
        self.ca_cols = []
        self.row_masks = {}       # local name -> lookup name of a "rows that were calculated" mask
        self.res_masks = []       # (result column, lookup name | "all")

    # ---- classification helpers
    def is_pit(self, n):
        return is_name(n) and n.id in self.aliases

    def col_name(self, n):
        if not is_name(n):
            fail(n, "pit column is not a name: " + dump(n))
        return n.id

    def ca_col(self, n):
        if isinstance(n, ast.Attribute) and is_name(n.value, "cls") and n.attr in self.consts:
            if n.attr not in self.ca_cols:
                self.ca_cols.append(n.attr)
            return n.attr
        fail(n, "component-array column is not cls.<CONST>: " + dump(n))

    def pit_sub(self, n):
        """P[rows, COL] with P a pit alias -> (rows, COL) ; rows None for ':' / 'f:t'"""
        if isinstance(n, ast.Subscript) and self.is_pit(n.value) and isinstance(n.slice, ast.Tuple) \
                and len(n.slice.elts) == 2:
            r, c = n.slice.elts
            if full_slice(r) or ft_slice(r):
                return None, self.col_name(c)
            return r, self.col_name(c)
        return False

    def prepass(self, stmts):
        for s in stmts:
            for n in ast.walk(s):
                if isinstance(n, ast.Assign) and len(n.targets) == 1 and is_name(n.targets[0]) and \
                        isinstance(n.value, ast.Subscript) and is_name(n.value.value, "branch_pit") and \
                        isinstance(n.value.slice, ast.Tuple) and ft_slice(n.value.slice.elts[0]) and \
                        full_slice(n.value.slice.elts[1]):
                    if n.targets[0].id not in PIT_ALIASES_OK:
                        fail(n, "unexpected pit alias " + n.targets[0].id)
                    self.aliases.add(n.targets[0].id)
        for s in stmts:
            for n in ast.walk(s):
                if isinstance(n, (ast.Assign, ast.AugAssign)):
                    tg = n.targets if isinstance(n, ast.Assign) else [n.target]
                    for t in tg:
                        ps = self.pit_sub(t)
                        if ps and ps[1] not in self.written:
                            self.written.append(ps[1])

    # ---- expressions
    def ex(self, n):
        if isinstance(n, ast.Constant) or is_name(n):
            if is_name(n) and n.id in self.aliases and n.id != "branch_pit":
                return ast.copy_location(ast.Name(id="branch_pit", ctx=ast.Load()), n)
            return n
        if isinstance(n, ast.Attribute):
            if is_name(n.value, "cls") and n.attr in self.consts:
                return ast.copy_location(ast.Constant(value=self.consts[n.attr]), n)
            if is_name(n.value, "np") and n.attr == "pi":
                return n
            fail(n, "attribute " + dump(n))
        if isinstance(n, ast.UnaryOp):
            return ast.copy_location(ast.UnaryOp(op=n.op, operand=self.ex(n.operand)), n)
        if isinstance(n, ast.BinOp):
            return ast.copy_location(ast.BinOp(left=self.ex(n.left), op=n.op, right=self.ex(n.right)), n)
        if isinstance(n, ast.BoolOp):
            return ast.copy_location(ast.BoolOp(op=n.op, values=[self.ex(v) for v in n.values]), n)
        if isinstance(n, ast.Compare):
            return ast.copy_location(ast.Compare(left=self.ex(n.left), ops=n.ops,
                                                 comparators=[self.ex(c) for c in n.comparators]), n)
        if isinstance(n, ast.Tuple):
            return ast.copy_location(ast.Tuple(elts=[self.ex(e) for e in n.elts], ctx=n.ctx), n)
        if isinstance(n, ast.Subscript):
            return self.sub(n)
        if isinstance(n, ast.Call):
            return self.call(n)
        fail(n, "expression " + dump(n))

    def masked(self, base, rows, like):
        if rows is None:
            return base
        return ast.copy_location(ast.Subscript(value=base, slice=self.ex(rows), ctx=ast.Load()), like)

    def col_read(self, col, like):
        if col in self.written:
            return ast.copy_location(ast.Name(id="o_" + col, ctx=ast.Load()), like)
        return ast.copy_location(ast.Subscript(
            value=ast.Name(id="branch_pit", ctx=ast.Load()),
            slice=ast.Tuple(elts=[ast.Slice(), ast.Name(id=col, ctx=ast.Load())], ctx=ast.Load()), ctx=ast.Load()), like)

    def sub(self, n):
        ps = self.pit_sub(n)
        if ps:
            rows, col = ps
            return self.masked(self.col_read(col, n), rows, n)
        # consumer_array[rows, cls.X]
        if is_name(n.value, self.comp_array) and isinstance(n.slice, ast.Tuple) and len(n.slice.elts) == 2:
            r, c = n.slice.elts
            base = ast.copy_location(ast.Name(id="ca_" + self.ca_col(c), ctx=ast.Load()), n)
            return self.masked(base, None if full_slice(r) else r, n)
        # node_pit[idx, COL]  /  x[mask]
        if is_name(n.value, "node_pit") and isinstance(n.slice, ast.Tuple) and len(n.slice.elts) == 2:
            r, c = n.slice.elts
            return ast.copy_location(ast.Subscript(value=n.value, slice=ast.Tuple(
                elts=[r if full_slice(r) else self.ex(r), c], ctx=ast.Load()), ctx=ast.Load()), n)
        if is_name(n.value) and n.value.id not in self.aliases and not isinstance(n.slice, (ast.Tuple, ast.Slice)):
            return ast.copy_location(ast.Subscript(value=n.value, slice=self.ex(n.slice), ctx=ast.Load()), n)
        fail(n, "subscript " + dump(n))

    def pit_arg(self, a):
        """a pit passed to an element-wise callee: P | P[mask] | branch_pit[f:t]  -> rows (None = all)"""
        if self.is_pit(a):
            return None
        if isinstance(a, ast.Subscript) and self.is_pit(a.value):
            if ft_slice(a.slice) or full_slice(a.slice):
                return None
            if not isinstance(a.slice, ast.Tuple):
                return a.slice
        fail(a, "pit argument " + dump(a))

    def call(self, n):
        if n.keywords and not is_call(n, "get_component_array"):
            fail(n, "keyword arguments")
        if is_call(n, "get_from_nodes_corrected") and len(n.args) == 1:
            self.guard_unwritten(n)
            rows = self.pit_arg(n.args[0])
            return self.masked(ast.copy_location(ast.Name(id="from_nodes_c", ctx=ast.Load()), n), rows, n)
        if is_call(n, "get_branch_cp") and len(n.args) == 3 and is_name(n.args[1], "node_pit"):
            self.guard_unwritten(n)
            rows = self.pit_arg(n.args[2])
            c = ast.copy_location(ast.Call(func=n.func, args=[self.ex(n.args[0]), n.args[1],
                                                              ast.Name(id="branch_pit", ctx=ast.Load()),
                                                              ast.Name(id="from_nodes_c", ctx=ast.Load())],
                                           keywords=[]), n)
            return self.masked(c, rows, n)
        if is_call(n, "get_fluid") and len(n.args) == 1 and is_name(n.args[0], "net"):
            return n
        if isinstance(n.func, ast.Attribute) and is_name(n.func.value, "fluid") and n.func.attr == "get_heat_capacity":
            return ast.copy_location(ast.Call(func=n.func, args=[self.ex(a) for a in n.args], keywords=[]), n)
        if isinstance(n.func, ast.Attribute) and is_name(n.func.value, "np") and n.func.attr in ("abs", "exp", "isclose"):
            return ast.copy_location(ast.Call(func=n.func, args=[self.ex(a) for a in n.args], keywords=[]), n)
        fail(n, "call " + dump(n))

    def guard_unwritten(self, n):
        bad = set(self.written) & {"TOUTINIT", "FROM_NODE", "TO_NODE", "FROM_NODE_T_SWITCHED"}
        if bad:
            fail(n, "a callee reads pit columns this method writes: %s" % sorted(bad))

    # ---- statements
    DROP_CALLS = ("get_lookup", "get_component_array", "standard_branch_wo_internals_result_lookup")

    def droppable_assign(self, s):
        t, v = s.targets[0], s.value
        # active = get_lookup(net, "branch", "active_<mode>")[f:t] : mask of the element's rows that were calculated
        if is_name(t) and isinstance(v, ast.Subscript) and ft_slice(v.slice) and is_call(v.value, "get_lookup") and \
                len(v.value.args) == 3 and is_name(v.value.args[0], "net") and \
                all(isinstance(a, ast.Constant) for a in v.value.args[1:]) and v.value.args[1].value == "branch" and \
                str(v.value.args[2].value).startswith("active_") and not v.value.keywords:
            self.row_masks[t.id] = v.value.args[2].value
            return True
        if isinstance(t, ast.Tuple) and [e.id for e in t.elts if is_name(e)] == ["f", "t"] and \
                isinstance(v, ast.Subscript) and is_name(v.value) and v.value.id in ("idx_lookups", "branch_lookups"):
            return True
        if is_name(t) and t.id in self.aliases and t.id != "branch_pit":
            return True
        if is_name(t, self.comp_array) and is_call(v, "get_component_array"):
            return True
        if is_name(t) and t.id in ("node_pit", "branch_pit") and isinstance(v, ast.Subscript) and \
                isinstance(v.value, ast.Subscript) and is_name(v.value.value, "net") and \
                isinstance(v.value.slice, ast.Constant) and v.value.slice.value == "_pit" and \
                isinstance(v.slice, ast.Constant) and v.slice.value == t.id.split("_")[0]:
            return True
        if is_name(t, "branch_lookups") and is_call(v, "get_lookup"):
            return True
        if is_name(t, "res_table") and isinstance(v, ast.Subscript) and is_name(v.value, "net"):
            return True
        if isinstance(t, ast.Tuple) and is_call(v, "standard_branch_wo_internals_result_lookup"):
            return True
        return False

    def res_target(self, t):
        """res_table['x'].values[:] | res_table['x'].values[<calculated-rows mask>]  -> 'x'"""
        if isinstance(t, ast.Subscript) and (full_slice(t.slice) or (is_name(t.slice) and t.slice.id in self.row_masks)) \
                and isinstance(t.value, ast.Attribute) and \
                t.value.attr == "values" and isinstance(t.value.value, ast.Subscript) and \
                is_name(t.value.value.value, "res_table") and isinstance(t.value.value.slice, ast.Constant):
            return t.value.value.slice.value
        return None

    def stmts(self, body, rest_reads=()):
        out = []
        for i, s in enumerate(body):
            if isinstance(s, ast.Expr):
                if isinstance(s.value, ast.Constant) and isinstance(s.value.value, str):
                    continue
                if is_call(s.value, "extract_branch_results_without_internals"):
                    continue
                fail(s, "expression statement " + dump(s.value))
            if isinstance(s, ast.Return):
                if is_name(s.value) and s.value.id in self.aliases and i == len(body) - 1:
                    continue
                fail(s, "return " + dump(s))
            if isinstance(s, ast.If):
                t = s.test
                if not (is_call_attr(t, "np", "any") and len(t.args) == 1 and is_name(t.args[0])) or s.orelse:
                    fail(s, "`if` is not `if np.any(<mask name>):`")
                if len(s.body) == 1 and isinstance(s.body[0], ast.Raise):
                    continue                                    # plausibility guard, no data flow
                # flattening `if np.any(mask): body` is sound when body only does mask-compressed updates:
                # every store into a pit column is compressed by the guard mask (or by a mask refined from it
                # inside the body) and the locals bound inside are not read after the block
                guard = t.args[0].id
                inner_names = set()
                for sub in s.body:
                    if not isinstance(sub, ast.Assign) or len(sub.targets) != 1:
                        fail(sub, "statement inside `if np.any(mask)` is not a simple assignment")
                    tg = sub.targets[0]
                    if is_name(tg):
                        inner_names.add(tg.id)
                    else:
                        ps = self.pit_sub(tg)
                        if not ps or ps[0] is None:
                            fail(sub, "store inside `if np.any(mask)` is not a masked pit store")
                        used = {x.id for x in ast.walk(ps[0]) if is_name(x)}
                        if guard not in used:
                            fail(sub, "masked store not compressed by the guard mask " + guard)
                        if not mask_refines(ps[0], guard):
                            fail(sub, "store mask does not refine the guard mask")
                later = first_reads(list(body[i + 1:]))
                leak = (inner_names - {guard}) & later
                if leak:
                    fail(s, "locals of an `if np.any` block are read afterwards: %s" % sorted(leak))
                if guard in inner_names:
                    # mask refined inside (mask = mask & ~x): refinement only
                    for sub in s.body:
                        if is_name(sub.targets[0], guard) and not mask_refines(sub.value, guard):
                            fail(sub, "guard mask reassigned to something that does not refine it")
                    if guard in later:
                        fail(s, "refined guard mask read after the block")
                out += self.stmts(s.body)
                continue
            if isinstance(s, ast.Assign) and len(s.targets) == 1:
                if self.droppable_assign(s):
                    continue
                t = s.targets[0]
                rn = self.res_target(t)
                if rn is not None:
                    if "res_" + rn in self.results:
                        fail(s, "result column written twice")
                    self.results.append("res_" + rn)
                    val = s.value
                    if is_name(t.slice):
                        # written only on the calculated rows: the value must be compressed by the same mask; the
                        # translated output is the value written on those rows
                        if not (isinstance(val, ast.Subscript) and is_name(val.slice, t.slice.id)):
                            fail(s, "masked result store whose value is not compressed by the same mask")
                        val = val.value
                        self.res_masks.append((rn, self.row_masks[t.slice.id]))
                    else:
                        self.res_masks.append((rn, "all"))
                    out.append(ast.copy_location(ast.Assign(targets=[ast.Name(id="res_" + rn, ctx=ast.Store())],
                                                            value=self.ex(val)), s))
                    continue
                ps = self.pit_sub(t)
                if ps:
                    rows, col = ps
                    tgt = ast.Name(id="o_" + col, ctx=ast.Store())
                    if rows is not None:
                        tgt = ast.Subscript(value=ast.Name(id="o_" + col, ctx=ast.Load()), slice=self.ex(rows),
                                            ctx=ast.Store())
                    val = self.ex(s.value)
                    if rows is None and isinstance(val, ast.Constant):
                        # whole-column store of a literal: keep it an array over branches (np.full(len(pit), c))
                        val = ast.Call(func=ast.Attribute(value=ast.Name(id="np", ctx=ast.Load()), attr="full",
                                                          ctx=ast.Load()),
                                       args=[ast.Call(func=ast.Name(id="len", ctx=ast.Load()),
                                                      args=[ast.Name(id="branch_pit", ctx=ast.Load())], keywords=[]),
                                             val], keywords=[])
                    out.append(ast.copy_location(ast.Assign(targets=[tgt], value=val), s))
                    continue
                if is_name(t):
                    if t.id in self.aliases or t.id in ("net", "node_pit", "from_nodes_c") or t.id.startswith(("o_", "ca_")):
                        fail(s, "assignment to reserved name " + t.id)
                    out.append(ast.copy_location(ast.Assign(targets=[t], value=self.ex(s.value)), s))
                    continue
            fail(s, "statement " + dump(s))
        return out


def is_call_attr(n, base, attr):
    return isinstance(n, ast.Call) and isinstance(n.func, ast.Attribute) and is_name(n.func.value, base) and \
        n.func.attr == attr


def mask_refines(e, guard):
    """e is `guard` or a conjunction (&) that contains `guard` as a conjunct"""
    if is_name(e, guard):
        return True
    if isinstance(e, ast.BinOp) and isinstance(e.op, ast.BitAnd):
        return mask_refines(e.left, guard) or mask_refines(e.right, guard)
    return False


def first_reads(stmt, assigned=None):
    """names a statement (list) reads before assigning them itself, in straight-line order"""
    assigned = set() if assigned is None else assigned
    out = set()
    stmts = stmt if isinstance(stmt, list) else [stmt]
    for s in stmts:
        if isinstance(s, ast.If):
            out |= {n.id for n in ast.walk(s.test) if isinstance(n, ast.Name)} - assigned
            out |= first_reads(s.body, assigned)       # (no else-branches are accepted anywhere)
            continue
        if isinstance(s, ast.Assign) and len(s.targets) == 1:
            out |= {n.id for n in ast.walk(s.value) if isinstance(n, ast.Name)} - assigned
            t = s.targets[0]
            if isinstance(t, ast.Name):
                assigned.add(t.id)
            elif isinstance(t, ast.Tuple) and all(isinstance(e, ast.Name) for e in t.elts):
                assigned |= {e.id for e in t.elts}
            else:
                out |= {n.id for n in ast.walk(t) if isinstance(n, ast.Name)} - assigned
            continue
        out |= {n.id for n in ast.walk(s) if isinstance(n, ast.Name)} - assigned
    return out


def normalise_method(rel, cname, mname, outname, extra_consts=None):
    """-> (FunctionDef, params kinds, output names, rewriter)"""
    mod = kernels.get_mod(rel)
    cls, fd = find_class_method(mod.tree, cname, mname)
    consts = class_int_consts(cls)
    consts.update(extra_consts or {})
    rw = Rewriter(consts)
    body = copy.deepcopy(fd.body)
    rw.prepass(body)
    new = rw.stmts(body)
    pro = [ast.Assign(targets=[ast.Name(id="o_" + c, ctx=ast.Store())],
                      value=ast.Subscript(value=ast.Name(id="branch_pit", ctx=ast.Load()),
                                          slice=ast.Tuple(elts=[ast.Slice(), ast.Name(id=c, ctx=ast.Load())],
                                                          ctx=ast.Load()), ctx=ast.Load()))
           for c in rw.written]
    outs = ["o_" + c for c in rw.written] + rw.results
    if not outs:
        raise TranslateError("%s.%s writes nothing" % (cname, mname))
    ret = ast.Return(value=ast.Tuple(elts=[ast.Name(id=o, ctx=ast.Load()) for o in outs], ctx=ast.Load()))
    ca = ["ca_" + c for c in sorted(consts) if c in rw.ca_cols]
    params = ["net", "branch_pit", "node_pit", "from_nodes_c"] + ca
    kinds = {"net": "obj", "branch_pit": "bpit", "node_pit": "npit", "from_nodes_c": "from"}
    f = mkfun(outname, params, pro + new + [ret], fd)
    return f, kinds, outs, rw


def syn_props():
    """properties_toolbox.get_branch_cp with the corrected-from gather as a parameter"""
    mod = kernels.get_mod(PROPS)
    if "get_branch_cp" not in mod.funcs:
        raise TranslateError("get_branch_cp not found")
    fd = copy.deepcopy(mod.funcs["get_branch_cp"])
    if [a.arg for a in fd.args.args] != ["fluid", "node_pit", "branch_pit"]:
        raise TranslateError("get_branch_cp signature changed")
    s0 = fd.body[0]
    if not (isinstance(s0, ast.Assign) and is_name(s0.targets[0]) and is_call(s0.value, "get_from_nodes_corrected")
            and len(s0.value.args) == 1 and is_name(s0.value.args[0], "branch_pit") and not s0.value.keywords):
        raise TranslateError("get_branch_cp does not start with from_nodes = get_from_nodes_corrected(branch_pit)")
    s0.value = ast.copy_location(ast.Name(id="from_nodes_c", ctx=ast.Load()), s0.value)
    for n in ast.walk(ast.Module(body=fd.body[1:], type_ignores=[])):
        if is_call(n, "get_from_nodes_corrected") or is_call(n, "get_to_nodes_corrected"):
            raise TranslateError("get_branch_cp: unexpected second gather")
    fd.args.args.append(ast.arg(arg="from_nodes_c"))
    ast.fix_missing_locations(fd)
    return register("props.py", PROPS, [fd])


def k_branch_cp():
    syn_props()
    return kernels.translate(SYN + "props.py", "get_branch_cp",
                             {"fluid": "obj", "node_pit": "npit", "branch_pit": "bpit", "from_nodes_c": "from"},
                             name="branch_cp", outputs=["cp"], opaque_calls=OPAQUE)


# ------------------------------------------------------------------------------------------------ slice of calculate_derivatives_thermal
THERM_SLICE = ["fluid", "cp_b", "from_nodes", "to_nodes", "t_init_i", "t_init_i1", "t_init_nt", "cp_i1", "cp_nt", "cp_n"]
THERM_OUT = ["t_init_i", "t_init_i1", "t_init_nt", "cp_i1", "cp_nt", "cp_n", "cp_b"]


def thermal_slice():
    """(kernel, wiring_branch, wiring_node): expression block + where the kernel outputs are stored"""
    syn_props()
    mod = kernels.get_mod(DCALC)
    fd = mod.funcs.get("calculate_derivatives_thermal")
    if fd is None:
        raise TranslateError("calculate_derivatives_thermal not found")
    assigned = {}
    kernel_call = None
    wiring_b, wiring_n = [], []
    infeed_stmts = []
    for s in fd.body:
        for n in ast.walk(s):
            if isinstance(n, ast.Assign):
                for t in n.targets:
                    for x in (t.elts if isinstance(t, ast.Tuple) else [t]):
                        if is_name(x):
                            assigned.setdefault(x.id, []).append((s, n))
    body = []
    for name in THERM_SLICE:
        defs = assigned.get(name, [])
        if len(defs) != 1 or defs[0][0] is not defs[0][1]:
            raise TranslateError("calculate_derivatives_thermal: %s is not assigned exactly once at top level" % name)
        st = copy.deepcopy(defs[0][0])
        if not is_name(st.targets[0]):
            raise TranslateError("calculate_derivatives_thermal: %s assigned in a tuple" % name)
        body.append((st.lineno, name, st))
    body.sort()
    # source order must respect data flow: every name read is a parameter, a module name or defined earlier
    out = []
    for _, name, st in body:
        v = st.value
        if name == "from_nodes":
            if not (is_call(v, "get_from_nodes_corrected") and len(v.args) == 1 and is_name(v.args[0], "branch_pit")
                    and not v.keywords):
                raise TranslateError("from_nodes is not get_from_nodes_corrected(branch_pit)")
            continue
        if name == "to_nodes":
            if not (is_call(v, "get_to_nodes_corrected") and len(v.args) == 1 and is_name(v.args[0], "branch_pit")
                    and not v.keywords):
                raise TranslateError("to_nodes is not get_to_nodes_corrected(branch_pit)")
            continue
        if name == "cp_b":
            if not (is_call(v, "get_branch_cp") and len(v.args) == 3 and not v.keywords):
                raise TranslateError("cp_b is not get_branch_cp(fluid, node_pit, branch_pit)")
            v.args.append(ast.Name(id="from_nodes", ctx=ast.Load()))
        out.append(st)
    # the slice may read only these names besides its own
    allowed = set(THERM_SLICE) | {"branch_pit", "node_pit", "net", "get_fluid", "get_branch_cp", "TINIT_NODE",
                                  "TOUTINIT", "fluid"}
    defined = {"branch_pit", "node_pit", "net", "from_nodes", "to_nodes"}
    for st in out:
        for n in ast.walk(st.value):
            if is_name(n) and n.id not in allowed:
                raise TranslateError("thermal slice reads %s (line %d): not part of the modelled block" % (n.id, st.lineno))
            if is_name(n) and n.id in THERM_SLICE and n.id not in defined:
                raise TranslateError("thermal slice: %s read before its definition" % n.id)
        defined.add(st.targets[0].id)
    # nothing between the slice and the kernel call may rebind a slice name: checked by 'exactly once' above.
    # kernel call + write-back wiring
    kparams = None
    for tw, rel, fname in (("np", kernels.TB_NP, "derivatives_thermal_np"), ("nb", kernels.TB_NB, "derivatives_thermal_numba")):
        kfd = kernels.get_mod(rel).funcs.get(fname)
        if kfd is None:
            raise TranslateError(fname + " not found")
        p = [a.arg for a in kfd.args.args]
        if kparams is not None and p != kparams:
            raise TranslateError("numpy and numba thermal kernels have different parameter lists")
        kparams = p
    rets = None
    for s in fd.body:
        if isinstance(s, ast.Assign) and is_call(s.value, "derivatives_termal"):
            if kernel_call is not None:
                raise TranslateError("two kernel calls")
            kernel_call = s
            args = s.value.args
            if s.value.keywords or not all(is_name(a) for a in args) or [a.id for a in args] != kparams:
                raise TranslateError("derivatives_termal(...) is not called with like-named positional arguments: %s vs %s"
                                     % ([getattr(a, "id", "?") for a in args], kparams))
            if not isinstance(s.targets[0], ast.Tuple) or not all(is_name(e) for e in s.targets[0].elts):
                raise TranslateError("kernel results are not unpacked into names")
            rets = [e.id for e in s.targets[0].elts]
    if kernel_call is None:
        raise TranslateError("kernel call derivatives_termal(...) not found")
    for tw, rel, fname in (("np", kernels.TB_NP, "derivatives_thermal_np"), ("nb", kernels.TB_NB, "derivatives_thermal_numba")):
        kfd = kernels.get_mod(rel).funcs[fname]
        r = [x for x in ast.walk(kfd) if isinstance(x, ast.Return)][-1].value
        if not isinstance(r, ast.Tuple) or [getattr(e, "id", None) for e in r.elts] != rets:
            raise TranslateError("%s returns %s, the caller unpacks %s" % (fname, [getattr(e, "id", None) for e in r.elts], rets))
    after = fd.body[fd.body.index(kernel_call) + 1:]
    for s in after:
        ok = False
        if isinstance(s, ast.Assign) and len(s.targets) == 1 and isinstance(s.targets[0], ast.Subscript):
            t = s.targets[0]
            if is_name(t.value) and t.value.id in ("branch_pit", "node_pit") and isinstance(t.slice, ast.Tuple) and \
                    len(t.slice.elts) == 2 and is_name(t.slice.elts[1]):
                col = t.slice.elts[1].id
                if full_slice(t.slice.elts[0]) and is_name(s.value) and s.value.id in rets:
                    (wiring_b if t.value.id == "branch_pit" else wiring_n).append((col, s.value.id))
                    ok = True
                elif t.value.id == "node_pit" and col == "INFEED":
                    infeed_stmts.append(ast.unparse(s))
                    ok = True
        if not ok:
            raise TranslateError("statement after the kernel call is not a column write-back: " + ast.unparse(s)[:80])
    if infeed_stmts != ["node_pit[:, INFEED] = False", "node_pit[infeed, INFEED] = True"]:
        raise TranslateError("INFEED column is not set from the kernel's infeed set: %r" % infeed_stmts)
    ret = ast.Return(value=ast.Tuple(elts=[ast.Name(id=o, ctx=ast.Load()) for o in THERM_OUT], ctx=ast.Load()))
    f = mkfun("thermal_slice", ["net", "branch_pit", "node_pit", "from_nodes", "to_nodes"], out + [ret], fd)
    register("dcalc.py", DCALC, [f], {"get_branch_cp": ("func", SYN + "props.py", "get_branch_cp")})
    k = kernels.translate(SYN + "dcalc.py", "thermal_slice",
                          {"net": "obj", "branch_pit": "bpit", "node_pit": "npit", "from_nodes": "from", "to_nodes": "to"},
                          name="thermexpr", outputs=THERM_OUT, opaque_calls=OPAQUE)
    return k, wiring_b, wiring_n


def solve_temperature_facts():
    """direction switch threshold and the two update lines of pipeflow.solve_temperature"""
    mod = kernels.get_mod(PIPEFLOW)
    fd = mod.funcs.get("solve_temperature")
    if fd is None:
        raise TranslateError("solve_temperature not found")
    thr = None
    updates = []
    order = []
    for s in fd.body:
        src = ast.unparse(s)
        if isinstance(s, ast.Assign) and "FROM_NODE_T_SWITCHED" in src:
            t, v = s.targets[0], s.value
            if not (ast.unparse(t) == "branch_pit[:, FROM_NODE_T_SWITCHED]" and isinstance(v, ast.Compare) and
                    len(v.ops) == 1 and isinstance(v.ops[0], ast.Lt) and ast.unparse(v.left) == "branch_pit[:, MDOTINIT]"):
                raise TranslateError("direction switch is not `branch_pit[:, FROM_NODE_T_SWITCHED] = branch_pit[:, MDOTINIT] < c`")
            c = v.comparators[0]
            sign = 1
            if isinstance(c, ast.UnaryOp) and isinstance(c.op, ast.USub):
                c, sign = c.operand, -1
            if not isinstance(c, ast.Constant):
                raise TranslateError("direction switch threshold is not a literal")
            thr = sign * kernels.literal_fraction(c, mod.text)
            order.append("switch")
        elif isinstance(s, ast.Assign) and is_name(s.targets[0], "branch_lookups"):
            # the thermal adaptions of the components address their rows of the THERMALLY reduced pit
            if src != "branch_lookups = get_lookup(net, 'branch', 'from_to_active_heat_transfer')":
                raise TranslateError("solve_temperature: component row lookup is not the thermal one: " + src)
            order.append("lookup")
        elif isinstance(s, ast.For) and "adaption_before_derivatives_thermal" in src:
            if "branch_lookups" not in src:
                raise TranslateError("thermal before-hooks are not given branch_lookups")
            order.append("before")
        elif isinstance(s, ast.Expr) and is_call(s.value, "calculate_derivatives_thermal"):
            order.append("derivatives")
        elif isinstance(s, ast.For) and "adaption_after_derivatives_thermal" in src:
            if "branch_lookups" not in src:
                raise TranslateError("thermal after-hooks are not given branch_lookups")
            order.append("after")
        elif isinstance(s, ast.If) and "check_infeed_number" in ast.unparse(s.test):
            order.append("check_infeed")
        elif isinstance(s, ast.Assign) and is_call(s.value, "build_system_matrix"):
            if ast.unparse(s.value) != "build_system_matrix(net, branch_pit, node_pit, True)":
                raise TranslateError("build_system_matrix call changed: " + ast.unparse(s.value))
            order.append("build")
        elif isinstance(s, ast.Assign) and is_call(s.value, "spsolve"):
            if ast.unparse(s) != "x = spsolve(jacobian, epsilon)":
                raise TranslateError("solve line changed: " + ast.unparse(s))
            order.append("solve")
        elif isinstance(s, ast.AugAssign):
            updates.append(src)
            order.append("update")
    want_order = ["lookup", "switch", "before", "derivatives", "after", "check_infeed", "build", "solve", "update", "update"]
    if order != want_order:
        raise TranslateError("solve_temperature stage order %s, expected %s" % (order, want_order))
    want_updates = ["node_pit[:, TINIT] -= x[:len(node_pit)] * options['alpha']",
                    "branch_pit[:, TOUTINIT] -= x[len(node_pit):] * options['alpha']"]
    if updates != want_updates:
        raise TranslateError("solve_temperature update lines changed: %r" % updates)
    return thr


def cstr(s):
    return '"%s"%%string' % s


TEXT_FILES = ["component_models/pipe_component.py", "component_models/abstract_models/branch_models.py",
              "component_models/abstract_models/branch_wo_internals_models.py"]


def text_column_sources():
    """every assignment into the TEXT (ambient temperature) column of a branch pit in the component models:
    (file, target, right-hand side) as source text - which option source the fallback ambient is read from"""
    out = []
    for rel in TEXT_FILES:
        mod = kernels.get_mod(rel)
        for n in ast.walk(mod.tree):
            if isinstance(n, ast.Assign) and len(n.targets) == 1 and isinstance(n.targets[0], ast.Subscript):
                t = n.targets[0]
                if isinstance(t.slice, ast.Tuple) and len(t.slice.elts) == 2 and is_name(t.slice.elts[1], "TEXT"):
                    out.append((rel.split("/")[-1], ast.unparse(t), ast.unparse(n.value)))
            if isinstance(n, ast.Call) and is_name(n.func, "set_entry_check_repeat") and len(n.args) >= 3 and \
                    is_name(n.args[1], "TEXT"):
                out.append((rel.split("/")[-1], "set_entry_check_repeat(TEXT)", ast.unparse(n.args[2])))
    if not out:
        raise TranslateError("no assignment into the TEXT column found")
    return sorted(out)


def gen_thermexpr():
    k, wb, wn = thermal_slice()
    kcp = k_branch_cp()
    thr = solve_temperature_facts()
    sig = []
    for tw in ("np", "nb"):
        kt = kernels.k_therm(tw)
        sig.append(("therm_" + tw, [nm for nm, _ in kt.signature()]))
    sig.append(("thermexpr", [nm for nm, _ in k.signature()]))
    sig.append(("branch_cp", [nm for nm, _ in kcp.signature()]))
    extra = ["From Coq Require Import String List ZArith.", "Import ListNotations.",
             "(* which pit column / parameter each positional input of the generated kernels is (the Coq definitions are",
             "   positional: this table pins e.g. that the diameter in the heat-loss term is the column DO, not D) *)",
             "Definition therm_kernel_inputs : list (string * list string) := [%s]." %
             "; ".join("(%s, [%s])" % (cstr(n), "; ".join(cstr(x) for x in l)) for n, l in sig),
             "(* every assignment into the ambient-temperature column TEXT of a branch pit (file, target, right-hand side) *)",
             "Definition text_column_sources : list (string * string * string) := [%s]." %
             "; ".join("(%s, %s, %s)" % (cstr(a), cstr(b), cstr(c.replace('"', "'"))) for a, b, c in text_column_sources()),
             "(* write-back of the kernel outputs in calculate_derivatives_thermal: (pit column, kernel output) *)",
             "Definition therm_wiring_branch : list (string * string) := [%s]." %
             "; ".join("(%s, %s)" % (cstr(c), cstr(v)) for c, v in wb),
             "Definition therm_wiring_node : list (string * string) := [%s]." %
             "; ".join("(%s, %s)" % (cstr(c), cstr(v)) for c, v in wn),
             "(* checked by the translator: the kernel is called with like-named positional arguments, its returned",
             "   tuple is unpacked into like-named variables, INFEED is set from the returned infeed set *)",
             "Definition therm_call_ok : bool := true.",
             "(* pipeflow.solve_temperature: FROM_NODE_T_SWITCHED = (MDOTINIT < thr); stage order and the update lines",
             "   T -= x[:n]*alpha, TOUT -= x[n:]*alpha are checked by the translator *)",
             "Definition switch_threshold : R := %s." % kernels.coq_const(thr),
             "Definition dir_switched (bp_MDOTINIT : R) : bool := Rltb bp_MDOTINIT switch_threshold.", ""]
    return kernels.coq_file("KThermExpr", [k, kcp]) + "\n" + "\n".join(extra)


# ------------------------------------------------------------------------------------------------ hooks
HC_METHODS = [("adaption_before_derivatives_hydraulic", "hc_bh"), ("adaption_after_derivatives_hydraulic", "hc_ah"),
              ("adaption_before_derivatives_thermal", "hc_bt"), ("adaption_after_derivatives_thermal", "hc_at"),
              ("extract_results", "hc_res")]
CP_METHODS = [("adaption_after_derivatives_thermal", "cp_at"), ("extract_results", "cp_res")]


RES_MASKS = []


def hook_kernels():
    syn_props()
    del RES_MASKS[:]
    ks = []
    over = {"get_branch_cp": ("func", SYN + "props.py", "get_branch_cp")}
    for rel, cname, methods, syn in ((HC, "HeatConsumer", HC_METHODS, "hc.py"), (CP, "CirculationPump", CP_METHODS, "cp.py")):
        funcs, specs = [], []
        for mname, short in methods:
            f, kinds, outs, rw = normalise_method(rel, cname, mname, short)
            funcs.append(f)
            specs.append((short, kinds, outs))
            RES_MASKS.extend((short, c, m) for c, m in rw.res_masks)
        register(syn, rel, funcs, over)
        for short, kinds, outs in specs:
            ks.append(kernels.translate(SYN + syn, short, kinds, name=short,
                                        outputs=[o[2:] if o.startswith("o_") else o for o in outs],
                                        opaque_calls=OPAQUE))
    return ks


def hc_mode_table():
    """class constants and the ordered decision table of HeatConsumer.create_component_array"""
    mod = kernels.get_mod(HC)
    cls, fd = find_class_method(mod.tree, "HeatConsumer", "create_component_array")
    consts = class_int_consts(cls)
    flags = {}      # local mask name -> table column
    table = []
    cols = {"controlled_mdot_kg_per_s": "mf", "treturn_k": "tr", "deltat_k": "dt", "qext_w": "qe"}
    raw = {}
    col_of_arraycol = {}
    for s in fd.body:
        if isinstance(s, ast.Expr) and isinstance(s.value, ast.Constant):
            continue
        src = ast.unparse(s)
        if src in ("tbl = net[cls.table_name()]",
                   "consumer_array = np.zeros(shape=(len(tbl), cls.internal_cols), dtype=np.float64)",
                   "component_pits[cls.table_name()] = consumer_array"):
            continue
        if isinstance(s, ast.Assign) and len(s.targets) == 1:
            t, v = s.targets[0], s.value
            # x = tbl.<col>.values
            if is_name(t) and isinstance(v, ast.Attribute) and v.attr == "values" and isinstance(v.value, ast.Attribute) \
                    and is_name(v.value.value, "tbl") and v.value.attr in cols:
                raw[t.id] = cols[v.value.attr]
                continue
            # x = ~np.isnan(x)
            if is_name(t) and src == "%s = ~np.isnan(%s)" % (t.id, t.id) and t.id in raw:
                flags[t.id] = raw[t.id]
                continue
            # consumer_array[:, cls.X] = tbl.<col>.values
            if isinstance(t, ast.Subscript) and is_name(t.value, "consumer_array") and isinstance(v, ast.Attribute) \
                    and v.attr == "values" and isinstance(t.slice, ast.Tuple) and full_slice(t.slice.elts[0]):
                c = t.slice.elts[1]
                if isinstance(c, ast.Attribute) and is_name(c.value, "cls") and isinstance(v.value, ast.Attribute) \
                        and is_name(v.value.value, "tbl") and v.value.attr in cols:
                    col_of_arraycol[c.attr] = cols[v.value.attr]
                    continue
            # consumer_array[a & b, cls.MODE] = cls.M
            if isinstance(t, ast.Subscript) and is_name(t.value, "consumer_array") and isinstance(t.slice, ast.Tuple):
                m, c = t.slice.elts
                if isinstance(m, ast.BinOp) and isinstance(m.op, ast.BitAnd) and is_name(m.left) and is_name(m.right) \
                        and m.left.id in flags and m.right.id in flags and ast.unparse(c) == "cls.MODE" \
                        and isinstance(v, ast.Attribute) and is_name(v.value, "cls") and v.attr in consts:
                    table.append((flags[m.left.id], flags[m.right.id], v.attr, consts[v.attr]))
                    continue
        raise TranslateError("create_component_array: statement not understood: " + src[:90])
    if len(flags) != 4:
        raise TranslateError("create_component_array: expected four given-flags, got %s" % sorted(flags.values()))
    return consts, table, col_of_arraycol


def hex_pit_wiring():
    """HeatExchanger.create_pit_branch_entries: which table column goes to which pit column, with which factor"""
    mod = kernels.get_mod(HEX)
    cls, fd = find_class_method(mod.tree, "HeatExchanger", "create_pit_branch_entries")
    out = []
    for s in fd.body:
        if isinstance(s, ast.Expr) and isinstance(s.value, ast.Constant):
            continue
        src = ast.unparse(s)
        if src in ("heat_exchanger_pit = super().create_pit_branch_entries(net, branch_pit)", "tbl = cls.table_name()"):
            continue
        if isinstance(s, ast.Assign) and src.startswith("heat_exchanger_pit[:, "):
            col = s.targets[0].slice.elts[1].id
            rhs = ast.unparse(s.value)
            out.append((col, rhs))
            continue
        raise TranslateError("HeatExchanger.create_pit_branch_entries: " + src[:90])
    return out


def gen_hooks():
    ks = hook_kernels()
    consts, table, colmap = hc_mode_table()
    hexw = hex_pit_wiring()
    gname = {"mf": "GMf", "tr": "GTr", "dt": "GDt", "qe": "GQe"}
    extra = ["From Coq Require Import String List ZArith.", "Import ListNotations.",
             "(* positional inputs of the generated hook kernels *)",
             "Definition hook_kernel_inputs : list (string * list string) := [%s]." %
             "; ".join("(%s, [%s])" % (cstr(kk.name), "; ".join(cstr(nm) for nm, _ in kk.signature())) for kk in ks),
             "(* HeatConsumer class constants *)",
             "Definition hc_consts : list (string * Z) := [%s]." %
             "; ".join("(%s, %d%%Z)" % (cstr(k), v) for k, v in sorted(consts.items())),
             "Inductive given := GMf | GTr | GDt | GQe.",
             "(* create_component_array: consumer_array[a & b, MODE] = m, in source order (later lines win) *)",
             "Definition hc_mode_assignments : list (given * given * Z) := [%s]." %
             "; ".join("(%s, %s, %d%%Z)" % (gname[a], gname[b], v) for a, b, _, v in table),
             "Definition hc_mode_names : list (string * Z) := [%s]." %
             "; ".join("(%s, %d%%Z)" % (cstr(n), v) for _, _, n, v in table),
             "(* consumer_array column <- table column *)",
             "Definition hc_array_cols : list (string * given) := [%s]." %
             "; ".join("(%s, %s)" % (cstr(k), gname[v]) for k, v in sorted(colmap.items())),
             "(* result columns written by extract_results: (hook, column, rows written: all | lookup of calculated rows) *)",
             "Definition res_rows_written : list (string * string * string) := [%s]." %
             "; ".join("(%s, %s, %s)" % (cstr(h), cstr(c), cstr(m)) for h, c, m in RES_MASKS),
             "(* HeatExchanger.create_pit_branch_entries: pit column <- expression (source text) *)",
             "Definition hex_pit_wiring : list (string * string) := [%s]." %
             "; ".join("(%s, %s)" % (cstr(c), cstr(r)) for c, r in hexw), ""]
    return kernels.coq_file("KHooksHeat", ks) + "\n" + "\n".join(extra)


if __name__ == "__main__":
    which = sys.argv[1] if len(sys.argv) > 1 else "KThermExpr"
    print(gen_thermexpr() if which == "KThermExpr" else gen_hooks())
