"""T-tie for C12: effect scanner.  Regenerates coq/Gen/Effects.v from the pandapipes sources.

For every function reachable from `pipeflow` it records, in program order,
  * reads / full writes / partial writes / deletions of `net[...]` keys and `net.<attr>` attributes,
  * every write *through an alias* of a user object (names bound to `net[t].col.values`,
    `net[t][col].values`, slices of those, `np.asarray(..)`, `.to_numpy()`, function results that
    return such an object, parameters that receive one) by `x[...] = ..`, `x += ..`, `np.f(.., out=x)`,
    `df.method(inplace=True)`, `net[t][c] = ..`, `net[t].loc[..] = ..`, `.at[..] = ..`, mutating methods,
and emits
  * `prog_<mode>_<reuse>` : the abstract program (type C12.Model.prog) of one pipeflow call per
    configuration (mode in hydraulics/sequential/bidirectional/heat, reuse_internal_data in false/true;
    `transient` is specialised to False - out of scope of all properties),
  * `fn_effects` : per reachable function its direct read set / write set (documentation + frame check),
  * `alias_writes`, `hyd_flag_mentions`, `option_writes`, `inspected_option_keys`, `getter_mutations`.

Fail-closed: a use of `net` (or of an alias of a user object) that the scanner does not understand
raises ScanError -> broken obligation.
"""
import ast
import os
import sys

sys.path.insert(0, os.path.dirname(os.path.dirname(os.path.abspath(__file__))))
from vlib import SRC, cstr, clist  # noqa: E402


class ScanError(Exception):
    pass


FILES = ["pipeflow.py", "pf/pipeflow_setup.py", "pf/result_extraction.py", "pf/build_system_matrix.py",
         "pf/derivative_calculation.py", "pf/internals_toolbox.py", "pf/derivative_toolbox.py",
         "pf/derivative_toolbox_numba.py", "component_models/component_toolbox.py",
         "properties/fluids.py", "properties/properties_toolbox.py"]
COMP_DIRS = ["component_models/abstract_models", "component_models"]
GETTER_FILES = ["properties/fluids.py", "std_types/std_type_class.py"]

MODES = ["hydraulics", "sequential", "bidirectional", "heat"]
# (only_update_hydraulic_matrix, reuse_internal_data): init_options forces reuse off unless only_update (C14)
OPTCFG = [(False, False), (True, False), (True, True)]


def cfg_name(mode, upd, reuse):
    return "%s_%s" % (mode, "reuse" if reuse else "update" if upd else "plain")

# modules whose functions are pure w.r.t. their array arguments unless out= / copy=False / inplace=True
PURE_ROOTS = {"np", "pd", "logger", "logging", "copy", "math", "warnings", "numpy", "itemgetter", "operator",
              "csgraph", "numba"}
PURE_NAMES = {"len", "range", "list", "tuple", "dict", "set", "str", "int", "float", "bool", "zip", "enumerate",
              "sorted", "max", "min", "sum", "abs", "any", "all", "isinstance", "print", "next", "iter", "repr",
              "map", "filter", "type", "round", "hasattr", "UserWarning", "ValueError", "NotImplementedError",
              "PipeflowNotConverged", "KeyError", "coo_matrix", "csr_matrix", "spsolve", "dtype", "itemgetter",
              "Index", "deepcopy", "reversed", "super", "format", "AttributeError", "TypeError", "RuntimeError",
              "jit", "slice", "id", "frozenset", "divmod", "pow", "ord", "chr", "vars"}
# methods that return (possibly) the same memory / contained object
ALIAS_KEEP_METHODS = {"to_numpy", "view", "reshape", "ravel", "squeeze", "transpose", "get", "swapaxes",
                      "__getitem__", "items", "values", "keys", "flatten_view", "diagonal", "setdefault"}
ALIAS_KEEP_ATTRS = None   # every attribute access keeps the alias (column access, .values, .loc, .T, .index ...)
# methods that always modify the receiver
MUTATING_METHODS = {"update", "insert", "pop", "sort", "fill", "put", "itemset", "resize", "setflags", "append",
                    "extend", "clear", "remove", "setdefault", "__setitem__", "partition", "popitem",
                    "add", "discard", "setfield", "byteswap", "put_along_axis", "add_property", "reverse"}
# methods that modify the receiver when called with inplace=True (pandas) - detected by the keyword
# methods known to be pure on frames / arrays / dicts / fluids (result is a new object unless ALIAS_KEEP)
PURE_METHODS = {"copy", "astype", "tolist", "sum", "mean", "max", "min", "any", "all", "cumsum", "isin", "isnull",
                "notnull", "isna", "notna", "unique", "nonzero", "argsort", "round", "flatten", "repeat", "dot",
                "item", "count", "index", "startswith", "endswith", "lower", "upper", "format", "join", "split",
                "to_list", "to_dict", "head", "tail", "searchsorted", "take", "clip", "cumprod", "prod", "std",
                "where", "mask", "fillna", "replace", "sort_values", "sort_index", "drop", "rename", "reset_index",
                "set_index", "dropna", "drop_duplicates", "reindex", "merge", "join", "groupby", "apply", "map",
                "equals", "abs", "argmax", "argmin", "conj", "nunique", "value_counts", "is_unique", "ffill",
                "bfill", "interpolate", "eval", "query", "duplicated", "between", "diff", "shift", "all", "strip",
                "__len__", "__contains__", "encode", "tobytes", "compress", "choose", "trace", "var", "ptp",
                "lstrip", "rstrip", "capitalize", "title", "isdigit", "find", "partition_pure", "union",
                "difference", "intersection", "issubset", "most_common", "total_seconds", "setLevel",
                "debug", "info", "warning", "error", "critical", "warn", "todense", "toarray", "tocsr", "tocoo"}
NET_METHODS = {"get", "keys", "pop", "items", "values"}


def is_internal_key(k):
    return k.startswith("_") or k == "converged" or k.startswith("res_") or k == "user_pf_options.hyd_flag"


class Fn:
    def __init__(self, node, module, cls=None):
        self.node, self.module, self.cls = node, module, cls
        self.name = node.name
        self.qual = (cls + "." if cls else "") + node.name
        self.params = [a.arg for a in node.args.posonlyargs + node.args.args]
        self.kwonly = [a.arg for a in node.args.kwonlyargs]
        self.vararg = node.args.vararg.arg if node.args.vararg else None
        self.kwarg = node.args.kwarg.arg if node.args.kwarg else None
        d = node.args.defaults
        self.defaults = dict(zip(self.params[len(self.params) - len(d):], d))
        for a, dv in zip(node.args.kwonlyargs, node.args.kw_defaults):
            if dv is not None:
                self.defaults[a.arg] = dv
        self.is_method = cls is not None


class Sources:
    def __init__(self, src=None):
        self.src = src or SRC
        self.funcs = {}       # name -> Fn  (module level)
        self.classes = {}     # class -> {"bases": [...], "methods": {name: Fn}, "module": m}
        self.modules = {}
        files = list(FILES)
        for d in COMP_DIRS:
            for f in sorted(os.listdir(os.path.join(self.src, d))):
                if f.endswith(".py") and f != "__init__.py" and d + "/" + f not in files:
                    files.append(d + "/" + f)
        for rel in files:
            p = os.path.join(self.src, rel)
            if not os.path.exists(p):
                raise ScanError("source file missing: " + rel)
            tree = ast.parse(open(p).read(), rel)
            self.modules[rel] = tree
            for n in tree.body:
                self._top(n, rel)

    def _top(self, n, rel):
        if isinstance(n, ast.FunctionDef):
            if n.name in self.funcs and not rel.startswith("properties") \
                    and not self.funcs[n.name].module.startswith("properties"):
                # the numba / numpy twins have distinct names; a clash would make resolution ambiguous
                raise ScanError("duplicate module-level function %s in %s and %s"
                                % (n.name, rel, self.funcs[n.name].module))
            if n.name not in self.funcs or rel.startswith("pf") or rel == "pipeflow.py":
                self.funcs[n.name] = Fn(n, rel)
        elif isinstance(n, ast.ClassDef):
            bases = []
            for b in n.bases:
                if isinstance(b, ast.Name):
                    bases.append(b.id)
                elif isinstance(b, ast.Attribute):
                    bases.append(b.attr)
            meths = {}
            for m in n.body:
                if isinstance(m, ast.FunctionDef):
                    meths[m.name] = Fn(m, rel, n.name)
            self.classes[n.name] = {"bases": bases, "methods": meths, "module": rel}
        elif isinstance(n, (ast.Try, ast.If)):
            for b in n.body + getattr(n, "orelse", []):
                self._top(b, rel)
            for h in getattr(n, "handlers", []):
                for b in h.body:
                    self._top(b, rel)

    def mro(self, c):
        """linearisation good enough for single/multiple inheritance as used in component_models (C3)"""
        if c not in self.classes:
            return [c]
        seqs = [self.mro(b) for b in self.classes[c]["bases"] if b in self.classes] + \
               [[b for b in self.classes[c]["bases"] if b in self.classes]]
        res = [c]
        seqs = [list(s) for s in seqs if s]
        while seqs:
            for s in seqs:
                h = s[0]
                if not any(h in t[1:] for t in seqs):
                    break
            else:
                raise ScanError("inconsistent class hierarchy at " + c)
            res.append(h)
            seqs = [[x for x in t if x != h] for t in seqs]
            seqs = [t for t in seqs if t]
        return res

    def resolve_method(self, recv, name, after=None):
        m = self.mro(recv)
        if after is not None:
            if after not in m:
                raise ScanError("super(): %s not in mro of %s" % (after, recv))
            m = m[m.index(after) + 1:]
        for c in m:
            if c in self.classes and name in self.classes[c]["methods"]:
                return self.classes[c]["methods"][name]
        return None

    def component_classes(self):
        """concrete component classes = classes of component_models/*.py (not abstract_models) deriving from Component"""
        out = []
        for c, d in self.classes.items():
            if d["module"].startswith("component_models/") and "abstract_models" not in d["module"] \
                    and d["module"] != "component_models/component_toolbox.py" and "Component" in self.mro(c):
                out.append(c)
        return sorted(out)


# --------------------------------------------------------------------------------------------- events
# ("R", key, fn) ("W", key, fn) full write   ("M", key, fn) partial write (read-modify-write)
# ("D", key, fn) delete   ("C", dst, src, fn) uninspected copy   ("alt", [trace, ...])   ("loop", trace)
# ("abort", fn)  ("rec", fid)   ("AW", key, how, fn, lineno) write through an alias of a user object


class Env:
    def __init__(self, fn, recv, consts=None, aliases=None, netname="net"):
        self.fn, self.recv = fn, recv
        self.consts = dict(consts or {})       # name -> python constant (str / bool / None / int)
        self.aliases = dict(aliases or {})     # name -> frozenset of user keys it may alias
        self.net = netname                     # the parameter holding the net (None if the function has none)
        self.kwkeys = None                     # keyword names passed for **kwargs at the call site
        self.returned = set()                  # user keys the return value may alias


UNKNOWN = object()


class Scanner:
    def __init__(self, src=None):
        self.S = Sources(src)
        self.reach = {}            # qual -> {"reads": set, "writes": set}
        self.alias_writes = []     # (fn, key, how, lineno)
        self.hyd_mentions = []
        self.option_writes = []    # (fn, option key or "?")
        self.normalisations = []   # (fn, key): creation of the empty default of an absent user key
        self.stack = []
        self.ret_cache = {}
        self.config = None
        self.comp_classes = self.S.component_classes()
        if len(self.comp_classes) < 10:
            raise ScanError("component classes not recognised: %r" % self.comp_classes)

    # ----------------------------------------------------------------------------------- helpers
    def note(self, env, kind, key):
        d = self.reach.setdefault(env.fn.qual, {"reads": set(), "writes": set(), "module": env.fn.module})
        d["reads" if kind == "R" else "writes"].add(key)

    def ev(self, env, kind, key):
        if kind in ("R", "M"):
            self.note(env, "R", key)
        if kind in ("W", "M", "D"):
            self.note(env, "W", key)
        return (kind, key, env.fn.qual)

    def aw(self, env, keys, how, node):
        out = []
        for k in sorted(keys):
            rec = (env.fn.qual, k, how, getattr(node, "lineno", 0))
            if rec not in self.alias_writes:
                self.alias_writes.append(rec)
            self.note(env, "W", k)
            out.append(("AW", k, how, env.fn.qual, getattr(node, "lineno", 0)))
        return out

    def const(self, e, env):
        """static value of an expression or UNKNOWN"""
        if isinstance(e, ast.Constant):
            return e.value
        if isinstance(e, ast.Name):
            return env.consts.get(e.id, UNKNOWN)
        if isinstance(e, ast.BinOp) and isinstance(e.op, ast.Add):
            a, b = self.const(e.left, env), self.const(e.right, env)
            if isinstance(a, str) and isinstance(b, str):
                return a + b
            return UNKNOWN
        if isinstance(e, ast.BinOp) and isinstance(e.op, ast.Mod):
            a, b = self.const(e.left, env), self.const(e.right, env)
            if isinstance(a, str) and isinstance(b, str) and a.count("%s") == 1:
                return a % b
            return UNKNOWN
        if isinstance(e, ast.BinOp) and isinstance(e.op, (ast.BitOr, ast.BitAnd)):
            a, b = self.const(e.left, env), self.const(e.right, env)
            if isinstance(a, bool) and isinstance(b, bool):
                return (a | b) if isinstance(e.op, ast.BitOr) else (a & b)
            return UNKNOWN
        if isinstance(e, ast.UnaryOp) and isinstance(e.op, ast.Not):
            a = self.const(e.operand, env)
            return (not a) if isinstance(a, bool) else UNKNOWN
        if isinstance(e, ast.BoolOp):
            vals = [self.const(v, env) for v in e.values]
            if isinstance(e.op, ast.Or):
                for v in vals:
                    if v is UNKNOWN:
                        return UNKNOWN
                    if v:
                        return v
                return vals[-1]
            for v in vals:
                if v is UNKNOWN:
                    return UNKNOWN
                if not v:
                    return v
            return vals[-1]
        if isinstance(e, ast.Compare) and len(e.ops) == 1:
            a, b = self.const(e.left, env), e.comparators[0]
            op = e.ops[0]
            if a is UNKNOWN:
                return UNKNOWN
            if isinstance(op, (ast.In, ast.NotIn)) and isinstance(b, (ast.List, ast.Tuple, ast.Set)):
                vs = [self.const(x, env) for x in b.elts]
                if any(v is UNKNOWN for v in vs):
                    return UNKNOWN
                return (a in vs) if isinstance(op, ast.In) else (a not in vs)
            bv = self.const(b, env)
            if bv is UNKNOWN:
                return UNKNOWN
            if isinstance(op, ast.Eq):
                return a == bv
            if isinstance(op, ast.NotEq):
                return a != bv
            if isinstance(op, ast.Is):
                return a is bv
            if isinstance(op, ast.IsNot):
                return a is not bv
            return UNKNOWN
        if isinstance(e, ast.Call):
            f = e.func
            # the options fixed by the configuration
            if isinstance(f, ast.Name) and f.id == "get_net_option" and len(e.args) == 2:
                k = self.const(e.args[1], env)
                if isinstance(k, str) and k in self.config:
                    return self.config[k]
            if isinstance(f, ast.Attribute) and not e.args and not e.keywords:
                v = self.const_method(e, env)
                if v is not UNKNOWN:
                    return v
        return UNKNOWN

    def const_method(self, call, env):
        """value of a zero-argument classmethod whose body is `return <literal | class name | tuple of literals>`"""
        f = call.func
        try:
            tg = self.resolve_call(call, env)
        except ScanError:
            return UNKNOWN
        if len(tg) != 1:
            return UNKNOWN
        fn = tg[0][0]
        body = [b for b in fn.node.body if not (isinstance(b, ast.Expr) and isinstance(b.value, ast.Constant))]
        if len(body) != 1 or not isinstance(body[0], ast.Return) or body[0].value is None:
            return UNKNOWN
        r = body[0].value
        if isinstance(r, ast.Constant):
            return r.value
        if isinstance(r, ast.Name) and r.id in self.S.classes:
            return ("<class>", r.id)
        if isinstance(r, ast.Tuple) and all(isinstance(x, ast.Constant) for x in r.elts):
            return ("<tuple>",) + tuple(x.value for x in r.elts)
        return UNKNOWN

    def is_net(self, e, env):
        return isinstance(e, ast.Name) and env.net is not None and e.id == env.net

    def net_key(self, sl, env):
        k = self.const(sl, env)
        if isinstance(k, str):
            return k
        raise ScanError("%s line %d: dynamic net key %s" % (env.fn.qual, sl.lineno, ast.dump(sl)[:80]))

    # ----------------------------------------------------------------------------------- expressions
    def net_access(self, e, env):
        """if e is net[...] / net.attr (not a method) return its key else None"""
        if isinstance(e, ast.Subscript) and self.is_net(e.value, env):
            return self.net_key(e.slice, env)
        if isinstance(e, ast.Attribute) and self.is_net(e.value, env) and e.attr not in NET_METHODS:
            return e.attr
        return None

    def alias_of(self, e, env):
        """set of user keys whose object (or a view of it) the value of e may be"""
        k = self.net_access(e, env)
        if k is not None:
            return frozenset() if is_internal_key(k) else frozenset([k])
        if isinstance(e, ast.Name):
            return env.aliases.get(e.id, frozenset())
        if isinstance(e, ast.Attribute):
            return self.alias_of(e.value, env)
        if isinstance(e, ast.Subscript):
            base = self.alias_of(e.value, env)
            if base == frozenset(["user_pf_options"]):
                ck = self.const(e.slice, env)
                if ck == "hyd_flag":
                    return frozenset()
            return base
        if isinstance(e, ast.Starred):
            return self.alias_of(e.value, env)
        if isinstance(e, (ast.Tuple, ast.List)):
            out = frozenset()
            for x in e.elts:
                out |= self.alias_of(x, env)
            return out
        if isinstance(e, ast.IfExp):
            return self.alias_of(e.body, env) | self.alias_of(e.orelse, env)
        if isinstance(e, ast.NamedExpr):
            return self.alias_of(e.value, env)
        if isinstance(e, ast.Call):
            f = e.func
            if isinstance(f, ast.Attribute):
                root = f.value
                if isinstance(root, ast.Name) and root.id in ("np", "numpy"):
                    if f.attr in ("asarray", "asanyarray", "atleast_1d", "atleast_2d", "ravel", "reshape",
                                  "squeeze", "transpose", "ascontiguousarray", "broadcast_to", "expand_dims",
                                  "swapaxes", "moveaxis", "split", "array_split", "hsplit", "vsplit"):
                        return self.alias_of(e.args[0], env) if e.args else frozenset()
                    if f.attr in ("array", "nan_to_num", "astype") and any(
                            kw.arg == "copy" and self.const(kw.value, env) is False for kw in e.keywords):
                        return self.alias_of(e.args[0], env) if e.args else frozenset()
                    return frozenset()
                if self.is_net(root, env) and f.attr == "get" and e.args:
                    k = self.const(e.args[0], env)
                    if isinstance(k, str) and not is_internal_key(k):
                        return frozenset([k])
                    return frozenset()
                if f.attr in ALIAS_KEEP_METHODS:
                    return self.alias_of(root, env)
                tgt = self.resolve_call(e, env)
                if tgt:
                    out = frozenset()
                    for fn, recv, after in tgt:
                        out |= self.returns_alias(fn, recv, e, env)
                    return out
                return frozenset()
            if isinstance(f, ast.Name):
                tgt = self.resolve_call(e, env)
                if tgt:
                    out = frozenset()
                    for fn, recv, after in tgt:
                        out |= self.returns_alias(fn, recv, e, env)
                    return out
            return frozenset()
        return frozenset()

    def resolve_call(self, call, env):
        """-> list of (Fn, receiver class, None) or [] if external"""
        f = call.func
        if isinstance(f, ast.Name):
            cv = env.consts.get(f.id)
            if isinstance(cv, tuple) and cv[0] == "<func>":
                return [(self.S.funcs[cv[1]], None, None)]
            if f.id in env.fn.params and f.id not in self.S.funcs:
                return []
            if f.id in self.S.funcs:
                return [(self.S.funcs[f.id], None, None)]
            return []
        if isinstance(f, ast.Attribute):
            v = f.value
            # super().m(...) / super(X, cls).m(...)
            if isinstance(v, ast.Call) and isinstance(v.func, ast.Name) and v.func.id == "super":
                after = env.fn.cls
                if v.args:
                    if not isinstance(v.args[0], ast.Name):
                        raise ScanError("%s: unsupported super() form" % env.fn.qual)
                    after = v.args[0].id
                recv = env.recv or env.fn.cls
                m = self.S.resolve_method(recv, f.attr, after=after)
                return [(m, recv, None)] if m else []
            if isinstance(v, ast.Name) and v.id in ("cls", "self") and env.fn.is_method:
                recv = env.recv or env.fn.cls
                m = self.S.resolve_method(recv, f.attr)
                return [(m, recv, None)] if m else []
            if isinstance(v, ast.Name) and v.id in self.S.classes:
                m = self.S.resolve_method(v.id, f.attr)
                return [(m, v.id, None)] if m else []
            if isinstance(v, ast.Name) and env.consts.get(v.id, None) == "<component>":
                raise ScanError("%s: call on a component outside the recognised `for comp in net['component_list']`"
                                % env.fn.qual)
            if isinstance(v, ast.Name) and isinstance(env.consts.get(v.id, None), tuple) \
                    and env.consts[v.id][0] == "<class>":
                m = self.S.resolve_method(env.consts[v.id][1], f.attr)
                return [(m, env.consts[v.id][1], None)] if m else []
        return []

    def returns_alias(self, fn, recv, call, env):
        key = ("ret", fn.qual, recv)
        if key in self.stack:
            return frozenset()
        sub = self.bind(fn, recv, call, env)
        ck = (fn.qual, recv, tuple(sorted(sub.aliases.items())), repr(sorted(sub.consts.items(), key=repr)),
              sub.net, tuple(sub.kwkeys or ()), repr(sorted(self.config.items())))
        if ck in self.ret_cache:
            return self.ret_cache[ck]
        self.stack.append(key)
        try:
            saved = (list(self.alias_writes), {k: {"reads": set(v["reads"]), "writes": set(v["writes"]),
                                                    "module": v["module"]} for k, v in self.reach.items()})
            self.block(fn.node.body, sub)
            self.alias_writes, self.reach = saved
        finally:
            self.stack.pop()
        self.ret_cache[ck] = frozenset(sub.returned)
        return self.ret_cache[ck]

    def expr(self, e, env):
        """events of evaluating e (reads of net keys, calls), in evaluation order"""
        if e is None:
            return []
        k = self.net_access(e, env)
        if k is not None:
            return [self.ev(env, "R", k)]
        if self.is_net(e, env):
            raise ScanError("%s line %d: the net object escapes (bare use)" % (env.fn.qual, e.lineno))
        if isinstance(e, ast.Subscript):
            out = self.expr(e.value, env) + self.expr(e.slice, env)
            # net.user_pf_options["hyd_flag"]
            if self.alias_of(e.value, env) == frozenset(["user_pf_options"]) or (
                    self.net_access(e.value, env) == "user_pf_options"):
                ck = self.const(e.slice, env)
                if ck == "hyd_flag":
                    self.hyd_mentions.append((env.fn.qual, "read"))
                    out = [x for x in out if not (x[0] == "R" and x[1] == "user_pf_options")]
                    out.append(self.ev(env, "R", "user_pf_options.hyd_flag"))
                elif not isinstance(ck, str):
                    out.append(self.ev(env, "R", "user_pf_options.hyd_flag"))
            return out
        if isinstance(e, ast.BoolOp):
            out = self.expr(e.values[0], env)
            known = self.const(e.values[0], env)
            for i, v in enumerate(e.values[1:], 1):
                if known is not UNKNOWN:
                    if (isinstance(e.op, ast.Or) and known) or (isinstance(e.op, ast.And) and not known):
                        return out          # short circuit: the rest is not evaluated
                    out += self.expr(v, env)
                    known = self.const(v, env)
                else:
                    rest = []
                    for w in e.values[i:]:
                        rest += self.expr(w, env)
                    if rest:
                        out.append(("alt", [[], rest]))
                    return out
            return out
        if isinstance(e, ast.IfExp):
            out = self.expr(e.test, env)
            t = self.const(e.test, env)
            if t is UNKNOWN:
                a, b = self.expr(e.body, env), self.expr(e.orelse, env)
                if a or b:
                    out.append(("alt", [a, b]))
            else:
                out += self.expr(e.body if t else e.orelse, env)
            return out
        if isinstance(e, ast.Compare):
            out = self.expr(e.left, env)
            for op, c in zip(e.ops, e.comparators):
                if isinstance(op, (ast.In, ast.NotIn)):
                    if self.is_net(c, env):
                        k = self.const(e.left, env)
                        if not isinstance(k, str):
                            raise ScanError("%s line %d: dynamic `in net` test" % (env.fn.qual, e.lineno))
                        out.append(self.ev(env, "R", k))
                        continue
                    if isinstance(c, ast.Call) and isinstance(c.func, ast.Attribute) and \
                            self.is_net(c.func.value, env) and c.func.attr == "keys":
                        k = self.const(e.left, env)
                        if not isinstance(k, str):
                            raise ScanError("%s line %d: dynamic `in net.keys()` test" % (env.fn.qual, e.lineno))
                        out.append(self.ev(env, "R", k))
                        continue
                out += self.expr(c, env)
            return out
        if isinstance(e, ast.Call):
            return self.call(e, env)
        if isinstance(e, (ast.ListComp, ast.SetComp, ast.GeneratorExp, ast.DictComp)):
            sub_env = env
            out = []
            body = []
            for g in e.generators:
                out += self.expr(g.iter, env)
                self.bind_target(g.target, g.iter, env, loop=True)
                for c in g.ifs:
                    body += self.expr(c, sub_env)
            if isinstance(e, ast.DictComp):
                body += self.expr(e.key, sub_env) + self.expr(e.value, sub_env)
            else:
                body += self.expr(e.elt, sub_env)
            if body:
                out.append(("loop", body))
            return out
        if isinstance(e, ast.Lambda):
            b = self.expr(e.body, env)
            if b:
                raise ScanError("%s line %d: lambda touching the net" % (env.fn.qual, e.lineno))
            return []
        out = []
        for c in ast.iter_child_nodes(e):
            if isinstance(c, ast.expr):
                out += self.expr(c, env)
            elif isinstance(c, (ast.keyword,)):
                out += self.expr(c.value, env)
            elif isinstance(c, ast.comprehension):
                raise ScanError("unexpected comprehension")
        return out

    # ----------------------------------------------------------------------------------- calls
    def bind(self, fn, recv, call, env):
        """environment of the callee for this call site"""
        sub = Env(fn, recv, netname=None)
        params = list(fn.params)
        if fn.is_method and params and params[0] in ("cls", "self"):
            params = params[1:]
        args = list(call.args)
        if any(isinstance(a, ast.Starred) for a in args):
            # *args forwarding: no net / alias may travel this way
            for a in args:
                if isinstance(a, ast.Starred) and (self.alias_of(a.value, env) or self.mentions_net(a.value, env)):
                    raise ScanError("%s line %d: net/alias forwarded through *args" % (env.fn.qual, call.lineno))
            args = [a for a in args if not isinstance(a, ast.Starred)]
        bound = {}
        for p, a in zip(params, args):
            bound[p] = a
        extra = args[len(params):]
        if extra and not fn.vararg:
            raise ScanError("%s line %d: too many arguments for %s" % (env.fn.qual, call.lineno, fn.qual))
        kwkeys = []
        for kw in call.keywords:
            if kw.arg is None:
                if self.alias_of(kw.value, env) or self.mentions_net(kw.value, env):
                    raise ScanError("%s line %d: net/alias forwarded through **kwargs" % (env.fn.qual, call.lineno))
                # **kwargs forwarding (pipeflow -> init_options): option values, never the net
                kwkeys.append("**")
                continue
            if kw.arg in params or kw.arg in fn.kwonly:
                bound[kw.arg] = kw.value
            elif fn.kwarg:
                kwkeys.append(kw.arg)
            else:
                raise ScanError("%s line %d: unknown keyword %s for %s" % (env.fn.qual, call.lineno, kw.arg, fn.qual))
        sub.kwkeys = kwkeys
        for p in params + fn.kwonly:
            a = bound.get(p)
            if a is None:
                d = fn.defaults.get(p)
                if d is not None:
                    c = self.const(d, Env(fn, recv, netname=None))
                    if c is not UNKNOWN:
                        sub.consts[p] = c
                continue
            if self.is_net(a, env):
                if sub.net is not None and sub.net != p:
                    raise ScanError("net passed twice to " + fn.qual)
                sub.net = p
                continue
            c = self.const(a, env)
            if c is not UNKNOWN:
                sub.consts[p] = c
            elif isinstance(a, ast.Name) and a.id in self.S.funcs and a.id not in env.fn.params:
                sub.consts[p] = ("<func>", a.id)
            al = self.alias_of(a, env)
            if al:
                sub.aliases[p] = al
        for a in extra:
            if self.is_net(a, env) or self.alias_of(a, env):
                raise ScanError("%s line %d: net/alias passed through *args of %s" % (env.fn.qual, call.lineno, fn.qual))
        return sub

    def mentions_net(self, e, env):
        return any(self.is_net(n, env) for n in ast.walk(e))

    def call(self, e, env):
        f = e.func
        out = []
        # --- methods of the net object itself
        if isinstance(f, ast.Attribute) and self.is_net(f.value, env):
            for a in e.args[1:]:
                out += self.expr(a, env)
            if f.attr == "get":
                k = self.const(e.args[0], env)
                if not isinstance(k, str):
                    raise ScanError("%s: dynamic net.get" % env.fn.qual)
                out.append(self.ev(env, "R", k))
                if k == "user_pf_options":
                    # the whole dict is taken (and deep-copied into the option layers): hyd_flag travels along
                    # uninspected; recorded as a copy, see inspected_option_keys
                    out.append(("C", "_options.hyd_flag", "user_pf_options.hyd_flag", env.fn.qual))
                return out
            if f.attr == "pop":
                k = self.const(e.args[0], env)
                if not isinstance(k, str):
                    raise ScanError("%s: dynamic net.pop" % env.fn.qual)
                out.append(self.ev(env, "D", k))
                return out
            if f.attr == "keys" and not e.args:
                raise ScanError("%s line %d: net.keys() outside a membership test" % (env.fn.qual, e.lineno))
            raise ScanError("%s line %d: unsupported net method %s" % (env.fn.qual, e.lineno, f.attr))
        # --- evaluate receiver and arguments
        if isinstance(f, ast.Attribute):
            if not (isinstance(f.value, ast.Call) and isinstance(f.value.func, ast.Name)
                    and f.value.func.id == "super"):
                out += self.expr(f.value, env)
        net_args = []
        for i, a in enumerate(e.args):
            if self.is_net(a, env):
                net_args.append(i)
            elif isinstance(a, ast.Starred):
                out += self.expr(a.value, env)
            else:
                out += self.expr(a, env)
        for kw in e.keywords:
            if self.is_net(kw.value, env):
                net_args.append(kw.arg)
            else:
                out += self.expr(kw.value, env)
        targets = self.resolve_call(e, env)
        if targets:
            alts = []
            for fn, recv, _ in targets:
                alts.append(self.inline(fn, recv, e, env))
            if len(alts) == 1:
                if env.fn.qual == "pipeflow" and env.fn.module == "pipeflow.py":
                    out.append(("phase", targets[0][0].name, alts[0]))
                else:
                    out += alts[0]
            else:
                out.append(("alt", alts))
            return out
        # --- external call
        if net_args:
            name = ast.unparse(f)
            if name in ("get_fluid",):
                out.append(self.ev(env, "R", "fluid"))
                return out
            raise ScanError("%s line %d: net passed to unknown function %s" % (env.fn.qual, e.lineno, name))
        arg_alias = [(a, self.alias_of(a, env)) for a in e.args] + \
                    [(kw.value, self.alias_of(kw.value, env)) for kw in e.keywords]
        if isinstance(f, ast.Attribute):
            recv_alias = self.alias_of(f.value, env)
            root = f.value
            while isinstance(root, (ast.Attribute, ast.Subscript, ast.Call)):
                root = root.func if isinstance(root, ast.Call) else root.value
            rootname = root.id if isinstance(root, ast.Name) else None
            inplace = any(kw.arg == "inplace" and self.const(kw.value, env) is not False for kw in e.keywords)
            outkw = [kw for kw in e.keywords if kw.arg == "out"]
            nocopy = any(kw.arg == "copy" and self.const(kw.value, env) is False for kw in e.keywords)
            if recv_alias == frozenset(["user_pf_options"]) and f.attr == "update" and len(e.args) == 1 and \
                    isinstance(e.args[0], ast.Name) and e.args[0].id == env.fn.kwarg and env.kwkeys is not None:
                for kk in env.kwkeys:
                    if kk == "hyd_flag":
                        self.hyd_mentions.append((env.fn.qual, "write"))
                        out = [x for x in out if not (x[0] == "R" and x[1] == "user_pf_options")]
                        out.append(self.ev(env, "W", "user_pf_options.hyd_flag"))
                    else:
                        out += self.aw(env, recv_alias, "user_pf_options.update(%s=..)" % kk, e)
                return out
            if recv_alias:
                if f.attr in MUTATING_METHODS:
                    out += self.aw(env, recv_alias, "method " + f.attr, e)
                elif inplace:
                    out += self.aw(env, recv_alias, "inplace " + f.attr, e)
                elif f.attr in PURE_METHODS or f.attr in ALIAS_KEEP_METHODS or f.attr.startswith("get_") \
                        or f.attr.startswith("is_"):
                    pass
                else:
                    raise ScanError("%s line %d: unknown method .%s() on an alias of user data %s"
                                    % (env.fn.qual, e.lineno, f.attr, sorted(recv_alias)))
            for kw in outkw:
                al = self.alias_of(kw.value, env)
                if al:
                    out += self.aw(env, al, "out= of " + f.attr, e)
            if rootname in PURE_ROOTS and not recv_alias:
                if nocopy and f.attr in ("nan_to_num",):
                    for a, al in arg_alias[:1]:
                        if al:
                            out += self.aw(env, al, "np.nan_to_num(copy=False)", e)
                if f.attr in ("put", "place", "putmask", "copyto", "fill_diagonal", "put_along_axis", "at"):
                    a0 = e.args[0] if e.args else None
                    if f.attr == "at" and len(e.args) > 1:      # np.add.at(x, idx, v)
                        a0 = e.args[0]
                    if a0 is not None and self.alias_of(a0, env):
                        out += self.aw(env, self.alias_of(a0, env), "np." + f.attr, e)
                return out
            if recv_alias:
                return out
            if any(al for _, al in arg_alias):
                # alias handed to a method of some other object (e.g. interpolator(fluid_array)); only objects
                # rooted at known-pure modules or call results are accepted
                if f.attr.startswith("get_") or f.attr in PURE_METHODS or f.attr in ("isin", "in1d"):
                    return out
                raise ScanError("%s line %d: alias of user data %s passed to unknown method %s"
                                % (env.fn.qual, e.lineno, [sorted(al) for _, al in arg_alias if al], ast.unparse(f)))
            return out
        if isinstance(f, ast.Name):
            if any(al for _, al in arg_alias):
                if f.id in PURE_NAMES:
                    if f.id == "deepcopy":
                        return out
                    return out
                raise ScanError("%s line %d: alias of user data passed to unknown function %s"
                                % (env.fn.qual, e.lineno, f.id))
            return out
        if isinstance(f, ast.Call) or isinstance(f, ast.Subscript):
            # itemgetter(..)(d), fcts[i](x): pure by PURE_ROOTS convention; aliases passed are only read
            out += self.expr(f, env)
            return out
        raise ScanError("%s line %d: unsupported call form" % (env.fn.qual, e.lineno))

    def inline(self, fn, recv, call, env):
        key = (fn.qual, recv)
        if key in self.stack:
            return [("rec", key)]
        sub = self.bind(fn, recv, call, env)
        # special: set_user_pf_options(net, k=v ..) -> which option keys are written is a call-site fact
        self.stack.append(key)
        try:
            tr = self.block(fn.node.body, sub)
        finally:
            self.stack.pop()
        if contains_rec(tr, key):
            body0 = replace_rec(tr, key, [])
            tr = replace_rec(tr, key, [("loop", body0)])
        if fn.name == "newton_raphson" and fn.module == "pipeflow.py":
            tr = mark_region(tr, "@newton_raphson", env_fn=fn.qual)
        # alias parameters written by the callee are reported at the callee (with the caller's keys) already
        return tr

    # ----------------------------------------------------------------------------------- statements
    def bind_target(self, t, value, env, loop=False):
        """record constants / aliases for the names assigned"""
        if isinstance(t, ast.Name):
            env.consts.pop(t.id, None)
            env.aliases.pop(t.id, None)
            if value is None:
                return
            if loop:
                # for comp in net['component_list']
                if self.net_access(value, env) == "component_list":
                    raise ScanError("%s: component list iterated in an unsupported form" % env.fn.qual)
                al = self.alias_of(value, env)
                if al:
                    env.aliases[t.id] = al
                return
            if self.is_net(value, env):
                raise ScanError("%s line %d: net bound to another name" % (env.fn.qual, t.lineno))
            c = self.const(value, env)
            if c is not UNKNOWN:
                env.consts[t.id] = c
            al = self.alias_of(value, env)
            if al:
                env.aliases[t.id] = al
        elif isinstance(t, (ast.Tuple, ast.List)):
            if value is not None and isinstance(value, (ast.Tuple, ast.List)) and len(value.elts) == len(t.elts) \
                    and not loop:
                for a, b in zip(t.elts, value.elts):
                    self.bind_target(a, b, env)
            else:
                al = self.alias_of(value, env) if value is not None else frozenset()
                for a in t.elts:
                    if isinstance(a, ast.Starred):
                        a = a.value
                    if isinstance(a, ast.Name):
                        env.consts.pop(a.id, None)
                        env.aliases.pop(a.id, None)
                        if al:
                            env.aliases[a.id] = al
                    else:
                        self.bind_target(a, None, env)

    def store(self, t, env, node, aug=False):
        """events of assigning to target t (after the value has been evaluated)"""
        if isinstance(t, ast.Name):
            return []
        if isinstance(t, (ast.Tuple, ast.List)):
            out = []
            for a in t.elts:
                out += self.store(a, env, node, aug)
            return out
        if isinstance(t, ast.Starred):
            return self.store(t.value, env, node, aug)
        k = self.net_access(t, env)
        if k is not None:
            return [self.ev(env, "M" if aug else "W", k)]
        if isinstance(t, (ast.Subscript, ast.Attribute)):
            out = []
            if isinstance(t, ast.Subscript):
                out += self.expr(t.slice, env)
            # find the net key at the root of the chain
            base = t.value
            chain = base
            while True:
                kk = self.net_access(chain, env)
                if kk is not None:
                    pre = self.expr_chain_indices(base, env)
                    # net["_options"][name] = v : which option
                    if kk == "_options" and chain is base and isinstance(t, ast.Subscript):
                        ok = self.const(t.slice, env)
                        self.option_writes.append((env.fn.qual, ok if isinstance(ok, str) else "?"))
                    if kk == "user_pf_options" and isinstance(t, ast.Subscript) and \
                            self.const(t.slice, env) == "hyd_flag" and chain is base:
                        self.hyd_mentions.append((env.fn.qual, "write"))
                        return out + pre + [self.ev(env, "W", "user_pf_options.hyd_flag")]
                    if is_internal_key(kk):
                        return out + pre + [self.ev(env, "M", kk)]
                    return out + pre + self.aw(env, [kk], "store into net[%s]..." % kk, node)
                if isinstance(chain, (ast.Subscript, ast.Attribute)):
                    chain = chain.value
                elif isinstance(chain, ast.Call) and isinstance(chain.func, ast.Attribute):
                    chain = chain.func.value
                else:
                    break
            out += self.expr(base, env)
            al = self.alias_of(base, env)
            if al:
                out += self.aw(env, al, "augmented store through alias" if aug else "store through alias", node)
            return out
        raise ScanError("%s line %d: unsupported assignment target" % (env.fn.qual, t.lineno))

    def expr_chain_indices(self, e, env):
        """events of the index expressions inside a chain net[k][i].a[j] (the root read is part of the write)"""
        out = []
        while isinstance(e, (ast.Subscript, ast.Attribute, ast.Call)):
            if self.net_access(e, env) is not None:
                break
            if isinstance(e, ast.Subscript):
                out = self.expr(e.slice, env) + out
                e = e.value
            elif isinstance(e, ast.Attribute):
                e = e.value
            else:
                for a in e.args:
                    out = self.expr(a, env) + out
                e = e.func.value if isinstance(e.func, ast.Attribute) else None
                if e is None:
                    break
        return out

    def terminates(self, stmts):
        return bool(stmts) and isinstance(stmts[-1], (ast.Return, ast.Raise, ast.Continue, ast.Break))

    def has_return(self, stmts):
        for s in stmts:
            for n in ast.walk(s):
                if isinstance(n, (ast.Return, ast.Continue, ast.Break)):
                    return True
        return False

    def block(self, stmts, env):
        out = []
        for i, s in enumerate(stmts):
            if isinstance(s, ast.If):
                ad = self.absent_default(s, env)
                if ad is not None:
                    out.append(self.ev(env, "R", ad))
                    if (env.fn.qual, ad) not in self.normalisations:
                        self.normalisations.append((env.fn.qual, ad))
                    continue
                out += self.expr(s.test, env)
                t = self.const(s.test, env)
                if t is not UNKNOWN:
                    branch = s.body if t else s.orelse
                    out += self.block(branch, env)
                    if self.terminates(branch) or (self.has_return(branch) and self._ends(branch)):
                        return out
                    if self.has_return(branch):
                        # a conditional return deeper inside: what follows may or may not run
                        rest = self.block(stmts[i + 1:], env)
                        out.append(("alt", [[], rest]))
                        return out
                    continue
                e1, e2 = self.fork(env), self.fork(env)
                a, b = self.block(s.body, e1), self.block(s.orelse, e2)
                if self.has_return(s.body) or self.has_return(s.orelse):
                    rest = stmts[i + 1:]
                    ra = a if self._ends(s.body) else a + self.block(rest, e1)
                    rb = b if self._ends(s.orelse) else b + self.block(rest, e2)
                    self.join(env, e1, e2)
                    out.append(("alt", [ra, rb]))
                    return out
                self.join(env, e1, e2)
                if a or b:
                    out.append(("alt", [a, b]))
                continue
            out += self.stmt(s, env)
            if isinstance(s, (ast.Return, ast.Raise)):
                return out
        return out

    def absent_default(self, s, env):
        """`if [False or] 'k' not in net.keys(): net['k'] = dict()` for a user key k: creating the empty default
        of an absent key.  pipeflow reads the key through net.get(k, {}), so absent and empty are the same
        description; the statement is recorded as a read plus an entry of `normalisations`."""
        if s.orelse or len(s.body) != 1 or not isinstance(s.body[0], ast.Assign):
            return None
        tests = s.test.values if isinstance(s.test, ast.BoolOp) and isinstance(s.test.op, ast.Or) else [s.test]
        key = None
        for t in tests:
            c = self.const(t, env)
            if c is False:
                continue
            if isinstance(t, ast.Compare) and len(t.ops) == 1 and isinstance(t.ops[0], ast.NotIn) and \
                    isinstance(t.left, ast.Constant) and isinstance(t.left.value, str):
                c0 = t.comparators[0]
                if self.is_net(c0, env) or (isinstance(c0, ast.Call) and isinstance(c0.func, ast.Attribute)
                                            and self.is_net(c0.func.value, env) and c0.func.attr == "keys"):
                    if key is None:
                        key = t.left.value
                        continue
            return None
        a = s.body[0]
        if key is None or is_internal_key(key) or len(a.targets) != 1 or self.net_access(a.targets[0], env) != key:
            return None
        v = a.value
        if (isinstance(v, ast.Call) and isinstance(v.func, ast.Name) and v.func.id == "dict" and not v.args
                and not v.keywords) or (isinstance(v, ast.Dict) and not v.keys):
            return key if key == "user_pf_options" else None
        return None

    def _ends(self, stmts):
        return self.terminates(stmts)

    def fork(self, env):
        e = Env(env.fn, env.recv, env.consts, env.aliases, env.net)
        e.kwkeys, e.returned = env.kwkeys, env.returned
        return e

    def join(self, env, e1, e2):
        env.consts = {k: v for k, v in e1.consts.items() if k in e2.consts and e2.consts[k] == v}
        env.aliases = {}
        for k in set(e1.aliases) | set(e2.aliases):
            env.aliases[k] = e1.aliases.get(k, frozenset()) | e2.aliases.get(k, frozenset())

    def stmt(self, s, env):
        fnq = env.fn.qual
        if isinstance(s, ast.Expr):
            if isinstance(s.value, ast.Constant):
                return []
            return self.expr(s.value, env)
        if isinstance(s, ast.Assign):
            out = self.expr(s.value, env)
            v = s.value
            empty = (isinstance(v, ast.Call) and isinstance(v.func, ast.Name) and v.func.id in ("dict", "list", "set")
                     and not v.args and not v.keywords) or (isinstance(v, (ast.Dict, ast.List)) and
                                                            not (v.keys if isinstance(v, ast.Dict) else v.elts))
            for t in s.targets:
                st = self.store(t, env, s)
                if empty and self.net_access(t, env) in CACHE_KEYS:
                    # net[k] = dict(): a fresh EMPTY container (for the leave-behind analysis: as good as absent)
                    st = [(e[0], e[1], e[2] + "=empty") if e[0] == "W" else e for e in st]
                out += st
            for t in s.targets:
                self.bind_target(t, s.value, env)
            return out
        if isinstance(s, ast.AnnAssign):
            out = self.expr(s.value, env) if s.value else []
            out += self.store(s.target, env, s)
            self.bind_target(s.target, s.value, env)
            return out
        if isinstance(s, ast.AugAssign):
            out = self.expr(s.value, env)
            t = s.target
            if isinstance(t, ast.Name):
                al = env.aliases.get(t.id, frozenset())
                if al:
                    out += self.aw(env, al, "augmented assignment to alias (in place for arrays)", s)
                env.consts.pop(t.id, None)
                return out
            k = self.net_access(t, env)
            if k is not None:
                return out + [self.ev(env, "M", k)] if is_internal_key(k) else out + self.aw(env, [k], "net[k] op= ", s)
            return out + self.store(t, env, s, aug=True)
        if isinstance(s, ast.Return):
            out = self.expr(s.value, env) if s.value is not None else []
            if s.value is not None:
                env.returned |= set(self.alias_of(s.value, env))
            return out
        if isinstance(s, ast.Raise):
            out = self.expr(s.exc, env) if s.exc is not None else []
            ex = s.exc.func if isinstance(s.exc, ast.Call) else s.exc
            cls = "reraise" if ex is None else (ex.id if isinstance(ex, ast.Name) else
                                                ex.attr if isinstance(ex, ast.Attribute) else "?")
            return out + [("abort", fnq + "!" + cls)]
        if isinstance(s, ast.For) and self.net_access(s.iter, env) == "component_list":
            if not isinstance(s.target, ast.Name) or s.orelse:
                raise ScanError("%s line %d: unsupported component loop" % (fnq, s.lineno))
            out = [self.ev(env, "R", "component_list")]
            alts = []
            joined = None
            for c in self.comp_classes:
                e1 = self.fork(env)
                e1.consts[s.target.id] = ("<class>", c)
                alts.append((c, self.block(s.body, e1)))
                if self.has_return(s.body):
                    raise ScanError("%s line %d: return/break inside a component loop" % (fnq, s.lineno))
                e1.consts.pop(s.target.id, None)
                if joined is None:
                    joined = e1
                else:
                    self.join(joined, joined, e1)
            env.consts, env.aliases = joined.consts, joined.aliases
            out.append(("comp", alts))
            return out
        if isinstance(s, (ast.For, ast.While)):
            out = []
            if isinstance(s, ast.For):
                out += self.expr(s.iter, env)
                self.bind_target(s.target, s.iter, env, loop=True)
                body = self.block(s.body, env)
            else:
                body = self.expr(s.test, env) + self.block(s.body, env) + self.expr(s.test, env)
                out += self.expr(s.test, env)
            # second pass so that aliases created late in the body are seen by its beginning
            if isinstance(s, ast.For):
                body = self.block(s.body, env)
            else:
                body = self.block(s.body, env) + self.expr(s.test, env)
            if body:
                out.append(("loop", body))
            if s.orelse:
                out += self.block(s.orelse, env)
            return out
        if isinstance(s, ast.Try):
            # try: B  except <classes>: H...  [finally: F]
            # an exception raised at a site inside B runs the matching handler *from the state at that site*:
            # the handler's events are spliced in front of every raise site of B (then the handler's own raise, or
            # the original site again for a bare `raise`).  Handlers that swallow the exception are only accepted
            # when B has no modelled raise site (then: body, or body followed by the handler).
            e1 = self.fork(env)
            body = self.block(s.body, e1)
            if s.finalbody:
                raise ScanError("%s line %d: try/finally is not supported" % (fnq, s.lineno))
            swallow, implicit_tail = [], []
            for h in s.handlers:
                e2 = self.fork(env)
                H = self.block(h.body, e2)
                self.join(e1, e1, e2)
                ends_in_raise = bool(H) and H[-1][0] == "abort" and self.terminates(h.body)
                catch_all = h.type is None or (isinstance(h.type, ast.Name) and h.type.id in ("Exception",
                                                                                              "BaseException"))
                if not ends_in_raise:
                    swallow.append(H)
                    continue
                bare = isinstance(h.body[-1], ast.Raise) and h.body[-1].exc is None
                if not catch_all:
                    # handler for named classes (e.g. `except KeyError: raise UserWarning`): explicit sites of
                    # those classes are routed through it; an implicit exception of that class is modelled at the
                    # end of the body
                    ts = h.type.elts if isinstance(h.type, ast.Tuple) else [h.type]
                    names = set(t.id if isinstance(t, ast.Name) else t.attr if isinstance(t, ast.Attribute) else "?"
                                for t in ts)
                    if "?" in names:
                        raise ScanError("%s line %d: unsupported except clause" % (fnq, s.lineno))
                    body = splice_handler(body, H[:-1] if bare else H, keep_site=bare,
                                          match=lambda site: site.split("!")[-1].split("@")[0] in names)
                    implicit_tail.append(H if not bare else H[:-1] + [("abort", fnq + "!" + sorted(names)[0])])
                    continue
                body = splice_handler(body, H[:-1] if bare else H, keep_site=bare)
            env.consts, env.aliases = e1.consts, e1.aliases
            if swallow:
                if raise_sites(body):
                    raise ScanError("%s line %d: exception-swallowing handler around code with raise sites" % (fnq, s.lineno))
                out = [("alt", [body] + [body + H for H in swallow])]
            elif implicit_tail:
                out = [("alt", [body] + [body + H for H in implicit_tail])]
            else:
                out = list(body)
            out += self.block(s.orelse, env)
            return out
        if isinstance(s, ast.With):
            out = []
            for it in s.items:
                out += self.expr(it.context_expr, env)
            return out + self.block(s.body, env)
        if isinstance(s, (ast.Pass, ast.Break, ast.Continue, ast.Import, ast.ImportFrom, ast.Global,
                          ast.Nonlocal)):
            return []
        if isinstance(s, ast.Assert):
            return self.expr(s.test, env)
        if isinstance(s, ast.Delete):
            out = []
            for t in s.targets:
                k = self.net_access(t, env)
                if k is not None:
                    out.append(self.ev(env, "D", k))
                elif isinstance(t, ast.Subscript):
                    out += self.store(t, env, s)
            return out
        if isinstance(s, (ast.FunctionDef, ast.ClassDef)):
            if any(isinstance(n, ast.Name) and n.id == (env.net or "\0") for n in ast.walk(s)):
                raise ScanError("%s line %d: nested definition touching the net" % (fnq, s.lineno))
            return []
        raise ScanError("%s line %d: unsupported statement %s" % (fnq, s.lineno, type(s).__name__))


CACHE_KEYS = ("_internal_data",)
SUBS = {}          # id -> trace: handler bodies shared by reference (emitted once as a Coq definition)


def sub_id(H):
    key = repr(H)
    for k, v in SUBS.items():
        if v[0] == key:
            return k
    k = len(SUBS)
    SUBS[k] = (key, H)
    return k


def sub_trace(k):
    return SUBS[k][1]


def splice_handler(tr, H, keep_site, match=None):
    """put the handler's events in front of every (matching) raise site of tr (deep)"""
    out = []
    for e in tr:
        if e[0] == "abort" and match is not None and not match(e[1]):
            out.append(e)
        elif e[0] == "abort":
            if size(H) > 4:
                out.append(("sub", sub_id(simplify(list(H)))))
            else:
                out += list(H)
            if keep_site:
                out.append(e)
        elif e[0] == "alt":
            out.append(("alt", [splice_handler(a, H, keep_site, match) for a in e[1]]))
        elif e[0] == "loop":
            out.append(("loop", splice_handler(e[1], H, keep_site, match)))
        elif e[0] == "comp":
            out.append(("comp", [(c, splice_handler(a, H, keep_site, match)) for c, a in e[1]]))
        elif e[0] == "phase":
            out.append(("phase", e[1], splice_handler(e[2], H, keep_site, match)))
        else:
            out.append(e)
    return out


def mark_region(tr, tag, env_fn, top=True):
    """everything raised while the Newton loop is on the stack: raise sites get the tag; an implicit exception
    (any statement may raise) is modelled at the points where what is held in a cache key changes - at the start of
    the region and after every write / deletion of a cache key (w.l.o.g. for what an interrupted call leaves there)"""
    imp = ("alt", [[("abort", "implicit" + tag)], []])
    out = [imp] if top else []
    for e in tr:
        if e[0] == "abort":
            out.append(("abort", e[1] if e[1].endswith(tag) else e[1] + tag))
        elif e[0] == "alt":
            out.append(("alt", [mark_region(a, tag, env_fn, False) for a in e[1]]))
        elif e[0] == "loop":
            out.append(("loop", mark_region(e[1], tag, env_fn, False)))
        elif e[0] == "comp":
            out.append(("comp", [(c, mark_region(a, tag, env_fn, False)) for c, a in e[1]]))
        elif e[0] == "phase":
            out.append(("phase", e[1], mark_region(e[2], tag, env_fn, False)))
        else:
            out.append(e)
            if (e[0] in ("W", "M", "D", "AW") and e[1] in CACHE_KEYS) or (e[0] == "C" and e[1] in CACHE_KEYS):
                out.append(imp)
    return out


def contains_rec(tr, key):
    for e in tr:
        if e[0] == "rec" and e[1] == key:
            return True
        if e[0] == "alt" and any(contains_rec(a, key) for a in e[1]):
            return True
        if e[0] == "loop" and contains_rec(e[1], key):
            return True
        if e[0] == "comp" and any(contains_rec(a, key) for _, a in e[1]):
            return True
    return False


def replace_rec(tr, key, by):
    out = []
    for e in tr:
        if e[0] == "rec" and e[1] == key:
            out += by
        elif e[0] == "alt":
            out.append(("alt", [replace_rec(a, key, by) for a in e[1]]))
        elif e[0] == "loop":
            out.append(("loop", replace_rec(e[1], key, by)))
        elif e[0] == "comp":
            out.append(("comp", [(c, replace_rec(a, key, by)) for c, a in e[1]]))
        else:
            out.append(e)
    return out


# --------------------------------------------------------------------------------------------- simplification
def simplify(tr, top=False):
    out = []
    for e in tr:
        if e[0] == "phase":
            if top:
                b = simplify(e[2])
                if b:
                    out.append(("phase", e[1], b))
                continue
            for x in simplify(e[2]):
                if not (x[0] == "R" and out and out[-1][0] == "R" and out[-1][1] == x[1]):
                    out.append(x)
            continue
        if e[0] == "alt":
            alts = []
            for a in e[1]:
                a = simplify(a)
                if a not in alts:
                    alts.append(a)
            if alts == [[]] or not alts:
                continue
            if len(alts) == 1:
                out += alts[0]
                continue
            e = ("alt", alts)
        elif e[0] == "loop":
            b = simplify(e[1])
            if not b:
                continue
            e = ("loop", b)
        elif e[0] == "comp":
            e = ("comp", [(c, simplify(a)) for c, a in e[1]])
            if not any(a for _, a in e[1]):
                continue
        elif e[0] == "rec":
            raise ScanError("unresolved recursion marker %r" % (e[1],))
        if e[0] == "R" and out and out[-1][0] == "R" and out[-1][1] == e[1]:
            continue
        out.append(e)
    return out


def size(tr):
    n = 0
    for e in tr:
        n += 1
        if e[0] == "alt":
            n += sum(size(a) for a in e[1])
        elif e[0] == "loop":
            n += size(e[1])
        elif e[0] == "phase":
            n += size(e[2])
        elif e[0] == "comp":
            n += sum(size(a) for _, a in e[1])
    return n


def expand(tr):
    """replace sub references by their traces (for the Python-side mirrors of the Coq analyses)"""
    out = []
    for e in tr:
        if e[0] == "sub":
            out += expand(sub_trace(e[1]))
        elif e[0] == "alt":
            out.append(("alt", [expand(a) for a in e[1]]))
        elif e[0] == "loop":
            out.append(("loop", expand(e[1])))
        elif e[0] == "comp":
            out.append(("comp", [(c, expand(a)) for c, a in e[1]]))
        elif e[0] == "phase":
            out.append(("phase", e[1], expand(e[2])))
        else:
            out.append(e)
    return out


# --------------------------------------------------------------------------------------------- python-side scan
def py_scan(tr, defined, allowed, problems, dp=None, cur=None):
    """the def-use scan of C12.Model.scan, in Python, for diagnostics (which function reads which stale key).
    defined: keys written on every path so far; dp: {(class, key)}: written on every path *if that component
    class is in the component list*.  returns (defined, dp) on normal exit, or None if every path aborts"""
    d = set(defined)
    dp = set(dp or ())
    for e in tr:
        k = e[0]
        if k in ("R", "M"):
            if is_internal_key(e[1]) and e[1] not in d and e[1] not in allowed and (cur, e[1]) not in dp:
                problems.append(("stale-read", e[1], e[2]))
        elif k in ("W", "D"):
            d.add(e[1])
        elif k == "C":
            if e[2] in d or not is_internal_key(e[2]) or e[2] in allowed:
                d.add(e[1])
            elif e[1] in d or not is_internal_key(e[1]) or e[1] in allowed or any(x[1] == e[1] for x in dp):
                problems.append(("tainting-copy", e[1], e[3]))
        elif k == "AW":
            pass
        elif k == "abort":
            return None
        elif k == "alt":
            outs = [py_scan(a, d, allowed, problems, dp, cur) for a in e[1]]
            outs = [o for o in outs if o is not None]
            if not outs:
                return None
            d = set.intersection(*[o[0] for o in outs])
            dp = set.intersection(*[o[1] for o in outs])
        elif k == "loop":
            py_scan(e[1], d, allowed, problems, dp, cur)
        elif k == "phase":
            o = py_scan(e[2], d, allowed, problems, dp, cur)
            if o is None:
                return None
            d, dp = o
        elif k == "sub":
            o = py_scan(sub_trace(e[1]), d, allowed, problems, dp, cur)
            if o is None:
                return None
            d, dp = o
        elif k == "comp":
            for c, a in e[1]:
                o = py_scan(a, d, allowed, problems, dp, c)
                if o is not None:
                    dp |= {(c, x) for x in o[0] - d}
    return d, dp


# --------------------------------------------------------------------------------------------- leave-behind analysis
def _then(x, y):
    """path effects of x followed by y; effects: 'U' untouched, 'W' written, 'D' deleted"""
    out = set()
    for a in x:
        for b in y:
            out.add(a if b == "U" else b)
    return out


def py_eff(tr, key, des):
    """mirror of C12.Model.eff: (effects on `key` at normal exits, effects at raise sites s with des(s))"""
    n, ab = {"U"}, set()
    for e in tr:
        k = e[0]
        en, ea = {"U"}, set()
        if k in ("W", "M", "AW"):
            en = ({"E"} if (k == "W" and e[2].endswith("=empty")) else {"W"}) if e[1] == key else {"U"}
        elif k == "D":
            en = {"D"} if e[1] == key else {"U"}
        elif k == "C":
            en = {"W"} if e[1] == key else {"U"}
        elif k == "abort":
            en, ea = set(), ({"U"} if des(e[1]) else set())
        elif k == "alt":
            en = set()
            for a in e[1]:
                x, y = py_eff(a, key, des)
                en |= x
                ea |= y
        elif k == "loop":
            x, y = py_eff(e[1], key, des)
            en = {"U"} | x
            ea = _then(en, y)
        elif k == "comp":
            en = {"U"}
            for _, a in e[1]:
                x, y = py_eff(a, key, des)
                ea |= _then(en, y)
                en = _then(en, {"U"} | x)
        elif k == "phase":
            en, ea = py_eff(e[2], key, des)
        elif k == "sub":
            en, ea = py_eff(sub_trace(e[1]), key, des)
        ab |= _then(n, ea)
        n = _then(n, en)
    return n, ab


def raise_sites(tr, acc=None):
    acc = set() if acc is None else acc
    for e in tr:
        if e[0] == "abort":
            acc.add(e[1])
        elif e[0] == "sub":
            raise_sites(sub_trace(e[1]), acc)
        elif e[0] == "alt":
            for a in e[1]:
                raise_sites(a, acc)
        elif e[0] == "loop":
            raise_sites(e[1], acc)
        elif e[0] == "phase":
            raise_sites(e[2], acc)
        elif e[0] == "comp":
            for _, a in e[1]:
                raise_sites(a, acc)
    return acc


STAGE_FAILURE_SITES = ["hydraulics!PipeflowNotConverged", "bidirectional!PipeflowNotConverged",
                       "heat_transfer!PipeflowNotConverged"]


def designated(site):
    """the exits at which a call without reuse must not hold a cache of its own: the stage drivers' failure
    raises and everything raised (explicitly or implicitly) while the Newton loop runs"""
    return site in STAGE_FAILURE_SITES or site.endswith("@newton_raphson")


def leaky_sites(tr, key="_internal_data"):
    """raise sites at which this call may still hold a value it wrote itself into `key`"""
    return sorted(s for s in raise_sites(tr) if "W" in py_eff(tr, key, lambda x, s=s: x == s)[1])


# --------------------------------------------------------------------------------------------- driver
def scan_all(src=None):
    SUBS.clear()
    sc = Scanner(src)
    pf = sc.S.funcs.get("pipeflow")
    if pf is None:
        raise ScanError("pipeflow not found")
    progs = {}
    for mode in MODES:
        for upd, reuse in OPTCFG:
            sc.config = {"mode": mode, "reuse_internal_data": reuse, "transient": False,
                         "only_update_hydraulic_matrix": upd}
            env = Env(pf, None, netname="net")
            sc.stack = [("pipeflow", None)]
            tr = sc.block(pf.node.body, env)
            progs[(mode, upd, reuse)] = simplify(tr, top=True)
    # transient thermal calculation (pit carried from step to step by design): thermal modes x first / later step
    tprogs = {}
    for mode in ("sequential", "bidirectional"):
        for step in (0, 1):
            sc.config = {"mode": mode, "reuse_internal_data": False, "transient": True,
                         "only_update_hydraulic_matrix": False, "simulation_time_step": step}
            sc.stack = [("pipeflow", None)]
            tprogs[(mode, step)] = simplify(sc.block(pf.node.body, Env(pf, None, netname="net")), top=True)
    sc.transient_progs = tprogs
    # mode "all" is rewritten to sequential by _mode_check (C14); anything else raises in pipeflow
    sc.config = {"mode": "<other>", "reuse_internal_data": False, "transient": False,
                 "only_update_hydraulic_matrix": False}
    tr_other = simplify(sc.block(pf.node.body, Env(pf, None, netname="net")), top=True)
    return sc, progs, tr_other


def getter_mutations(src=None):
    """methods of the fluid / std-type classes (other than constructors and add_property) that assign to
    `self.*` or mutate it: a property getter that caches would make pipeflow write into the user's fluid"""
    out = []
    for rel in GETTER_FILES:
        p = os.path.join(src or SRC, rel)
        if not os.path.exists(p):
            raise ScanError("missing " + rel)
        tree = ast.parse(open(p).read())
        for c in tree.body:
            if not isinstance(c, ast.ClassDef):
                continue
            for m in c.body:
                if not isinstance(m, ast.FunctionDef) or m.name in ("__init__", "add_property", "from_dict",
                                                                    "from_path", "from_list", "from_std_type",
                                                                    "load_data", "update_reg_par", "__setstate__"):
                    continue
                if not (m.name.startswith("get_") or m.name in ("is_gas", "__call__", "compute_profile")
                        or m.name.startswith("_")):
                    continue
                for n in ast.walk(m):
                    tg = []
                    if isinstance(n, ast.Assign):
                        tg = n.targets
                    elif isinstance(n, (ast.AugAssign, ast.AnnAssign)):
                        tg = [n.target]
                    for t in tg:
                        r = t
                        while isinstance(r, (ast.Attribute, ast.Subscript)):
                            r = r.value
                        if isinstance(r, ast.Name) and r.id == "self" and not isinstance(t, ast.Name):
                            out.append(("%s.%s" % (c.name, m.name), ast.unparse(t)))
                    if isinstance(n, ast.Call) and isinstance(n.func, ast.Attribute) and \
                            n.func.attr in MUTATING_METHODS:
                        r = n.func.value
                        while isinstance(r, (ast.Attribute, ast.Subscript)):
                            r = r.value
                        if isinstance(r, ast.Name) and r.id == "self":
                            out.append(("%s.%s" % (c.name, m.name), ast.unparse(n.func)))
    return out


HIDDEN_DIRS = ["", "pf", "properties", "std_types", "component_models", "component_models/abstract_models",
               "control", "timeseries", "multinet/control", "multinet/timeseries"]
MEMO_NAMES = ("lru_cache", "cache", "cached_property", "memoize", "memoise", "memoized", "cached", "Memory")
CONTAINER_CALLS = ("dict", "list", "set", "defaultdict", "OrderedDict", "Counter", "deque", "WeakKeyDictionary",
                   "WeakValueDictionary")


def hidden_state(src=None):
    """state that lives outside the net object and survives a call: memoising decorators / wrappers, module
    globals assigned or mutated inside functions, mutable default arguments that are mutated, attributes set on
    function objects.  Scanned over every module of the calculation packages (not only reachable functions:
    fail closed).  -> [(module, where, kind)]"""
    root = src or SRC
    out = []
    for d in HIDDEN_DIRS:
        dd = os.path.join(root, d)
        if not os.path.isdir(dd):
            raise ScanError("package directory missing: " + d)
        for f in sorted(os.listdir(dd)):
            if not f.endswith(".py"):
                continue
            rel = (d + "/" if d else "") + f
            tree = ast.parse(open(os.path.join(dd, f)).read(), rel)
            out += _hidden_in_module(tree, rel)
    return sorted(set(out))


def _is_container(v):
    if isinstance(v, (ast.Dict, ast.List, ast.Set, ast.DictComp, ast.ListComp, ast.SetComp)):
        return True
    if isinstance(v, ast.Call):
        n = v.func.id if isinstance(v.func, ast.Name) else v.func.attr if isinstance(v.func, ast.Attribute) else ""
        return n in CONTAINER_CALLS
    return False


def _memo_name(e):
    """name of a memoising decorator / wrapper expression, or None"""
    if isinstance(e, ast.Call):
        return _memo_name(e.func)
    n = e.id if isinstance(e, ast.Name) else e.attr if isinstance(e, ast.Attribute) else None
    return n if n in MEMO_NAMES else None


def _hidden_in_module(tree, rel):
    out = []
    glob, funcs = {}, set()
    for n in tree.body:
        if isinstance(n, (ast.Assign, ast.AnnAssign)):
            tg = n.targets if isinstance(n, ast.Assign) else [n.target]
            for t in tg:
                if isinstance(t, ast.Name):
                    glob[t.id] = n.value
        elif isinstance(n, (ast.FunctionDef, ast.AsyncFunctionDef)):
            funcs.add(n.name)
    # memoising wrappers anywhere: decorators and calls
    for n in ast.walk(tree):
        if isinstance(n, (ast.FunctionDef, ast.AsyncFunctionDef, ast.ClassDef)):
            for dec in n.decorator_list:
                m = _memo_name(dec)
                if m:
                    out.append((rel, n.name, "memoising decorator @" + m))
        if isinstance(n, ast.Call):
            m = _memo_name(n.func)
            if m and not any(n is d or (isinstance(d, ast.Call) and d.func is n.func)
                             for fn in ast.walk(tree) if isinstance(fn, (ast.FunctionDef, ast.ClassDef))
                             for d in fn.decorator_list):
                out.append((rel, getattr(n, "lineno", 0) and "line %d" % n.lineno, "memoising wrapper " + m + "(...)"))
    # functions: globals assigned / mutated, mutable defaults mutated, attributes on function objects
    for fn in ast.walk(tree):
        if not isinstance(fn, (ast.FunctionDef, ast.AsyncFunctionDef)):
            continue
        local = set(a.arg for a in fn.args.posonlyargs + fn.args.args + fn.args.kwonlyargs)
        if fn.args.vararg:
            local.add(fn.args.vararg.arg)
        if fn.args.kwarg:
            local.add(fn.args.kwarg.arg)
        declared_global = set()
        for n in ast.walk(fn):
            if isinstance(n, (ast.Global, ast.Nonlocal)):
                declared_global |= set(n.names)
        for n in ast.walk(fn):
            tg = []
            if isinstance(n, ast.Assign):
                tg = n.targets
            elif isinstance(n, (ast.AugAssign, ast.AnnAssign)):
                tg = [n.target]
            elif isinstance(n, (ast.For, ast.comprehension)):
                tg = [n.target]
            elif isinstance(n, ast.With):
                tg = [i.optional_vars for i in n.items if i.optional_vars is not None]
            elif isinstance(n, ast.NamedExpr):
                tg = [n.target]
            for t in tg:
                for x in ast.walk(t):
                    if isinstance(x, ast.Name) and isinstance(x.ctx, ast.Store) and x.id not in declared_global:
                        local.add(x.id)
        mutable_defaults = {}
        pos = fn.args.posonlyargs + fn.args.args
        for a, dv in list(zip(pos[len(pos) - len(fn.args.defaults):], fn.args.defaults)) + \
                [(a, dv) for a, dv in zip(fn.args.kwonlyargs, fn.args.kw_defaults) if dv is not None]:
            if _is_container(dv):
                mutable_defaults[a.arg] = True

        def root_name(e):
            while isinstance(e, (ast.Attribute, ast.Subscript)):
                e = e.value
            return e.id if isinstance(e, ast.Name) else None
        for n in ast.walk(fn):
            stores = []
            if isinstance(n, ast.Assign):
                stores = n.targets
            elif isinstance(n, (ast.AugAssign, ast.AnnAssign)):
                stores = [n.target]
            elif isinstance(n, ast.Delete):
                stores = n.targets
            for t in stores:
                for x in ([t] if not isinstance(t, (ast.Tuple, ast.List)) else t.elts):
                    if isinstance(x, ast.Name):
                        if x.id in declared_global:
                            out.append((rel, fn.name, "assigns module global " + x.id))
                        elif isinstance(n, ast.AugAssign) and x.id in mutable_defaults:
                            out.append((rel, fn.name, "mutates default argument " + x.id))
                        continue
                    r = root_name(x)
                    if r is None:
                        continue
                    if r in mutable_defaults:
                        out.append((rel, fn.name, "mutates default argument " + r))
                    elif r not in local and (r in glob or r in declared_global) and r not in ("self", "cls"):
                        out.append((rel, fn.name, "writes into module global " + r))
                    elif r not in local and r in funcs and isinstance(x, ast.Attribute):
                        out.append((rel, fn.name, "sets attribute on function object " + r))
            if isinstance(n, ast.Call) and isinstance(n.func, ast.Attribute) and n.func.attr in MUTATING_METHODS:
                r = root_name(n.func.value)
                if r in mutable_defaults:
                    out.append((rel, fn.name, "mutates default argument %s (.%s)" % (r, n.func.attr)))
                elif r is not None and r not in local and r in glob and _is_container(glob[r]):
                    out.append((rel, fn.name, "mutates module global %s (.%s)" % (r, n.func.attr)))
            if isinstance(n, ast.Call) and isinstance(n.func, ast.Name) and n.func.id == "setattr" and n.args:
                r = root_name(n.args[0])
                if r in funcs or (r in glob and r not in local):
                    out.append((rel, fn.name, "setattr on module-level object " + str(r)))
    # attributes set on function objects at module level:  f.cache = {}
    for n in tree.body:
        if isinstance(n, ast.Assign):
            for t in n.targets:
                if isinstance(t, ast.Attribute) and isinstance(t.value, ast.Name) and t.value.id in funcs:
                    out.append((rel, "<module>", "attribute on function object %s.%s" % (t.value.id, t.attr)))
    return out


def inspected_option_keys(sc):
    """constant keys by which init_options / _iteration_check / _mode_check look into the option layers;
    a key held in a local name is resolved through that function's constant assignments / constant loops,
    anything else is reported as "<dynamic>" """
    keys = set()
    for name in ("init_options", "_iteration_check", "_mode_check"):
        fn = sc.S.funcs.get(name)
        if fn is None:
            raise ScanError(name + " not found")
        local = {}

        def lit(v):
            if isinstance(v, ast.Constant) and isinstance(v.value, str):
                return [v.value]
            if isinstance(v, ast.JoinedStr):
                return ["".join(x.value if isinstance(x, ast.Constant) else "*" for x in v.values)]
            if isinstance(v, (ast.Tuple, ast.List, ast.Set)) and all(isinstance(x, ast.Constant) for x in v.elts):
                return [x.value for x in v.elts]
            return None
        for n in ast.walk(fn.node):
            if isinstance(n, ast.Assign) and len(n.targets) == 1 and isinstance(n.targets[0], ast.Name):
                v = lit(n.value)
                local.setdefault(n.targets[0].id, []).append(v if v and not isinstance(n.value, (ast.Tuple, ast.Set, ast.List)) else (["<set>"] if v else None))
                if v and isinstance(n.value, (ast.Tuple, ast.Set, ast.List)):
                    local["$elts_" + n.targets[0].id] = [v]
            if isinstance(n, ast.For) and isinstance(n.target, ast.Name):
                v = lit(n.iter)
                if v is None and isinstance(n.iter, ast.Name):
                    vv = local.get("$elts_" + n.iter.id)
                    v = vv[0] if vv else None
                local.setdefault(n.target.id, []).append(v)

        def resolve(a):
            if isinstance(a, ast.Constant) and isinstance(a.value, str):
                return [a.value]
            if isinstance(a, ast.JoinedStr):
                return lit(a)
            if isinstance(a, ast.Name):
                vs = local.get(a.id)
                if vs and all(v is not None for v in vs):
                    return [x for v in vs for x in v]
            return ["<dynamic>"]
        for n in ast.walk(fn.node):
            if isinstance(n, ast.Subscript) and not (isinstance(n.value, ast.Name) and n.value.id == "net"):
                keys.update(resolve(n.slice))
            if isinstance(n, ast.Call) and isinstance(n.func, ast.Attribute) and n.func.attr in ("get", "pop") \
                    and n.args and not (isinstance(n.func.value, ast.Name) and n.func.value.id == "net"):
                keys.update(resolve(n.args[0]))
            if isinstance(n, ast.Compare) and any(isinstance(o, (ast.In, ast.NotIn)) for o in n.ops):
                keys.update(resolve(n.left))
    return sorted(keys)


def heat_handover_writes(sc):
    """what use_given_hydraulic_results writes: (pit, column) for every store `x[:, COL] = ...` where x is bound to
    net["_pit"]["node" | "branch"]; anything else it stores raises"""
    fn = sc.S.funcs.get("use_given_hydraulic_results")
    if fn is None:
        raise ScanError("use_given_hydraulic_results not found")
    pits, out = {}, []
    for n in ast.walk(fn.node):
        if isinstance(n, ast.Assign) and len(n.targets) == 1 and isinstance(n.targets[0], ast.Name):
            v = n.value
            if isinstance(v, ast.Subscript) and isinstance(v.value, ast.Subscript) and \
                    isinstance(v.value.value, ast.Name) and v.value.value.id == "net" and \
                    isinstance(v.value.slice, ast.Constant) and v.value.slice.value == "_pit" and \
                    isinstance(v.slice, ast.Constant):
                pits[n.targets[0].id] = v.slice.value
    for n in ast.walk(fn.node):
        tg = n.targets if isinstance(n, ast.Assign) else [n.target] if isinstance(n, ast.AugAssign) else []
        for t in tg:
            if isinstance(t, ast.Name):
                continue
            if isinstance(t, ast.Subscript) and isinstance(t.value, ast.Name) and t.value.id in pits and \
                    isinstance(t.slice, ast.Tuple) and len(t.slice.elts) == 2 and \
                    isinstance(t.slice.elts[0], ast.Slice) and t.slice.elts[0].lower is None and \
                    t.slice.elts[0].upper is None and isinstance(t.slice.elts[1], ast.Name) and \
                    isinstance(n, ast.Assign):
                out.append((pits[t.value.id], t.slice.elts[1].id))
            else:
                raise ScanError("use_given_hydraulic_results: unrecognised store " + ast.unparse(t))
    return out


def hyd_flag_literals(sc):
    """every occurrence of the literal / keyword hyd_flag in the scanned sources: (function, kind)"""
    out = []
    for rel, tree in sc.S.modules.items():
        for fnode in ast.walk(tree):
            if not isinstance(fnode, ast.FunctionDef):
                continue
            for n in ast.iter_child_nodes(fnode):
                pass
            for n in ast.walk(fnode):
                if isinstance(n, ast.keyword) and n.arg == "hyd_flag":
                    out.append((fnode.name, "kw-write"))
                elif isinstance(n, ast.Constant) and n.value == "hyd_flag":
                    out.append((fnode.name, "literal"))
    # nested function defs would be double counted; none today
    return sorted(set(out))


# --------------------------------------------------------------------------------------------- Coq output
def coq_prog(tr, fnidx, clsidx, indent=2):
    """right-nested Seq of events"""
    pad = " " * indent

    def one(e):
        k = e[0]
        if k == "R":
            return "Rd %d %s" % (fnidx[e[2]], cstr(e[1]))
        if k == "W":
            return "Wr %d %s" % (fnidx[e[2]], cstr(e[1]))
        if k == "M":
            return "Seq (Rd %d %s) (Wr %d %s)" % (fnidx[e[2]], cstr(e[1]), fnidx[e[2]], cstr(e[1]))
        if k == "D":
            return "Del %d %s" % (fnidx[e[2]], cstr(e[1]))
        if k == "C":
            return "Cp %d %s %s" % (fnidx[e[3]], cstr(e[1]), cstr(e[2]))
        if k == "AW":
            return "Seq (Rd %d %s) (Wr %d %s)" % (fnidx[e[3]], cstr(e[1]), fnidx[e[3]], cstr(e[1]))
        if k == "abort":
            return "Abort %d" % fnidx[e[1]]
        if k == "alt":
            alts = e[1]
            s = "(" + seq(alts[-1]) + ")"
            for a in reversed(alts[:-1]):
                s = "(Choice (%s) %s)" % (seq(a), s)
            return s[1:-1] if s.startswith("(Choice") else "Seq Skip " + s
        if k == "loop":
            return "Loop (%s)" % seq(e[1])
        if k == "sub":
            return "hsub_%d" % e[1]
        if k == "comp":
            items = ["IfComp %d (%s)" % (clsidx[c], seq(a)) for c, a in e[1] if a]
            s = items[-1]
            for it in reversed(items[:-1]):
                s = "Seq (%s) (%s)" % (it, s)
            return s
        raise ScanError("event " + k)

    def seq(t):
        if not t:
            return "Skip"
        items = [one(e) for e in t]
        s = items[-1]
        for it in reversed(items[:-1]):
            s = "Seq (%s) (%s)" % (it, s)
        return s
    return seq(tr)


def generate(src=None):
    sc, progs, tr_other = scan_all(src)
    fns = sorted(sc.reach)
    for extra in ("pipeflow",):
        if extra not in fns:
            fns.append(extra)
    fnidx = {f: i for i, f in enumerate(fns)}
    clsidx = {c: i for i, c in enumerate(sc.comp_classes)}

    def fx(ev_fn):
        return fnidx.setdefault(ev_fn, len(fnidx))
    # make sure every function named in an event has an index
    def walk(t):
        for e in t:
            if e[0] in ("R", "W", "M", "D"):
                fx(e[2])
            elif e[0] in ("C", "AW"):
                fx(e[3])
            elif e[0] == "abort":
                fx(e[1])
            elif e[0] == "alt":
                for a in e[1]:
                    walk(a)
            elif e[0] == "loop":
                walk(e[1])
            elif e[0] == "phase":
                walk(e[2])
            elif e[0] == "comp":
                for _, a in e[1]:
                    walk(a)
    for t in list(progs.values()) + [tr_other] + list(sc.transient_progs.values()):
        walk(t)
    names = [None] * len(fnidx)
    for f, i in fnidx.items():
        names[i] = f
    L = ["(* GENERATED by tools/translate/effects.py from the pandapipes sources - do not edit *)",
         "From Coq Require Import String List ZArith.", "From PP Require Import C12.Model.",
         "Import ListNotations.", "Open Scope string_scope.", "",
         "Definition fn_names : list string := " + clist([cstr(n) for n in names]) + ".", ""]
    L.append("(* per reachable function: direct reads, direct writes of net keys (incl. writes through aliases) *)")
    L.append("Definition fn_effects : list (string * list string * list string) := [")
    L.append(";\n".join("  (%s, %s, %s)" % (cstr(f), clist([cstr(k) for k in sorted(sc.reach[f]["reads"])]),
                                            clist([cstr(k) for k in sorted(sc.reach[f]["writes"])]))
                        for f in sorted(sc.reach)))
    L.append("].\n")
    L.append("(* (function, user key, how, line): writes through an alias of a user object *)")
    L.append("Definition alias_writes : list (string * string * string * Z) := " +
             clist(["(%s, %s, %s, %d%%Z)" % (cstr(a), cstr(b), cstr(c), d) for a, b, c, d in sc.alias_writes]) + ".\n")
    L.append("Definition option_writes : list (string * string) := " +
             clist(sorted(set("(%s, %s)" % (cstr(a), cstr(b)) for a, b in sc.option_writes))) + ".\n")
    L.append("Definition inspected_option_keys : list string := " +
             clist([cstr(k) for k in inspected_option_keys(sc)]) + ".\n")
    L.append("(* the stored hydraulic solution is written into exactly these (pit, column) pairs *)")
    L.append("Definition heat_handover_writes : list (string * string) := " +
             clist(["(%s, %s)" % (cstr(a), cstr(b)) for a, b in heat_handover_writes(sc)]) + ".\n")
    L.append("Definition hyd_flag_mentions : list (string * string) := " +
             clist(["(%s, %s)" % (cstr(a), cstr(b)) for a, b in hyd_flag_literals(sc)]) + ".\n")
    hs = hidden_state(src)
    L.append("(* (module, function, kind): state outside the net that survives a call (memoisation, module globals, ...) *)")
    L.append("Definition hidden_state : list (string * string * string) := " +
             clist(["(%s, %s, %s)" % (cstr(a), cstr(b), cstr(c)) for a, b, c in hs]) + ".\n")
    sc.hidden_state = hs
    L.append("Definition getter_mutations : list (string * string) := " +
             clist(["(%s, %s)" % (cstr(a), cstr(b)) for a, b in getter_mutations(src)]) + ".\n")
    def walk_subs():
        for k in sorted(SUBS):
            walk(sub_trace(k))
    walk_subs()
    names = [None] * len(fnidx)
    for f, i in fnidx.items():
        names[i] = f
    L[6] = "Definition fn_names : list string := " + clist([cstr(n) for n in names]) + "."
    for k in sorted(SUBS):
        L.append("Definition hsub_%d : prog :=\n  %s.\n" % (k, coq_prog(sub_trace(k), fnidx, clsidx)))
    bodies = {}

    def body_name(text):
        if text not in bodies:
            bodies[text] = "body_%d" % len(bodies)
            L.append("Definition %s : prog :=\n  %s.\n" % (bodies[text], text))
        return bodies[text]

    def phase_list(tr):
        """top-level trace -> [(phase name, Coq definition name)]"""
        out, cur = [], []
        for e in tr:
            if e[0] == "phase":
                if cur:
                    out.append(("pipeflow", body_name(coq_prog(cur, fnidx, clsidx))))
                    cur = []
                out.append((e[1], body_name(coq_prog(e[2], fnidx, clsidx))))
            else:
                cur.append(e)
        if cur:
            out.append(("pipeflow", body_name(coq_prog(cur, fnidx, clsidx))))
        return out
    for (mode, upd, reuse), tr in progs.items():
        n = cfg_name(mode, upd, reuse)
        pl = phase_list(tr)
        L.append("Definition phases_%s : list (string * prog) := %s.\n" %
                 (n, clist(["(%s, %s)" % (cstr(a), b) for a, b in pl])))
        L.append("Definition prog_%s : prog := seq_of phases_%s.\n" % (n, n))
    pl = phase_list(tr_other)
    L.append("Definition prog_other_mode : prog := seq_of %s.\n" % clist(["(%s, %s)" % (cstr(a), b) for a, b in pl]))
    L.append("(* transient=True: (mode, simulation_time_step 0 / later, program) *)")
    tl = []
    for (mode, step), tr in sc.transient_progs.items():
        pl = phase_list(tr)
        tl.append("  (%s, %d, seq_of %s)" % (cstr(mode), step, clist(["(%s, %s)" % (cstr(a), b) for a, b in pl])))
    L.append("Definition transient_progs : list (string * nat * prog) := [\n" + ";\n".join(tl) + "\n].\n")
    L.append("(* (mode, only_update_hydraulic_matrix, reuse_internal_data, program) *)")
    L.append("Definition all_progs : list (string * bool * bool * prog) := [")
    L.append(";\n".join("  (%s, %s, %s, prog_%s)" % (cstr(m), "true" if u else "false", "true" if r else "false",
                                                   cfg_name(m, u, r)) for (m, u, r) in progs))
    L.append("].\n")
    tables = []
    for c in sc.comp_classes:
        m = sc.S.resolve_method(c, "table_name")
        body = [b for b in m.node.body if not (isinstance(b, ast.Expr) and isinstance(b.value, ast.Constant))]
        if len(body) != 1 or not isinstance(body[0], ast.Return) or not isinstance(body[0].value, ast.Constant):
            raise ScanError("table_name of %s is not a literal" % c)
        tables.append((clsidx[c], body[0].value.value))
    L.append("Definition class_tables : list (nat * string) := " +
             clist(["(%d, %s)" % (i, cstr(t)) for i, t in tables]) + ".\n")
    L.append("Definition class_names : list string := " + clist([cstr(c) for c in sc.comp_classes]) + ".\n")
    L.append("Definition normalisations : list (string * string) := " +
             clist(["(%s, %s)" % (cstr(a), cstr(b)) for a, b in sc.normalisations]) + ".\n")
    return "\n".join(L), sc, progs


def allowed_for(mode, upd, reuse):
    a = set()
    if mode == "heat":
        a.add("user_pf_options.hyd_flag")
    if reuse:
        a.add("_internal_data")
    return a


if __name__ == "__main__":
    text, sc, progs = generate(sys.argv[1] if len(sys.argv) > 1 else None)
    for k, t in progs.items():
        pr = []
        d = py_scan(t, set(), allowed_for(*k), pr)
        print(k, "size", size(t), "problems", sorted(set(pr))[:8], "defined", sorted(d[0]) if d else None,
              "dp", len(d[1]) if d else None)
    print("alias writes:", sc.alias_writes)
    print("option writes:", sorted(set(sc.option_writes)))
    print("normalisations:", sc.normalisations)
    print("hyd:", hyd_flag_literals(sc))
    print("inspected:", inspected_option_keys(sc))
    print("getter mutations:", getter_mutations(sys.argv[1] if len(sys.argv) > 1 else None))
    print("hidden state:", sc.hidden_state)
    print("functions:", len(sc.reach), "text bytes", len(text))
