"""T-tie for C13: regenerate coq/Gen/TsWiring.v - which run function and which error classes the time-series /
control loops of pandapipes register, and the shape of run_loop.  Fail-closed: a site that no longer has the
recognised form raises."""
import ast
import os
import sys

sys.path.insert(0, os.path.dirname(os.path.dirname(os.path.abspath(__file__))))
from vlib import SRC, cstr, clist  # noqa: E402


class WiringError(Exception):
    pass


def parse(rel, src=None):
    p = os.path.join(src or SRC, rel)
    if not os.path.exists(p):
        raise WiringError("missing " + rel)
    return ast.parse(open(p).read())


def func(tree, name, rel):
    for n in tree.body:
        if isinstance(n, ast.FunctionDef) and n.name == name:
            return n
    raise WiringError("%s: function %s not found" % (rel, name))


def imports(tree):
    """local name -> dotted origin"""
    out = {}
    for n in ast.walk(tree):
        if isinstance(n, ast.ImportFrom):
            for a in n.names:
                out[a.asname or a.name] = "%s.%s" % (n.module, a.name)
        elif isinstance(n, ast.Import):
            for a in n.names:
                out[a.asname or a.name] = a.name
    return out


def origin(e, imp):
    """dotted origin of a Name / Attribute expression"""
    if isinstance(e, ast.Name):
        return imp.get(e.id, e.id)
    if isinstance(e, ast.Attribute):
        return origin(e.value, imp) + "." + e.attr
    raise WiringError("not a name: " + ast.dump(e)[:60])


def names_of_tuple(e, imp):
    if isinstance(e, ast.Call) and isinstance(e.func, ast.Name) and e.func.id == "tuple" and len(e.args) == 1:
        e = e.args[0]
    if not isinstance(e, (ast.Tuple, ast.List)):
        raise WiringError("error classes are not a literal tuple/list")
    return [origin(x, imp) for x in e.elts]


def subscript_assign(fn, base, key):
    """value of the (single, unconditional top-level or inside `if ctrl_variables is None`) assignment base[key] = v"""
    found = []
    for n in ast.walk(fn):
        if isinstance(n, ast.Assign) and len(n.targets) == 1:
            t = n.targets[0]
            if isinstance(t, ast.Subscript) and isinstance(t.value, ast.Name) and t.value.id == base and \
                    isinstance(t.slice, ast.Constant) and t.slice.value == key:
                found.append(n.value)
    if len(found) != 1:
        raise WiringError("%s: expected exactly one assignment %s[%r] (found %d)" % (fn.name, base, key, len(found)))
    return found[0]


def facts(src=None):
    F = []
    # ---- timeseries/run_time_series.py
    rel = "timeseries/run_time_series.py"
    t = parse(rel, src)
    imp = imports(t)
    f = func(t, "init_time_series", rel)
    run_default = None
    for n in ast.walk(f):
        if isinstance(n, ast.Assign) and len(n.targets) == 1 and isinstance(n.targets[0], ast.Name) and \
                n.targets[0].id == "run":
            v = n.value
            if isinstance(v, ast.Call) and isinstance(v.func, ast.Attribute) and v.func.attr in ("pop", "get") and \
                    len(v.args) == 2 and isinstance(v.args[0], ast.Constant) and v.args[0].value == "run":
                run_default = origin(v.args[1], imp)
    if run_default is None:
        raise WiringError(rel + ": default run function not recognised")
    passed = False
    for n in ast.walk(f):
        if isinstance(n, ast.Call) and origin(n.func, imp).endswith("init_time_series") and \
                any(kw.arg == "run" and isinstance(kw.value, ast.Name) and kw.value.id == "run" for kw in n.keywords):
            passed = True
    F.append(("ts.run_default", run_default))
    F.append(("ts.run_passed_on", "yes" if passed else "no"))
    errs = names_of_tuple(subscript_assign(f, "ts_variables", "errors"), imp)
    F.append(("ts.errors", ",".join(errs)))
    # pf_not_converged raises PipeflowNotConverged unless continue_on_divergence
    g = func(t, "pf_not_converged", rel)
    raises = [origin(n.exc.func if isinstance(n.exc, ast.Call) else n.exc, imp)
              for n in ast.walk(g) if isinstance(n, ast.Raise) and n.exc is not None]
    F.append(("ts.pf_not_converged_raises", ",".join(raises)))
    # run_loop: one for loop over ts_variables["time_steps"], one unconditional run_time_step(net, time_step, ...)
    g = func(t, "run_loop", rel)
    loops = [n for n in g.body if isinstance(n, ast.For)]
    if len(loops) != 1 or len([n for n in ast.walk(g) if isinstance(n, (ast.For, ast.While))]) != 1:
        raise WiringError("run_loop: expected exactly one loop")
    lp = loops[0]
    it = lp.iter
    if isinstance(it, ast.Call) and isinstance(it.func, ast.Name) and it.func.id == "enumerate":
        it = it.args[0]
        tgt = lp.target.elts[1].id
    else:
        tgt = lp.target.id
    if not (isinstance(it, ast.Subscript) and isinstance(it.value, ast.Name) and it.value.id == "ts_variables"
            and isinstance(it.slice, ast.Constant) and it.slice.value == "time_steps"):
        raise WiringError("run_loop does not iterate ts_variables['time_steps']")
    calls = [n for n in lp.body if isinstance(n, ast.Expr) and isinstance(n.value, ast.Call)
             and origin(n.value.func, imp).endswith("run_time_step")]
    nested = [n for n in ast.walk(lp) if isinstance(n, ast.Call) and isinstance(n.func, ast.Name)
              and n.func.id == "run_time_step"]
    if len(calls) != 1 or len(nested) != 1:
        raise WiringError("run_loop: run_time_step is not called exactly once, unconditionally, per step")
    c = calls[0].value
    ok = len(c.args) >= 3 and isinstance(c.args[1], ast.Name) and c.args[1].id == tgt and \
        isinstance(c.args[2], ast.Name) and c.args[2].id == "ts_variables"
    F.append(("ts.run_loop", "each-step-once-in-order" if ok else "other"))
    F.append(("ts.run_time_step_origin", origin(c.func, imp)))
    kwn = g.args.kwarg.arg if g.args.kwarg else None
    F.append(("ts.run_loop_forwards_kwargs", "forwards-kwargs" if kwn and any(
        kw.arg is None and isinstance(kw.value, ast.Name) and kw.value.id == kwn for kw in c.keywords)
        else "does-not-forward"))
    if any(isinstance(n, (ast.Break, ast.Continue, ast.Return, ast.Try)) for n in ast.walk(lp)):
        raise WiringError("run_loop: break/continue/return/try inside the loop")
    # run_timeseries: init_time_series then run_loop
    g = func(t, "run_timeseries", rel)
    order = [origin(n.func, imp) for n in ast.walk(g) if isinstance(n, ast.Call) and isinstance(n.func, ast.Name)
             and n.func.id in ("init_time_series", "run_loop")]
    F.append(("ts.run_timeseries_calls", ",".join(sorted(order))))
    # ---- control/run_control.py
    rel = "control/run_control.py"
    t = parse(rel, src)
    imp = imports(t)
    f = func(t, "prepare_run_ctrl", rel)
    F.append(("ctrl.run", origin(subscript_assign(f, "ctrl_variables", "run"), imp)))
    F.append(("ctrl.errors", ",".join(names_of_tuple(subscript_assign(f, "ctrl_variables", "errors"), imp))))
    # errors assigned unconditionally (top level of the function)
    top = [n for n in f.body if isinstance(n, ast.Assign) and isinstance(n.targets[0], ast.Subscript)
           and isinstance(n.targets[0].slice, ast.Constant) and n.targets[0].slice.value == "errors"]
    F.append(("ctrl.errors_unconditional", "yes" if len(top) == 1 else "no"))
    # ---- multinet/control/run_control_multinet.py
    rel = "multinet/control/run_control_multinet.py"
    t = parse(rel, src)
    imp = imports(t)
    f = func(t, "prepare_ctrl_variables_for_net", rel)
    per_net = None
    for n in ast.walk(f):
        if isinstance(n, ast.If) and isinstance(n.test, ast.Call) and isinstance(n.test.func, ast.Name) and \
                n.test.func.id == "isinstance" and origin(n.test.args[1], imp).endswith("pandapipesNet"):
            for m in n.body:
                if isinstance(m, ast.Assign) and isinstance(m.value, ast.Call):
                    per_net = origin(m.value.func, imp)
    if per_net is None:
        raise WiringError(rel + ": pandapipesNet branch not recognised")
    F.append(("multinet.ctrl.per_pandapipes_net", per_net))
    for key in ("run", "errors"):
        ok = False
        for n in ast.walk(f):
            if isinstance(n, ast.Assign) and isinstance(n.targets[0], ast.Subscript) and \
                    isinstance(n.targets[0].slice, ast.Constant) and n.targets[0].slice.value == key:
                v = n.value
                if isinstance(v, ast.Call) and isinstance(v.func, ast.Attribute) and v.func.attr == "get" and \
                        isinstance(v.args[0], ast.Constant) and v.args[0].value == key and \
                        isinstance(v.args[1], ast.Subscript) and isinstance(v.args[1].value, ast.Name) and \
                        v.args[1].value.id == "ctrl_variables_net" and v.args[1].slice.value == key:
                    ok = True
        F.append(("multinet.ctrl.%s_default_from_net_type" % key, "yes" if ok else "no"))
    # the caller's solver options (**kwargs) reach every calculation: initial run, recalculation after the controllers
    def forwards(fname, callee_suffixes):
        g = func(t, fname, rel)
        if g.args.kwarg is None:
            return "no-kwargs"
        kwn = g.args.kwarg.arg
        def oname(f):
            try:
                return origin(f, imp)
            except WiringError:
                return ""
        calls = [n for n in ast.walk(g) if isinstance(n, ast.Call) and any(
            oname(n.func).endswith(sfx) for sfx in callee_suffixes)]
        if not calls:
            return "callee-not-found"
        ok = all(any(kw.arg is None and isinstance(kw.value, ast.Name) and kw.value.id == kwn for kw in c.keywords)
                 for c in calls)
        # the kwargs name must not be rebound to something else before
        rebound = any(isinstance(n, ast.Assign) and any(isinstance(x, ast.Name) and x.id == kwn for x in n.targets)
                      for n in ast.walk(g))
        return "forwards-kwargs" if ok and not rebound else "does-not-forward"
    F.append(("multinet.ctrl.evaluate_forwards_kwargs", forwards("_evaluate_multinet", ["_evaluate_net"])))
    F.append(("multinet.ctrl.initialization_forwards_kwargs",
              forwards("net_initialization_multinet", ["net_initialization"])))
    F.append(("multinet.ctrl.run_control_forwards_kwargs",
              forwards("run_control", ["control_implementation", "net_initialization_multinet"])))
    # _relevant_nets: every net named by a multinet controller of the level is recalculated
    g = func(t, "_relevant_nets", rel)
    shape = "other"
    for n in ast.walk(g):
        if isinstance(n, ast.Assign) and len(n.targets) == 1 and isinstance(n.targets[0], ast.Name) and \
                isinstance(n.value, ast.ListComp):
            e = n.value.elt
            if isinstance(e, ast.Call) and isinstance(e.func, ast.Attribute) and e.func.attr == "get_all_net_names" \
                    and not e.args and len(n.value.generators) == 1 and not n.value.generators[0].ifs:
                lst = n.targets[0].id
                used = [m for m in ast.walk(g) if isinstance(m, ast.Compare) and len(m.ops) == 1 and
                        isinstance(m.ops[0], ast.In) and isinstance(m.comparators[0], ast.Name) and
                        m.comparators[0].id == lst]
                shape = "all-nets-named-by-the-controllers" if used else "list-not-used"
    F.append(("multinet.ctrl.relevant_nets", shape))
    g = func(t, "prepare_run_ctrl", rel)
    F.append(("multinet.ctrl.errors", ",".join(names_of_tuple(subscript_assign(g, "ctrl_variables", "errors"), imp))))
    # ---- multinet/timeseries/run_time_series_multinet.py
    rel = "multinet/timeseries/run_time_series_multinet.py"
    t = parse(rel, src)
    imp = imports(t)
    f = func(t, "init_time_series", rel)
    prep = [origin(n.func, imp) for n in ast.walk(f) if isinstance(n, ast.Call) and isinstance(n.func, ast.Name)
            and n.func.id == "prepare_run_ctrl"]
    F.append(("multinet.ts.prepare", ",".join(prep)))
    F.append(("multinet.ts.run_loop_origin", imp.get("run_loop", "?")))
    return F


def generate(src=None):
    F = facts(src)
    L = ["(* GENERATED by tools/translate/tswiring.py from the pandapipes sources - do not edit *)",
         "From Coq Require Import String List.", "Import ListNotations.", "Open Scope string_scope.", "",
         "Definition wiring : list (string * string) := ["]
    L.append(";\n".join("  (%s, %s)" % (cstr(a), cstr(b)) for a, b in F))
    L.append("].")
    return "\n".join(L) + "\n"


if __name__ == "__main__":
    print(generate(sys.argv[1] if len(sys.argv) > 1 else None))
