"""T-tie for C16: regenerate Gen/CreateSigs.v from pandapipes/create.py.

For every public `create_*` element function the translator extracts (fail-closed, Python ast):
  * the signature: parameter order and literal defaults,
  * the table it writes (`_set_entries(net, "<table>", ...)` / `_set_multiple_entries`), single / bulk,
  * the columns it writes and the expression feeding each (parameter, bool(parameter), None, other),
  * the reference columns (junction references by column name, valve.element by `et`, std_type) and
    whether the feeding parameter is covered by a recognised existence check *before the first write*,
  * ext-grid-like type inference (`_auto_ext_grid_type(s)`),
  * the order of events (check / raise / write): `late` = a `raise` statement or a second write follows
    the first write (a failure there leaves a partially created element).
Anything unexpected (two row writers, unknown column expression, a *junction* word in an unknown position,
a write form that is not recognised) raises -> broken obligation.
"""
import ast
import os
import re
import sys

sys.path.insert(0, os.path.dirname(os.path.dirname(os.path.abspath(__file__))))
from vlib import SRC, cstr, cbool, clist  # noqa: E402

NOT_ELEMENT = {"create_empty_network", "create_fluid_from_lib"}
JUNCTION_COL = re.compile(r"^(from_|to_|return_|flow_|controlled_)?junction$")
NON_REF_PARAMS = {"nr_junctions"}
CHECK_FNS = {
    # name -> positions (0-based, incl. net) of the arguments that are checked junction references
    "_check_junction_element": [1], "_check_multiple_junction_elements": [1],
    "_check_branch": [3, 4], "_check_branches": [1, 2],
}
INDEX_FNS = {"_get_index_with_check", "_get_multiple_index_with_check"}
WRITE_FNS = {"_set_entries", "_set_multiple_entries", "create_pump_std_type", "_add_multiple_branch_geodata"}
EG_FNS = {"_auto_ext_grid_type", "_auto_ext_grid_types"}
BENIGN_CALLS = {"add_new_component", "bool", "dict", "zip", "len", "isinstance", "hasattr", "any", "list"}
REQUIRED = "<required>"


class Unsupported(Exception):
    pass


def norm_value(v):
    """canonical, dtype-free encoding of a cell / argument / default (shared by translator, harness and Coq cases):
    missing (None / NaN) -> null, bools -> true / false, integral numbers -> the integer, other floats -> repr,
    strings -> s:<text>"""
    import math
    if v is None:
        return "null"
    t = type(v).__name__
    if isinstance(v, bool) or t in ("bool_", "bool"):
        return "true" if bool(v) else "false"
    if isinstance(v, int) or "int" in t:
        return str(int(v))
    if isinstance(v, float) or "float" in t:
        f = float(v)
        if math.isnan(f):
            return "null"
        if math.isinf(f):
            return "inf" if f > 0 else "-inf"
        return str(int(f)) if f.is_integer() and abs(f) < 1e15 else repr(f)
    if isinstance(v, str):
        return "s:" + v
    raise Unsupported("value %r has no canonical encoding" % (v,))


def norm_default(rep):
    if rep == REQUIRED:
        return None
    if rep == "np.inf":
        return "inf"
    return norm_value(ast.literal_eval(rep))


def reassigned_params(fn, names):
    """parameters that are assigned in the body (the column then holds a derived value), except inside
    `if <...kwargs...>:` blocks (deprecated keywords the harness never passes)"""
    out = set()

    def visit(stmts, in_kw):
        for st in stmts:
            if isinstance(st, (ast.Assign, ast.AugAssign, ast.AnnAssign)):
                targets = st.targets if isinstance(st, ast.Assign) else [st.target]
                for t in targets:
                    for n in ast.walk(t):
                        if isinstance(n, ast.Name) and n.id in names and isinstance(t, (ast.Name, ast.Tuple)) and not in_kw:
                            out.add(n.id)
            elif isinstance(st, ast.If):
                kw = in_kw or "kwargs" in ast.unparse(st.test)
                visit(st.body, kw)
                visit(st.orelse, in_kw)
            elif isinstance(st, (ast.For, ast.While, ast.With, ast.Try)):
                for fld in ("body", "orelse", "finalbody"):
                    visit(getattr(st, fld, []), in_kw)
                for n in ast.walk(st.target) if isinstance(st, ast.For) else []:
                    if isinstance(n, ast.Name) and n.id in names:
                        out.add(n.id)
    visit(fn.body, False)
    return out


def _root_name(node):
    while isinstance(node, (ast.Subscript, ast.Attribute, ast.Call)):
        node = node.value if not isinstance(node, ast.Call) else node.func
    return node.id if isinstance(node, ast.Name) else None


def _call_name(call):
    f = call.func
    if isinstance(f, ast.Name):
        return f.id
    if isinstance(f, ast.Attribute):
        return _root_name(f) + "." + f.attr if _root_name(f) else f.attr
    return None


def _default_repr(node):
    if node is None:
        return REQUIRED
    try:
        return repr(ast.literal_eval(node))
    except Exception:
        src = ast.unparse(node)
        if src in ("np.inf",):
            return src
        raise Unsupported("default %r is not a literal" % src)


def _col_source(node):
    """expression feeding a column -> ('param', name) | ('bool', name) | ('none',) | ('expr', text)"""
    if isinstance(node, ast.Name):
        return ("param", node.id)
    if isinstance(node, ast.Call) and isinstance(node.func, ast.Name) and node.func.id == "bool" and \
            len(node.args) == 1 and isinstance(node.args[0], ast.Name):
        return ("bool", node.args[0].id)
    if isinstance(node, ast.Constant) and node.value is None:
        return ("none",)
    if isinstance(node, ast.Subscript) and isinstance(node.value, ast.Name):
        return ("expr", ast.unparse(node))
    raise Unsupported("column expression %s not understood" % ast.unparse(node))


def _events(fn):
    """source-ordered events of the function body"""
    ev = []

    def visit_stmt(st):
        if isinstance(st, ast.Raise):
            ev.append(("raise", st.lineno, ast.unparse(st.exc)[:60] if st.exc else ""))
            return
        if isinstance(st, (ast.Assign, ast.AugAssign, ast.AnnAssign)):
            targets = st.targets if isinstance(st, ast.Assign) else [st.target]
            visit_expr(st.value)
            for t in targets:
                if isinstance(t, (ast.Subscript, ast.Attribute)) and _root_name(t) == "net":
                    ev.append(("write", st.lineno, ast.unparse(t)[:60]))
            return
        if isinstance(st, ast.Delete):
            for t in st.targets:
                if _root_name(t) == "net":
                    raise Unsupported("del on net at line %d" % st.lineno)
            return
        if isinstance(st, ast.If):
            visit_expr(st.test)
            for s in st.body:
                visit_stmt(s)
            for s in st.orelse:
                visit_stmt(s)
            return
        if isinstance(st, ast.For):
            visit_expr(st.iter)
            for s in st.body + st.orelse:
                visit_stmt(s)
            return
        if isinstance(st, ast.Return):
            if st.value is not None:
                visit_expr(st.value)
                if not (isinstance(st.value, ast.Name) and st.value.id == "index"):
                    ev.append(("return_other", st.lineno, ast.unparse(st.value)[:40]))
            return
        if isinstance(st, ast.Expr):
            visit_expr(st.value)
            return
        if isinstance(st, (ast.Import, ast.ImportFrom, ast.Pass)):
            return
        raise Unsupported("statement %s at line %d" % (type(st).__name__, st.lineno))

    def visit_expr(e):
        for node in ast.walk(e):
            if isinstance(node, ast.Call):
                nm = _call_name(node)
                if nm in CHECK_FNS or nm in ("_check_element", "_check_multiple_elements", "_check_std_type"):
                    ev.append(("check", node.lineno, nm, node))
                elif nm in INDEX_FNS:
                    ev.append(("index", node.lineno, nm, node))
                elif nm in EG_FNS:
                    ev.append(("eg", node.lineno, nm, node))
                elif nm in WRITE_FNS:
                    ev.append(("write", node.lineno, nm, node))
                elif nm == "check_pressure_controllability":
                    ev.append(("precond", node.lineno, nm, node))
    for s in fn.body:
        visit_stmt(s)
    ev.sort(key=lambda x: x[1])
    return ev


def _entries_of_writer(fn, call):
    """columns written by the row writer call: handles **dict(zip(cols, vals)), **v (dict literal), keywords"""
    assigns = {}
    for node in ast.walk(fn):
        if isinstance(node, ast.Assign) and len(node.targets) == 1 and isinstance(node.targets[0], ast.Name):
            assigns.setdefault(node.targets[0].id, []).append(node.value)
    cols = []
    has_kwargs = False
    for kw in call.keywords:
        if kw.arg is not None:
            if kw.arg in ("preserve_dtypes", "defaults_to_fill"):
                raise Unsupported("row writer called with %s" % kw.arg)
            cols.append((kw.arg, _col_source(kw.value)))
            continue
        v = kw.value
        if isinstance(v, ast.Name) and v.id == "kwargs":
            has_kwargs = True
        elif isinstance(v, ast.Name) and v.id in assigns:
            vals = assigns[v.id]
            if len(vals) != 1 or not isinstance(vals[0], ast.Dict):
                raise Unsupported("**%s is not a single dict literal" % v.id)
            for k, x in zip(vals[0].keys, vals[0].values):
                if not (isinstance(k, ast.Constant) and isinstance(k.value, str)):
                    raise Unsupported("non-literal column name")
                cols.append((k.value, _col_source(x)))
        elif isinstance(v, ast.Call) and _call_name(v) == "dict" and len(v.args) == 1 and \
                isinstance(v.args[0], ast.Call) and _call_name(v.args[0]) == "zip":
            a, b = v.args[0].args
            la, lb = assigns.get(a.id, []), assigns.get(b.id, [])
            if len(la) != 1 or len(lb) != 1 or not isinstance(la[0], ast.List) or not isinstance(lb[0], ast.List) \
                    or len(la[0].elts) != len(lb[0].elts):
                raise Unsupported("dict(zip(cols, vals)) with non-literal lists")
            for k, x in zip(la[0].elts, lb[0].elts):
                cols.append((k.value, _col_source(x)))
        else:
            raise Unsupported("row writer argument **%s" % ast.unparse(v))
    names = [c for c, _ in cols]
    if len(set(names)) != len(names):
        raise Unsupported("column written twice")
    return cols, has_kwargs


def _valve_element_checked(fn, param, bulk, first_write_line):
    """the et-dependent existence check of valve.element"""
    src_ok = False
    if not bulk:
        for node in ast.walk(fn):
            if isinstance(node, ast.If) and node.lineno < first_write_line and \
                    ast.unparse(node.test).replace("'", '"') == 'et == "pi"':
                body_raise = any(isinstance(x, ast.Raise) for b in node.body for x in ast.walk(b))
                notin = any(isinstance(x, ast.Compare) and isinstance(x.ops[0], ast.NotIn) and
                            isinstance(x.left, ast.Name) and x.left.id == param for b in node.body for x in ast.walk(b))
                orelse = node.orelse
                ju = len(orelse) == 1 and isinstance(orelse[0], ast.If) and \
                    ast.unparse(orelse[0].test).replace("'", '"') == 'et == "ju"' and \
                    any(isinstance(x, ast.Call) and _call_name(x) == "_check_element" and
                        isinstance(x.args[1], ast.Name) and x.args[1].id == param
                        for b in orelse[0].body for x in ast.walk(b)) and \
                    any(isinstance(x, ast.Raise) for b in orelse[0].orelse for x in ast.walk(b))
                src_ok = body_raise and notin and ju
    else:
        alias = {param}
        for node in ast.walk(fn):
            if isinstance(node, ast.Assign) and isinstance(node.targets[0], ast.Name) and \
                    param in [n.id for n in ast.walk(node.value) if isinstance(n, ast.Name)]:
                alias.add(node.targets[0].id)
        calls = [n for n in ast.walk(fn) if isinstance(n, ast.Call) and _call_name(n) == "_check_multiple_elements"
                 and n.lineno < first_write_line and
                 any(isinstance(x, ast.Name) and x.id in alias for x in ast.walk(n.args[1])) and
                 any(isinstance(a, ast.Starred) for a in n.args)]
        raises = [n for n in ast.walk(fn) if isinstance(n, ast.Raise) and n.lineno < first_write_line
                  and "not implemented" in ast.unparse(n)]
        src_ok = bool(calls) and bool(raises)
    return src_ok


def analyse_function(fn):
    a = fn.args
    if a.vararg or a.kwonlyargs or a.posonlyargs:
        raise Unsupported("unsupported parameter kinds in %s" % fn.name)
    names = [x.arg for x in a.args]
    if names[0] != "net":
        raise Unsupported("first parameter of %s is not net" % fn.name)
    defaults = [None] * (len(names) - len(a.defaults)) + list(a.defaults)
    params = [(n, _default_repr(d)) for n, d in zip(names[1:], defaults[1:])]
    ev = _events(fn)
    writers = [e for e in ev if e[0] == "write" and len(e) == 4 and e[2] in ("_set_entries", "_set_multiple_entries")]
    if len(writers) != 1:
        raise Unsupported("%s: %d row writers" % (fn.name, len(writers)))
    w = writers[0][3]
    bulk = writers[0][2] == "_set_multiple_entries"
    if not (isinstance(w.args[0], ast.Name) and w.args[0].id == "net" and isinstance(w.args[1], ast.Constant)
            and isinstance(w.args[2], ast.Name) and w.args[2].id == "index" and len(w.args) == 3):
        raise Unsupported("%s: row writer call shape" % fn.name)
    table = w.args[1].value
    cols, has_kwargs = _entries_of_writer(fn, w)
    if has_kwargs != (a.kwarg is not None):
        raise Unsupported("%s: **kwargs not forwarded to the row writer" % fn.name)
    write_lines = [e[1] for e in ev if e[0] == "write"]
    first_write = min(write_lines)
    # index check
    idx = [e for e in ev if e[0] == "index"]
    if len(idx) != 1 or idx[0][1] > first_write or idx[0][3].args[1].value != table or \
            (idx[0][2] == "_get_multiple_index_with_check") != bulk:
        raise Unsupported("%s: index check missing / after write / other table" % fn.name)
    # checked junction parameters (before first write)
    checked = set()
    std_checked = {}
    for e in ev:
        if e[0] != "check" or e[1] > first_write:
            continue
        nm, call = e[2], e[3]
        if nm in CHECK_FNS:
            for p in CHECK_FNS[nm]:
                arg = call.args[p]
                if not isinstance(arg, ast.Name):
                    raise Unsupported("%s: check argument %s" % (fn.name, ast.unparse(arg)))
                checked.add(arg.id)
        elif nm in ("_check_element", "_check_multiple_elements"):
            kinds = [k.value.value for k in call.keywords if k.arg == "element"] + \
                    [x.value for x in call.args[2:3] if isinstance(x, ast.Constant)]
            if kinds == ["junction"] and isinstance(call.args[1], ast.Name):
                checked.add(call.args[1].id)
        elif nm == "_check_std_type":
            tgt = call.args[1]
            if isinstance(tgt, ast.Name) and isinstance(call.args[2], ast.Constant):
                std_checked[tgt.id] = call.args[2].value
            else:
                raise Unsupported("%s: _check_std_type arguments" % fn.name)
    # in create_pipes the scalar and the iterable branch check `std_type` resp. each `s in std_type`
    for node in ast.walk(fn):
        if isinstance(node, ast.For) and isinstance(node.target, ast.Name) and node.target.id in std_checked and \
                isinstance(node.iter, ast.Name):
            std_checked[node.iter.id] = std_checked[node.target.id]
    refcols, std = [], None
    for col, src in cols:
        if JUNCTION_COL.match(col):
            if src[0] != "param":
                raise Unsupported("%s: junction column %s fed by %r" % (fn.name, col, src))
            refcols.append({"col": col, "param": src[1], "tsel": "junction", "checked": src[1] in checked})
        elif "junction" in col:
            raise Unsupported("%s: column %s looks like a junction reference" % (fn.name, col))
        elif col == "element":
            if table != "valve" or src[0] != "param":
                raise Unsupported("%s: element column outside valve" % fn.name)
            refcols.append({"col": col, "param": src[1], "tsel": "by_et",
                            "checked": _valve_element_checked(fn, src[1], bulk, first_write)})
        elif col == "std_type":
            if src[0] == "param":
                stab = std_checked.get(src[1])
                std = {"col": col, "param": src[1], "table": stab or table, "checked": stab is not None}
            elif src[0] != "none":
                raise Unsupported("%s: std_type fed by %r" % (fn.name, src))
    used = {r["param"] for r in refcols}
    for p, _ in params:
        if ("junction" in p or p in ("element", "elements")) and p not in used and p not in NON_REF_PARAMS:
            raise Unsupported("%s: parameter %s looks like a reference but feeds no reference column" % (fn.name, p))
    eg = None
    egs = [e for e in ev if e[0] == "eg"]
    if egs:
        if len(egs) != 1 or egs[0][1] > first_write:
            raise Unsupported("%s: ext-grid type inference after write" % fn.name)
        c = egs[0][3]
        if not all(isinstance(x, ast.Name) for x in c.args[:3]):
            raise Unsupported("%s: ext-grid type arguments" % fn.name)
        eg = {"p": c.args[0].id, "t": c.args[1].id, "type": c.args[2].id, "vector": egs[0][2].endswith("s")}
    row_line = writers[0][1]
    late_raise = [e for e in ev if e[0] == "raise" and e[1] > first_write]
    late_write = [e for e in ev if e[0] == "write" and e[1] > row_line]
    pre_write = [e for e in ev if e[0] == "write" and e[1] < row_line]
    late_check = [e for e in ev if e[0] in ("check", "index", "eg", "precond") and e[1] > first_write]
    # a statement after the row write that uses no argument of the call (only `net`, `index` and locals built
    # BEFORE the write, e.g. a geodata frame validated up front) cannot fail on the caller's input: "prepared"
    pnames = {p for p, _ in params} - {"index"}
    prepared = []
    for st in fn.body:
        if st.lineno > row_line and not isinstance(st, ast.Return):
            used = {n.id for n in ast.walk(st) if isinstance(n, ast.Name)}
            if not (used & pnames) and "kwargs" not in used:
                prepared.append((st.lineno, st.end_lineno))

    def is_prepared(line):
        return any(a <= line <= b for a, b in prepared)
    late_write = [e for e in late_write if not is_prepared(e[1])]
    late_check = [e for e in late_check if not is_prepared(e[1])]
    silent = [e for e in ev if e[0] == "return_other"]
    late_code = []
    for st in fn.body:
        if st.lineno <= row_line or isinstance(st, ast.Return) or is_prepared(st.lineno):
            continue
        if isinstance(st, ast.If) and not st.orelse and all(
                isinstance(b, ast.Expr) and isinstance(b.value, ast.Call) and (_call_name(b.value) or "").startswith("logger.")
                for b in st.body) and all(isinstance(x, (ast.Name, ast.Compare, ast.BoolOp, ast.And, ast.Or, ast.NotEq, ast.Eq,
                                                          ast.Load)) for x in ast.walk(st.test)):
            continue        # `if a != b and ...: logger.warning(...)` cannot fail
        if isinstance(st, ast.If) and any(e[1] >= st.lineno and e[1] <= st.end_lineno for e in late_raise + late_write):
            continue        # already counted as late raise / late write
        late_code.append("line %d: %s" % (st.lineno, ast.unparse(st).split("\n")[0][:60]))
    # value columns: which argument (or constant) lands in which column
    reassigned = reassigned_params(fn, {p for p, _ in params})
    colsrc = []
    for col, src in cols:
        if src[0] in ("param", "bool"):
            if src[1] not in [p for p, _ in params]:
                kind = ("derived",)                      # a local (index, type inferred ...) - not an argument
            elif src[1] in reassigned or (eg and src[1] == eg["type"]):
                kind = ("derived",)
            else:
                kind = ("param" if src[0] == "param" else "bool", src[1])
        elif src[0] == "none":
            kind = ("none",)
        else:
            kind = ("derived",)
        colsrc.append((col, kind))
    # is the geodata argument evaluated by a call / subscript before the row write (then malformed geodata is an
    # ordinary early rejection), or only afterwards (then it is a late failure)?
    geodata_early = False
    for st in ast.walk(fn):
        node = st.value if isinstance(st, ast.Assign) else st
        if isinstance(st, (ast.Call, ast.Subscript, ast.Assign)) and getattr(st, "lineno", 10 ** 9) < row_line and \
                any(isinstance(n, ast.Name) and n.id == "geodata" for n in ast.walk(node)) and \
                not (isinstance(st, ast.Call) and _call_name(st) in ("isinstance", "hasattr")):
            geodata_early = True
    # bulk junctions have no per-row list: is the length of a passed index compared with nr_junctions before writing?
    index_len_check = any(isinstance(n, ast.Compare) and n.lineno < first_write and "len(index)" in ast.unparse(n)
                          and "nr_junctions" in ast.unparse(n) for n in ast.walk(fn))
    return {"fn": fn.name, "table": table, "bulk": bulk, "params": params, "kwargs": has_kwargs,
            "index_len_check": index_len_check, "geodata_early": geodata_early, "colsrc": colsrc, "reassigned": sorted(reassigned),
            "ndefaults": [(p, norm_default(d)) for p, d in params if norm_default(d) is not None],
            "columns": [(c, s) for c, s in cols], "refcols": refcols, "std": std, "eg": eg,
            "late_raise": [e[2] for e in late_raise], "late_write": [e[2] for e in late_write], "pre_write": [e[2] for e in pre_write],
            "late_check": [e[2] for e in late_check], "late_code": late_code, "silent_return": [e[2] for e in silent],
            "precond": [e[2] for e in ev if e[0] == "precond"],
            "early_raise": [e[2] for e in ev if e[0] == "raise" and e[1] < first_write]}


def extract(path=None):
    path = path or os.path.join(SRC, "create.py")
    tree = ast.parse(open(path).read())
    sigs = []
    for node in tree.body:
        if isinstance(node, ast.FunctionDef) and node.name.startswith("create_") and node.name not in NOT_ELEMENT:
            sigs.append(analyse_function(node))
    if len(sigs) < 20:
        raise Unsupported("only %d create functions recognised" % len(sigs))
    return sigs


def twin_of(name, all_names):
    """bulk name -> single twin"""
    cands = {"create_junctions": "create_junction", "create_sinks": "create_sink", "create_sources": "create_source",
             "create_ext_grids": "create_ext_grid", "create_pipes": "create_pipe",
             "create_pipes_from_parameters": "create_pipe_from_parameters", "create_valves": "create_valve",
             "create_pressure_controls": "create_pressure_control", "create_flow_controls": "create_flow_control",
             "create_heat_exchangers": "create_heat_exchanger", "create_heat_consumers": "create_heat_consumer"}
    t = cands.get(name)
    if t is None or t not in all_names:
        raise Unsupported("bulk function %s has no single twin" % name)
    return t


def singular(p):
    return {"from_junctions": "from_junction", "to_junctions": "to_junction", "junctions": "junction",
            "elements": "element", "controlled_junctions": "controlled_junction"}.get(p, p)


def coq_schema(s):
    rc = clist(["{| rc_col := %s; rc_tsel := %s; rc_checked := %s |}" %
                (cstr(r["col"]), "ByEt" if r["tsel"] == "by_et" else "Fixed TJ", cbool(r["checked"]))
                for r in s["refcols"]])
    std = "None" if s["std"] is None else "(Some (%s, %s))" % (cstr(s["std"]["table"]), cbool(s["std"]["checked"]))
    late = bool(s["late_raise"] or s["late_write"] or s["late_check"] or s["late_code"])
    def csrc(k):
        return {"param": "FromParam %s", "bool": "BoolOf %s"}[k[0]] % cstr(k[1]) if k[0] in ("param", "bool") else \
            ("ConstNone" if k[0] == "none" else "Derived")
    return ("{| s_fn := %s; s_table := %s; s_bulk := %s; s_refcols := %s; s_std := %s; s_eg := %s; s_late := %s;\n"
            "     s_defaults := %s;\n     s_cols := %s;\n     s_ndefaults := %s |}" %
            (cstr(s["fn"]), cstr(s["table"]), cbool(s["bulk"]), rc, std, cbool(s["eg"] is not None), cbool(late),
             clist(["(%s, %s)" % (cstr(singular(p)), cstr(d)) for p, d in s["params"] if p != "nr_junctions"]),
             clist(["(%s, %s)" % (cstr(c), csrc(k)) for c, k in s["colsrc"]]),
             clist(["(%s, %s)" % (cstr(p), cstr(d)) for p, d in s["ndefaults"]])))


def generate(path=None):
    sigs = extract(path)
    names = [s["fn"] for s in sigs]
    lines = ["(* GENERATED by tools/translate/createsigs.py from pandapipes/create.py - do not edit *)",
             "From Coq Require Import String List ZArith Bool.", "From PP Require Import C16.Model.",
             "Import ListNotations.", "Open Scope string_scope.", ""]
    for s in sigs:
        lines.append("Definition sig_%s : schema :=\n  %s.\n" % (s["fn"], coq_schema(s)))
    lines.append("Definition all_sigs : list schema :=\n  %s.\n" % clist(["sig_" + n for n in names]))
    twins = [(n, twin_of(n, names)) for n in names if [s for s in sigs if s["fn"] == n][0]["bulk"]]
    lines.append("Definition twins : list (schema * schema) :=\n  %s.\n" %
                 clist(["(sig_%s, sig_%s)" % (b, t) for b, t in twins]))
    lines.append("Definition std_param_twins : list (schema * schema) :=\n"
                 "  [(sig_create_pipe, sig_create_pipe_from_parameters); (sig_create_pipes, sig_create_pipes_from_parameters)].\n")
    lines.append("Definition index_len_checked : list string :=\n  %s.\n" %
                 clist([cstr(x["fn"]) for x in sigs if x["index_len_check"]]))
    return "\n".join(lines), sigs, twins


if __name__ == "__main__":
    import json
    text, sigs, twins = generate()
    if "--json" in sys.argv:
        print(json.dumps(sigs, indent=1, default=str))
    else:
        print(text)
