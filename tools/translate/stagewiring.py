"""T-tie for C05: regenerate Gen/StageWiring.v from pandapipes/pipeflow.py.

Per stage function (hydraulics, heat_transfer, bidirectional):
  * the variable names, tolerance options, pit names and iteration option handed to newton_raphson,
  * the (new, old) pairs returned by the stage's solve function: for each position the pit, the column
    and the row selection the new vector is read from, the same for the `.copy()` behind the old
    vector, and the entry of `filtered` at that position,
  * the skeleton of essential statements of the stage function (reset of net.converged, Newton call,
    hyd_flag, reruns, internal-data handling, raise unless converged, extraction to the pit);
plus the statement skeleton of pipeflow() and of rerun_hydraulics / rerun_heat_transfer.

Fail-closed: every top-level statement of the functions read must have one of the shapes recognised
below; anything else raises TranslationError (-> broken obligation).
"""
import ast
import os
import sys

sys.path.insert(0, os.path.dirname(os.path.dirname(os.path.abspath(__file__))))
from vlib import SRC, cstr, clist  # noqa: E402


class TranslationError(Exception):
    pass


def _fail(node, why):
    raise TranslationError("pipeflow.py line %s: %s: %s" % (getattr(node, "lineno", "?"), why,
                                                            ast.unparse(node)[:160] if node is not None else ""))


def _u(node):
    return ast.unparse(node)


def _is_docstring(st):
    return isinstance(st, ast.Expr) and isinstance(st.value, ast.Constant) and isinstance(st.value.value, str)


def _is_logger_call(st):
    return isinstance(st, ast.Expr) and isinstance(st.value, ast.Call) and \
        isinstance(st.value.func, ast.Attribute) and isinstance(st.value.func.value, ast.Name) and \
        st.value.func.value.id == "logger"


def _call_name(st):
    """name of a plain call statement f(...)"""
    if isinstance(st, ast.Expr) and isinstance(st.value, ast.Call) and isinstance(st.value.func, ast.Name):
        return st.value.func.id
    return None


def _const_str(node):
    if isinstance(node, ast.Constant) and isinstance(node.value, str):
        return node.value
    _fail(node, "string literal expected")


def _mode_arg(call, default=None):
    """mode of reduce_pit / extract_results_active_pit: keyword mode=... or 2nd positional"""
    if len(call.args) < 1 or _u(call.args[0]) != "net":
        _fail(call, "first argument must be net")
    for kw in call.keywords:
        if kw.arg == "mode":
            if len(call.args) != 1:
                _fail(call, "unexpected arguments")
            return _const_str(kw.value)
    if call.keywords:
        _fail(call, "unexpected keyword")
    if len(call.args) == 2:
        return _const_str(call.args[1])
    if len(call.args) == 1 and default is not None:
        return default
    _fail(call, "mode not recognised")


def _identify_token(call):
    if call.keywords or not call.args or _u(call.args[0]) != "net":
        _fail(call, "identify_active_nodes_branches: unexpected arguments")
    if len(call.args) == 1:
        return "identify_active:hydraulics"
    if len(call.args) == 2 and isinstance(call.args[1], ast.Constant) and call.args[1].value in (True, False):
        return "identify_active:hydraulics" if call.args[1].value else "identify_active:heat"
    _fail(call, "identify_active_nodes_branches: unexpected arguments")


def _only_net(call, extra=0):
    if call.keywords or len(call.args) != 1 + extra or _u(call.args[0]) != "net":
        _fail(call, "call with unexpected arguments")


# ------------------------------------------------------------------------------------------------
def parse_stage(fn):
    tokens = []
    env_tol = {}        # local name -> option name
    solver_vars = None
    nr = None
    for st in fn.body:
        if _is_docstring(st) or _is_logger_call(st):
            continue
        src = _u(st)
        name = _call_name(st)
        if src == "net.converged = False":
            tokens.append("converged=False")
        elif name == "reduce_pit":
            tokens.append("reduce_pit:" + _mode_arg(st.value, "hydraulics"))
        elif name == "identify_active_nodes_branches":
            tokens.append(_identify_token(st.value))
        elif name == "extract_results_active_pit":
            tokens.append("extract_active:" + _mode_arg(st.value, "hydraulics"))
        elif isinstance(st, ast.If) and not st.orelse and \
                _u(st.test) == "not get_net_option(net, 'reuse_internal_data') or '_internal_data' not in net" and \
                [_u(b) for b in st.body] == ["net['_internal_data'] = dict()"]:
            tokens.append("internal_data:init")
        elif isinstance(st, ast.If) and not st.orelse and _u(st.test) == "not get_net_option(net, 'reuse_internal_data')" \
                and [_u(b) for b in st.body] == ["net.pop('_internal_data', None)"]:
            tokens.append("internal_data:pop")
        elif isinstance(st, ast.If) and not st.orelse and _u(st.test) == "net.fluid.is_gas" and \
                all(_is_logger_call(b) for b in st.body):
            continue
        elif isinstance(st, ast.Assign) and _u(st.targets[0]) == "solver_vars" and len(st.targets) == 1:
            if not isinstance(st.value, ast.List):
                _fail(st, "solver_vars must be a list literal")
            if solver_vars is not None:
                _fail(st, "solver_vars assigned twice")
            solver_vars = [_const_str(e) for e in st.value.elts]
        elif isinstance(st, ast.Assign) and len(st.targets) == 1 and isinstance(st.value, ast.Call) and \
                isinstance(st.value.func, ast.Name) and st.value.func.id == "get_net_options":
            call = st.value
            if call.keywords or _u(call.args[0]) != "net":
                _fail(st, "get_net_options: unexpected arguments")
            opts = [_const_str(a) for a in call.args[1:]]
            tgt = st.targets[0]
            if not isinstance(tgt, ast.Tuple) or len(tgt.elts) != len(opts) or \
                    not all(isinstance(e, ast.Name) for e in tgt.elts):
                _fail(st, "get_net_options: targets do not match the options")
            for e, o in zip(tgt.elts, opts):
                if e.id in env_tol:
                    _fail(st, "tolerance name bound twice")
                env_tol[e.id] = o
        elif isinstance(st, ast.Assign) and len(st.targets) == 1 and isinstance(st.targets[0], ast.Name) and \
                isinstance(st.value, ast.Call) and _u(st.value.func) == "next" and len(st.value.args) == 1 and \
                isinstance(st.value.args[0], ast.Call) and _u(st.value.args[0].func) == "get_net_options":
            call = st.value.args[0]
            if call.keywords or len(call.args) != 2 or _u(call.args[0]) != "net":
                _fail(st, "next(get_net_options(net, <one option>)) expected")
            if st.targets[0].id in env_tol:
                _fail(st, "tolerance name bound twice")
            env_tol[st.targets[0].id] = _const_str(call.args[1])
        elif name == "newton_raphson":
            if nr is not None:
                _fail(st, "second newton_raphson call")
            nr = st.value
            tokens.append("newton_raphson")
        elif isinstance(st, ast.Try) and not st.orelse and not st.finalbody and len(st.handlers) == 1 and \
                len(st.body) == 1 and _call_name(st.body[0]) == "newton_raphson":
            if nr is not None:
                _fail(st, "second newton_raphson call")
            nr = st.body[0].value
            h = st.handlers[0]
            if h.type is None or _u(h.type) not in ("Exception", "BaseException") or h.name is not None:
                _fail(st, "handler around newton_raphson must be `except Exception:`")
            acts = []
            for b in h.body:
                if isinstance(b, ast.If) and not b.orelse and _u(b.test) == "not get_net_option(net, 'reuse_internal_data')" \
                        and [_u(x) for x in b.body] == ["net.pop('_internal_data', None)"]:
                    acts.append("internal_data:pop")
                elif _u(b) == "raise":
                    acts.append("raise")
                elif _is_logger_call(b):
                    continue
                else:
                    _fail(b, "statement of the handler around newton_raphson not recognised")
            tokens.append("try[newton_raphson]except[%s]" % ";".join(acts))
        elif isinstance(st, ast.If) and not st.orelse and _u(st.test) == "net.converged":
            tokens.append("if_converged[")
            for b in st.body:
                bs = _u(b)
                if bs == "set_user_pf_options(net, hyd_flag=True)":
                    tokens.append("hyd_flag=True")
                elif bs in ("rerun_hydraulics(net)", "rerun_heat_transfer(net)"):
                    tokens.append(bs[:-5])
                elif _is_logger_call(b):
                    continue
                else:
                    _fail(b, "statement under `if net.converged` not recognised")
            tokens.append("]")
        elif isinstance(st, ast.If) and not st.orelse and _u(st.test) == "not net.converged":
            body = [b for b in st.body if not _is_logger_call(b)]
            if body and isinstance(body[0], ast.Assign) and isinstance(body[0].value, ast.Constant) and \
                    isinstance(body[0].value.value, str):
                body = body[1:]
            if len(body) != 1 or not isinstance(body[0], ast.Raise) or body[0].exc is None or \
                    not isinstance(body[0].exc, ast.Call) or _u(body[0].exc.func) != "PipeflowNotConverged":
                _fail(st, "`if not net.converged` must raise PipeflowNotConverged")
            tokens.append("raise_unless_converged")
        else:
            _fail(st, "statement of stage function %s not recognised" % fn.name)
    if nr is None or solver_vars is None:
        _fail(fn, "stage %s: newton_raphson call / solver_vars not found" % fn.name)
    if nr.keywords or len(nr.args) != 7:
        _fail(nr, "newton_raphson: 7 positional arguments expected")
    a_net, a_fn, a_mode, a_vars, a_tols, a_pits, a_iter = nr.args
    if _u(a_net) != "net" or not isinstance(a_fn, ast.Name):
        _fail(nr, "newton_raphson: net / solve function")
    if isinstance(a_vars, ast.Name) and a_vars.id == "solver_vars":
        names = solver_vars
    elif isinstance(a_vars, ast.List):
        names = [_const_str(e) for e in a_vars.elts]
    else:
        _fail(nr, "newton_raphson: variable names")
    if not isinstance(a_tols, ast.List) or not all(isinstance(e, ast.Name) for e in a_tols.elts):
        _fail(nr, "newton_raphson: tolerance list of local names expected")
    tols = []
    for e in a_tols.elts:
        if e.id not in env_tol:
            _fail(nr, "tolerance %s is not bound by get_net_options" % e.id)
        tols.append(env_tol[e.id])
    if not isinstance(a_pits, ast.List):
        _fail(nr, "newton_raphson: pit name list")
    pits = [_const_str(e) for e in a_pits.elts]
    return {"name": fn.name, "solver": a_fn.id, "mode": _const_str(a_mode), "vars": names, "tols": tols,
            "pits": pits, "iter": _const_str(a_iter), "body": tokens}


# ------------------------------------------------------------------------------------------------
def _own_nodes(fn):
    """all nodes of fn's body, not descending into nested function definitions"""
    out, todo = [], list(fn.body)
    while todo:
        n = todo.pop()
        out.append(n)
        for c in ast.iter_child_nodes(n):
            if not isinstance(c, (ast.FunctionDef, ast.Lambda, ast.ClassDef)):
                todo.append(c)
    return out


def _bindings(fn):
    """name -> list of (value node, lineno) for plain single-target assignments; names bound in any other way
    (tuple targets, aug-assign, for targets, with ...) are recorded with value None"""
    b = {}
    for n in _own_nodes(fn):
        if isinstance(n, ast.Assign):
            for t in n.targets:
                if isinstance(t, ast.Name):
                    b.setdefault(t.id, []).append((n.value if len(n.targets) == 1 else None, n.lineno))
                elif isinstance(t, (ast.Tuple, ast.List)):
                    for i, e in enumerate(t.elts):
                        if isinstance(e, ast.Name):
                            b.setdefault(e.id, []).append((("tuple", i, n.value), n.lineno))
        elif isinstance(n, ast.AugAssign) and isinstance(n.target, ast.Name):
            b.setdefault(n.target.id, []).append((None, n.lineno))
        elif isinstance(n, (ast.For, ast.comprehension)):
            for e in ast.walk(n.target):
                if isinstance(e, ast.Name):
                    b.setdefault(e.id, []).append((None, getattr(n, "lineno", 0)))
        elif isinstance(n, ast.NamedExpr):
            b.setdefault(n.target.id, []).append((None, n.lineno))
    return b


def _single(b, name, node):
    if name not in b or len(b[name]) != 1 or b[name][0][0] is None:
        _fail(node, "name %s must be bound exactly once by a plain assignment" % name)
    return b[name][0]


def _pit_of(b, name, node):
    val, _ = _single(b, name, node)
    s = _u(val) if isinstance(val, ast.AST) else ""
    if s == "net['_active_pit']['branch']":
        return "branch"
    if s == "net['_active_pit']['node']":
        return "node"
    _fail(node, "%s is not net['_active_pit'][...]" % name)


def _subscript_src(b, sub):
    """X[rows, COL] with X an active pit -> (pit, COL, rows|None, X)"""
    if not isinstance(sub, ast.Subscript) or not isinstance(sub.value, ast.Name) or \
            not isinstance(sub.slice, ast.Tuple) or len(sub.slice.elts) != 2:
        _fail(sub, "pit[rows, COLUMN] expected")
    rows, col = sub.slice.elts
    if not isinstance(col, ast.Name):
        _fail(sub, "column must be a constant name")
    if isinstance(rows, ast.Slice) and rows.lower is None and rows.upper is None and rows.step is None:
        r = None
    elif isinstance(rows, ast.Name):
        r = rows.id
    else:
        _fail(sub, "row selection must be `:` or a name")
    return _pit_of(b, sub.value.id, sub), col.id, r, sub.value.id


def parse_solver(fn):
    b = _bindings(fn)
    own = _own_nodes(fn)
    rets = [n for n in own if isinstance(n, ast.Return)]
    if not rets:
        _fail(fn, "no return")
    updates = []    # (pit var, col, rows, lineno) of pit[rows, COL] -= / = ...
    for n in own:
        tgt = n.target if isinstance(n, ast.AugAssign) else (n.targets[0] if isinstance(n, ast.Assign) and
                                                                len(n.targets) == 1 else None)
        if isinstance(tgt, ast.Subscript) and isinstance(tgt.value, ast.Name) and isinstance(tgt.slice, ast.Tuple):
            try:
                pit, col, rows, var = _subscript_src(b, tgt)
                updates.append((pit, col, rows, n.lineno))
            except TranslationError:
                pass
    results = []
    for r in rets:
        if not isinstance(r.value, ast.Tuple) or len(r.value.elts) != 3:
            _fail(r, "return (results, residual, filtered) expected")
        res, _resid, filt = r.value.elts
        if isinstance(res, ast.Name):
            res = _single(b, res.id, r)[0]
        if isinstance(filt, ast.Name):
            filt = _single(b, filt.id, r)[0]
        if not isinstance(res, ast.List) or not isinstance(filt, ast.List):
            _fail(r, "result list / filtered list must be list literals")
        if len(res.elts) % 2:
            _fail(r, "odd number of result vectors")
        fl = []
        for f in filt.elts:
            if isinstance(f, ast.Constant) and f.value is None:
                fl.append(None)
            elif isinstance(f, ast.Name):
                fl.append(f.id)
            else:
                _fail(r, "entry of filtered must be None or a name")
        if len(fl) != len(res.elts) // 2:
            _fail(r, "len(filtered) != number of (new, old) pairs")
        pairs = []
        for i in range(0, len(res.elts), 2):
            new, old = res.elts[i], res.elts[i + 1]
            npit, ncol, nrows, _ = _subscript_src(b, new)
            if not isinstance(old, ast.Name):
                _fail(old, "old vector must be a local name")
            oval, oline = _single(b, old.id, old)
            if not (isinstance(oval, ast.Call) and isinstance(oval.func, ast.Attribute) and oval.func.attr == "copy"
                    and not oval.args and not oval.keywords):
                _fail(old, "old vector must be a .copy() of a pit selection")
            opit, ocol, orows, _ = _subscript_src(b, oval.func.value)
            ups = [u for u in updates if u[:3] == (npit, ncol, nrows)]
            if not ups:
                _fail(new, "no update of this pit selection found in %s" % fn.name)
            if not all(oline < u[3] for u in ups):
                _fail(old, "old copy is not taken before the update")
            pairs.append({"new": (npit, ncol, nrows), "old": (opit, ocol, orows), "filter": fl[i // 2]})
        results.append(pairs)
    for p in results[1:]:
        if p != results[0]:
            _fail(fn, "return statements of %s disagree" % fn.name)
    # a row-selection name must be bound once
    for p in results[0]:
        for nm in (p["new"][2], p["old"][2], p["filter"]):
            if nm is not None:
                _single(b, nm, fn)
    return results[0]


def parse_bidirectional_solver(fn, solvers):
    """res = res_hyd + res_heat, filtered = filter_hyd + filter_heat with the parts bound by
    `res_x, residual_x, filter_x = solve_x(net)`"""
    b = _bindings(fn)
    rets = [n for n in _own_nodes(fn) if isinstance(n, ast.Return)]
    if len(rets) != 1 or not isinstance(rets[0].value, ast.Tuple) or len(rets[0].value.elts) != 3:
        _fail(fn, "single return (res, residual, filtered) expected")
    res, _resid, filt = rets[0].value.elts

    def parts(node, idx):
        if isinstance(node, ast.Name):
            node = _single(b, node.id, fn)[0]
        if isinstance(node, tuple):
            _fail(fn, "unexpected tuple binding")
        names = []

        def flat(n):
            if isinstance(n, ast.BinOp) and isinstance(n.op, ast.Add):
                flat(n.left)
                flat(n.right)
            elif isinstance(n, ast.Name):
                names.append(n.id)
            else:
                _fail(n, "concatenation of names expected")
        flat(node)
        out = []
        for nm in names:
            val, _ = _single(b, nm, fn)
            if not (isinstance(val, tuple) and val[0] == "tuple" and val[1] == idx and isinstance(val[2], ast.Call)
                    and isinstance(val[2].func, ast.Name) and val[2].func.id in solvers and
                    _u(val[2]) == "%s(net)" % val[2].func.id):
                _fail(fn, "%s is not element %d of a solve_*(net) result" % (nm, idx))
            out.append(val[2].func.id)
        return out
    order_res, order_f = parts(res, 0), parts(filt, 2)
    if order_res != order_f or len(set(order_res)) != len(order_res):
        _fail(fn, "results and filtered are concatenated in different orders")
    # other statements must be of known kinds; follow which reduce_pit mode the active pit has when each
    # sub-solver runs and at the end (= when finalize_iteration restores a rejected step)
    cur, mode_of = None, {}
    for st in fn.body:
        if _is_docstring(st) or _is_logger_call(st) or isinstance(st, ast.Return):
            continue
        if isinstance(st, ast.Assign):
            if isinstance(st.value, ast.Call) and isinstance(st.value.func, ast.Name) and st.value.func.id in solvers:
                if cur is None:
                    _fail(st, "solve function called before any reduce_pit")
                mode_of[st.value.func.id] = cur
            continue
        if _call_name(st) == "reduce_pit":
            cur = _mode_arg(st.value, "hydraulics")
            continue
        if _call_name(st) in ("extract_results_active_pit", "identify_active_nodes_branches"):
            continue
        _fail(st, "statement of %s not recognised" % fn.name)
    pairs = []
    for s in order_res:
        if s not in mode_of:
            _fail(fn, "no reduce_pit mode known for %s" % s)
        pairs += [dict(p, reduce_mode=mode_of[s]) for p in solvers[s]]
    return pairs, cur


# ------------------------------------------------------------------------------------------------
MODE_DEFS = ["calculation_mode = get_net_option(net, 'mode')",
             "calculate_hydraulics = calculation_mode in ['hydraulics', 'sequential']",
             "calculate_heat = calculation_mode in ['heat', 'sequential']",
             "calculate_bidrect = calculation_mode == 'bidirectional'"]
DISPATCH = ("if not calculate_hydraulics | calculate_heat | calculate_bidrect:\n"
            "    raise UserWarning('No proper calculation mode chosen.')\n"
            "elif calculate_bidrect:\n    bidirectional(net)\n"
            "else:\n    if calculate_hydraulics:\n        hydraulics(net)\n"
            "    if calculate_heat:\n        heat_transfer(net)")
PLAIN = {"init_all_result_tables": "init_all_result_tables", "create_lookups": "create_lookups",
         "initialize_pit": "initialize_pit"}


def parse_pipeflow(fn):
    tokens, seen_modes = [], []
    for st in fn.body:
        if _is_docstring(st) or _is_logger_call(st):
            continue
        src, name = _u(st), _call_name(st)
        if src == "init_options(net, **kwargs)":
            tokens.append("init_options")
        elif name in PLAIN:
            _only_net(st.value)
            tokens.append(PLAIN[name])
        elif src == "net.converged = False":
            tokens.append("converged=False")
        elif src in MODE_DEFS:
            seen_modes.append(src)
        elif name == "identify_active_nodes_branches":
            tokens.append(_identify_token(st.value))
        elif isinstance(st, ast.If) and not st.orelse and _u(st.test) == "calculation_mode == 'heat'" and \
                [_u(b) for b in st.body] == ["use_given_hydraulic_results(net, sol_vec)"]:
            tokens.append("if_heat[use_given_hydraulic_results]")
        elif isinstance(st, ast.If) and src == DISPATCH:
            tokens.append("dispatch[bad_mode:raise|bidirectional:bidirectional|else:hydraulics?,heat_transfer?]")
        elif src == "extract_all_results(net, calculation_mode)":
            tokens.append("extract_all_results")
        elif isinstance(st, ast.Try) and not st.orelse and not st.finalbody and len(st.handlers) == 1 and \
                [_u(b) for b in st.body] == ["extract_all_results(net, calculation_mode)"]:
            h = st.handlers[0]
            if h.type is None or _u(h.type) not in ("Exception", "BaseException") or h.name is not None:
                _fail(st, "handler around extract_all_results must be `except Exception:`")
            acts = []
            for b in h.body:
                bs = _u(b)
                if bs == "net.converged = False":
                    acts.append("converged=False")
                elif bs == "init_all_result_tables(net)":
                    acts.append("init_all_result_tables")
                elif bs == "raise":
                    acts.append("raise")
                elif _is_logger_call(b):
                    continue
                else:
                    _fail(b, "statement of the extraction handler not recognised")
            tokens.append("try[extract_all_results]except[%s]" % ";".join(acts))
        else:
            _fail(st, "statement of pipeflow not recognised")
    if sorted(seen_modes) != sorted(MODE_DEFS):
        _fail(fn, "mode definitions of pipeflow changed")
    return tokens


def parse_rerun(fn, stage_call, mode):
    tokens = []
    for st in fn.body:
        if _is_docstring(st) or _is_logger_call(st):
            continue
        src = _u(st)
        if src == "rerun = False" or (isinstance(st, ast.Assign) and len(st.targets) == 1 and
                                      isinstance(st.targets[0], ast.Name) and st.targets[0].id != "rerun"):
            continue
        if isinstance(st, ast.For) and _u(st.iter) == "net['component_list']" and len(st.body) == 1 and \
                isinstance(st.body[0], ast.AugAssign) and _u(st.body[0].target) == "rerun" and \
                isinstance(st.body[0].op, ast.BitOr):
            continue
        if isinstance(st, ast.If) and not st.orelse and _u(st.test) == "rerun":
            tokens.append("if_rerun[")
            for b in st.body:
                nm = _call_name(b)
                if nm == "extract_results_active_pit":
                    tokens.append("extract_active:" + _mode_arg(b.value, "hydraulics"))
                elif nm == "identify_active_nodes_branches":
                    tokens.append(_identify_token(b.value))
                elif _u(b) == stage_call + "(net)":
                    tokens.append(stage_call)
                else:
                    _fail(b, "statement under `if rerun` not recognised")
            tokens.append("]")
            continue
        _fail(st, "statement of %s not recognised" % fn.name)
    return tokens


# ------------------------------------------------------------------------------------------------
def extract(path=None):
    path = path or os.path.join(SRC, "pipeflow.py")
    tree = ast.parse(open(path).read())
    fns = {n.name: n for n in tree.body if isinstance(n, ast.FunctionDef)}
    need = ["pipeflow", "hydraulics", "heat_transfer", "bidirectional", "solve_hydraulics", "solve_temperature",
            "solve_bidirectional", "rerun_hydraulics", "rerun_heat_transfer", "newton_raphson",
            "finalize_iteration", "set_damping_factor"]
    for n in need:
        if n not in fns:
            raise TranslationError("function %s not found in pipeflow.py" % n)
    solvers = {"solve_hydraulics": parse_solver(fns["solve_hydraulics"]),
               "solve_temperature": parse_solver(fns["solve_temperature"])}
    bid_pairs, bid_final = parse_bidirectional_solver(fns["solve_bidirectional"], dict(solvers))
    stages = []
    for s in ("hydraulics", "heat_transfer", "bidirectional"):
        d = parse_stage(fns[s])
        if d["solver"] == "solve_bidirectional":
            if any(t.startswith("reduce_pit:") for t in d["body"]):
                raise TranslationError("stage %s reduces the pit itself and inside its solve function" % s)
            d["pairs"], d["final_reduce_mode"] = bid_pairs, bid_final
        elif d["solver"] in solvers:
            modes = [t.split(":", 1)[1] for t in d["body"][:d["body"].index(
                [t for t in d["body"] if "newton_raphson" in t][0])] if t.startswith("reduce_pit:")]
            if len(modes) != 1:
                raise TranslationError("stage %s: exactly one reduce_pit before the Newton loop expected" % s)
            d["pairs"] = [dict(p, reduce_mode=modes[0]) for p in solvers[d["solver"]]]
            d["final_reduce_mode"] = modes[0]
        else:
            raise TranslationError("stage %s uses unknown solve function %s" % (s, d["solver"]))
        stages.append(d)
    return {"stages": stages, "pipeflow": parse_pipeflow(fns["pipeflow"]),
            "rerun_hydraulics": parse_rerun(fns["rerun_hydraulics"], "hydraulics", "hydraulics"),
            "rerun_heat_transfer": parse_rerun(fns["rerun_heat_transfer"], "heat_transfer", "heat_transfer")}


def _copt(x):
    return "None" if x is None else "(Some %s)" % cstr(x)


def _cpair(p):
    (np_, nc, nr), (op, oc, orr) = p["new"], p["old"]
    return ("{| ps_new_pit := %s; ps_new_col := %s; ps_new_rows := %s; ps_old_pit := %s; ps_old_col := %s; "
            "ps_old_rows := %s; ps_filter := %s; ps_reduce_mode := %s |}"
            % (cstr(np_), cstr(nc), _copt(nr), cstr(op), cstr(oc), _copt(orr), _copt(p["filter"]), cstr(p["reduce_mode"])))


def generate(path=None):
    d = extract(path)
    L = ["(* GENERATED by tools/translate/stagewiring.py from pandapipes/pipeflow.py - do not edit *)",
         "From Coq Require Import String List.", "From PP Require Import C05.Model.",
         "Import ListNotations.", "Open Scope string_scope.", ""]
    ents = []
    for s in d["stages"]:
        ents.append("  {| sw_name := %s; sw_solver := %s;\n     sw_vars := %s;\n     sw_tols := %s;\n     sw_pits := %s;\n"
                    "     sw_iter := %s;\n     sw_pairs := %s;\n     sw_body := %s;\n     sw_final_reduce_mode := %s |}"
                    % (cstr(s["name"]), cstr(s["solver"]), clist(map(cstr, s["vars"])), clist(map(cstr, s["tols"])),
                       clist(map(cstr, s["pits"])), cstr(s["iter"]),
                       "[\n       " + ";\n       ".join(_cpair(p) for p in s["pairs"]) + "]",
                       clist(map(cstr, s["body"])), cstr(s["final_reduce_mode"])))
    L.append("Definition stages : list stage_wiring := [\n%s\n]." % ";\n".join(ents))
    L.append("")
    L.append("Definition pipeflow_body : list string := %s." % clist(map(cstr, d["pipeflow"])))
    L.append("Definition rerun_hydraulics_body : list string := %s." % clist(map(cstr, d["rerun_hydraulics"])))
    L.append("Definition rerun_heat_transfer_body : list string := %s." % clist(map(cstr, d["rerun_heat_transfer"])))
    L.append("")
    return "\n".join(L), d


if __name__ == "__main__":
    print(generate()[0])
