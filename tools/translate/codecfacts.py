"""T-tie for C15: facts of the pandapipes codec layer the Coq model (coq/C15/Model.v) relies on, regenerated
from io/io_utils.py, io/file_io.py, io/convert_format.py, properties/fluids.py into Gen/CodecFacts.v.
Fail-closed: an unexpected shape of any of these raises."""
import ast
import os
import sys

sys.path.insert(0, os.path.dirname(os.path.dirname(os.path.abspath(__file__))))
from vlib import SRC, cstr, cbool, clist  # noqa: E402


class Unsupported(Exception):
    pass


def _parse(rel):
    return ast.parse(open(os.path.join(SRC, rel)).read())


def key_filters(tree):
    """every to_serializable-registered net encoder: {k: item for k, item in obj.items() if not k.startswith(P)}"""
    out = []
    for node in tree.body:
        if isinstance(node, ast.FunctionDef) and node.name == "json_net":
            reg = [ast.unparse(d) for d in node.decorator_list]
            comps = [n for n in ast.walk(node) if isinstance(n, ast.DictComp)]
            if len(comps) != 1:
                raise Unsupported("json_net: expected one dict comprehension")
            c = comps[0]
            g = c.generators[0]
            if not (ast.unparse(c.key) == "k" and ast.unparse(c.value) == "item" and ast.unparse(g.iter) == "obj.items()"
                    and len(g.ifs) == 1 and isinstance(g.ifs[0], ast.UnaryOp) and isinstance(g.ifs[0].op, ast.Not)):
                raise Unsupported("json_net: comprehension shape %s" % ast.unparse(c))
            call = g.ifs[0].operand
            if not (isinstance(call, ast.Call) and ast.unparse(call.func) == "k.startswith" and
                    isinstance(call.args[0], ast.Constant)):
                raise Unsupported("json_net: filter %s" % ast.unparse(call))
            if "with_signature(obj, net_dict)" not in ast.unparse(node):
                raise Unsupported("json_net: with_signature(obj, net_dict) missing")
            out.append((reg[0] if reg else "?", call.args[0].value))
    if len(out) != 2:
        raise Unsupported("expected json_net for pandapipesNet and MultiNet, found %d" % len(out))
    return out


def registry(tree):
    names, net_body = [], None
    for node in ast.walk(tree):
        if isinstance(node, ast.ClassDef) and node.name == "FromSerializableRegistryPpipe":
            for f in node.body:
                if isinstance(f, ast.FunctionDef) and f.decorator_list:
                    d = f.decorator_list[0]
                    if isinstance(d, ast.Call) and ast.unparse(d.func) == "from_serializable.register":
                        kw = {k.arg: k.value.value for k in d.keywords}
                        names.append((f.name, kw.get("class_name", ""), kw.get("module_name", "")))
                        if f.name == "pandapipesNet":
                            net_body = ast.unparse(f)
    if net_body is None or "net.update(self.obj)" not in net_body or "pandapipesNet(entries)" not in net_body or \
            "if k in self.obj" not in net_body:
        raise Unsupported("registry pandapipesNet: entries restricted to stored keys + update not recognised")
    return names


def fluid_classes(tree):
    out = []
    entries = excludes = None
    for node in tree.body:
        if isinstance(node, ast.ClassDef) and (node.name.startswith("FluidProperty") or node.name == "Fluid"):
            meths = [f.name for f in node.body if isinstance(f, ast.FunctionDef)]
            out.append((node.name, [ast.unparse(b) for b in node.bases], "to_dict" in meths, "from_dict" in meths))
            if node.name == "FluidPropertyInterExtra":
                for st in node.body:
                    if isinstance(st, ast.Assign) and isinstance(st.targets[0], ast.Name):
                        if st.targets[0].id == "prop_getter_entries":
                            entries = ast.literal_eval(st.value)
                        if st.targets[0].id == "json_excludes":
                            if not (isinstance(st.value, ast.BinOp) and isinstance(st.value.right, ast.List)):
                                raise Unsupported("json_excludes shape")
                            excludes = [e.value for e in st.value.right.elts]
                src = ast.unparse(node)
                if "d.update({k: self.prop_getter.__dict__[k] for k in self.prop_getter_entries.keys()})" not in src or \
                        "interp1d(**d2)" not in src or "if k not in cls.prop_getter_entries.keys()" not in src:
                    raise Unsupported("FluidPropertyInterExtra.to_dict / from_dict not recognised")
    for node in tree.body:
        if isinstance(node, ast.ClassDef) and node.name == "FluidPropertyPolynominal":
            meths = [f.name for f in node.body if isinstance(f, ast.FunctionDef)]
            if ("to_dict" in meths) != ("from_dict" in meths):
                raise Unsupported("FluidPropertyPolynominal: to_dict without from_dict (or vice versa)")
            if "to_dict" in meths:
                # accepted shape: the poly1d objects are excluded, the coefficients are one more stored field that
                # from_dict pops to rebuild poly1d / polyint (field-level codec = the generic one of the model)
                src = ast.unparse(node)
                for need in ('"prop_getter"', '"prop_int_getter"', "d['coefficients'] =", "d.pop('coefficients')",
                             "np.poly1d(coefficients)", "np.polyint(obj.prop_getter)", "obj.__dict__.update(d)"):
                    if need.replace('"', "'") not in src.replace('"', "'"):
                        raise Unsupported("FluidPropertyPolynominal.to_dict / from_dict not recognised (%s)" % need)
    if entries is None or excludes is None:
        raise Unsupported("prop_getter_entries / json_excludes not found")
    extra = {"poly_fields": [], "poly_excludes": [], "fill_none_codec": False}
    for node in tree.body:
        if isinstance(node, ast.ClassDef) and node.name == "FluidPropertyPolynominal":
            for st in node.body:
                if isinstance(st, ast.Assign) and isinstance(st.targets[0], ast.Name) and st.targets[0].id == "json_excludes":
                    if not (isinstance(st.value, ast.BinOp) and isinstance(st.value.right, ast.List)):
                        raise Unsupported("FluidPropertyPolynominal.json_excludes shape")
                    extra["poly_excludes"] = [e.value for e in st.value.right.elts]
            stored, popped = [], []
            for f in node.body:
                if isinstance(f, ast.FunctionDef) and f.name == "to_dict":
                    stored = [n.targets[0].slice.value for n in ast.walk(f) if isinstance(n, ast.Assign) and
                              isinstance(n.targets[0], ast.Subscript) and ast.unparse(n.targets[0].value) == "d"
                              and isinstance(n.targets[0].slice, ast.Constant)]
                if isinstance(f, ast.FunctionDef) and f.name == "from_dict":
                    popped = [n.args[0].value for n in ast.walk(f) if isinstance(n, ast.Call) and
                              ast.unparse(n.func) == "d.pop" and isinstance(n.args[0], ast.Constant)]
            if sorted(stored) != sorted(popped):
                raise Unsupported("FluidPropertyPolynominal: to_dict stores %s, from_dict pops %s" % (stored, popped))
            extra["poly_fields"] = stored
        if isinstance(node, ast.ClassDef) and node.name == "FluidPropertyInterExtra":
            src = ast.unparse(node).replace('"', "'")
            extra["fill_none_codec"] = ("if not isinstance(d['_fill_value_orig'], str):\n            d['_fill_value_orig'] = None" in src
                                        and "if d2.get('fill_value', '') is None:\n            del d2['fill_value']" in src)
    return out, entries, excludes, extra


def convert_guard(tree):
    for node in tree.body:
        if isinstance(node, ast.FunctionDef) and node.name == "convert_format":
            src = ast.unparse(node)
            if "if version.parse(net.format_version) >= format_version:\n        return net" not in src:
                raise Unsupported("convert_format: early return on current format not recognised")
            if "net.format_version = __format_version__" not in src:
                raise Unsupported("convert_format: does not set the format version after upgrading")
            return True
    raise Unsupported("convert_format not found")


def sector_facts(tree):
    """(guard of _add_sector is `'sector' not in net`, prelude of convert_format recognised)"""
    guard = prelude = False
    for node in tree.body:
        if isinstance(node, ast.FunctionDef) and node.name == "_add_sector":
            body = [b for b in node.body if not (isinstance(b, ast.Expr) and isinstance(b.value, ast.Constant))]
            guard = len(body) == 1 and isinstance(body[0], ast.If) and not body[0].orelse and \
                ast.unparse(body[0].test) == "'sector' not in net" and \
                [ast.unparse(x) for x in body[0].body] == ["net['sector'] = Sector.ALL"]
        if isinstance(node, ast.FunctionDef) and node.name == "convert_format":
            body = [b for b in node.body if not (isinstance(b, ast.Expr) and isinstance(b.value, ast.Constant))]
            prelude = [ast.unparse(x) for x in body[:2]] == ["_add_sector(net)", "add_default_components(net, overwrite=False)"]
    return guard, prelude


def file_io_facts(tree):
    src = ast.unparse(tree)
    need = ["json.dumps(net, cls=PPJSONEncoder", "isinstance_func=isinstance_partial",
            "registry_class=FromSerializableRegistryPpipe"]
    for n in need:
        if n not in src:
            raise Unsupported("file_io: %s not found" % n)
    return need


def generate():
    kf = key_filters(_parse("io/io_utils.py"))
    reg = registry(_parse("io/io_utils.py"))
    classes, entries, excludes, extra = fluid_classes(_parse("properties/fluids.py"))
    convert_guard(_parse("io/convert_format.py"))
    file_io_facts(_parse("io/file_io.py"))
    guard, prelude = sector_facts(_parse("io/convert_format.py"))
    lines = ["(* GENERATED by tools/translate/codecfacts.py from pandapipes/io/*.py, properties/fluids.py - do not edit *)",
             "From Coq Require Import String List Bool.", "Import ListNotations.", "Open Scope string_scope.", "",
             "Definition key_filter_prefixes : list string := %s." % clist([cstr(p) for _, p in kf]),
             "Definition getter_entries : list (string * string) := %s." %
             clist(["(%s, %s)" % (cstr(k), cstr(v)) for k, v in entries.items()]),
             "Definition inter_excludes : list string := %s." % clist([cstr(x) for x in excludes]),
             "Definition poly_fields : list string := %s." % clist([cstr(x) for x in extra["poly_fields"]]),
             "Definition poly_excludes : list string := %s." % clist([cstr(x) for x in extra["poly_excludes"]]),
             "Definition inter_fill_none_codec : bool := %s." % cbool(extra["fill_none_codec"]),
             "Definition sector_guard_key_presence : bool := %s." % cbool(guard),
             "Definition convert_prelude_recognised : bool := %s." % cbool(prelude),
             "Definition registry_names : list string := %s." % clist([cstr(n) for n, _, _ in reg]),
             "(* class, overrides to_dict, overrides from_dict *)",
             "Definition fluid_classes : list (string * bool * bool) := %s." %
             clist(["(%s, %s, %s)" % (cstr(n), cbool(t), cbool(f)) for n, _, t, f in classes]), ""]
    facts = {"key_prefixes": [p for _, p in kf], "prop_getter_entries": list(entries.keys()), "excludes": excludes,
             "registry": reg, "classes": classes, "extra": extra}
    return "\n".join(lines), facts


if __name__ == "__main__":
    print(generate()[0])
