"""T-tie for C20 (fail-closed): Gen/KConv.v from multinet/control/controller/multinet_control.py.

For P2GControlMultiEnergy, G2PControlMultiEnergy (both modes) and GasToGasConversion it extracts
  * the conversion factor methods,
  * the value computed by control_step and stored by write_to_net, as a function of the cells read,
  * the wiring: which (net attribute, table, index attribute, column) cells are read and written,
  * the fluid property used as calorific value in __init__.
Each `try: <.at access>  except (ValueError, TypeError, InvalidIndexError): <.loc access>` pair must
translate to the same per-element expression (scalar index and vector index are the same law);
anything else raises TranslationError.
The same expression tree is printed twice: over R (theorems, `field`) and over Q (module KConvQ, used
only to evaluate the monitor's expected cells inside Coq).
"""
import ast
import os
import sys
from fractions import Fraction

sys.path.insert(0, os.path.dirname(os.path.dirname(os.path.abspath(__file__))))
import vlib  # noqa: E402
from vlib import cstr, clist  # noqa: E402


class TranslationError(Exception):
    pass


def src_path():
    return os.path.join(os.environ.get("VERIF_REPO", vlib.REPO), "src", "pandapipes", "multinet", "control",
                        "controller", "multinet_control.py")


# expression tree: ("num", Fraction) | ("var", name) | ("op", sym, a, b) | ("call", fname, [args])
def pr(e, mode):
    k = e[0]
    if k == "num":
        fr = e[1]
        if mode == "R":
            return "%d" % fr.numerator if fr.denominator == 1 else "(%d / %d)" % (fr.numerator, fr.denominator)
        return "(%d # %d)" % (fr.numerator, fr.denominator)
    if k == "var":
        return e[1]
    if k == "op":
        return "(%s %s %s)" % (pr(e[2], mode), e[1], pr(e[3], mode))
    if k == "call":
        return "(%s %s)" % (e[1], " ".join(pr(a, mode) for a in e[2]))
    raise TranslationError("bad tree %r" % (e,))


def canonical(names):
    """positional parameter order of a generated definition: fixed by name, never by order of occurrence
    (cells read: value before scaling; then calorific values gas1 < gas2 / fluid; efficiency last)"""
    def key(n):
        if n.endswith("_scaling"):
            return (0, n[:-8], 1)
        if n.endswith("calorific_value"):
            return (1, n, 0)
        if n == "efficiency":
            return (2, n, 0)
        return (0, n.rsplit("_p_mw", 1)[0].rsplit("_mdot_kg_per_s", 1)[0], 0)
    return sorted(names, key=key)


def free_vars(e, acc):
    if e[0] == "var" and e[1] not in acc:
        acc.append(e[1])
    elif e[0] == "op":
        free_vars(e[2], acc)
        free_vars(e[3], acc)
    elif e[0] == "call":
        for a in e[2]:
            free_vars(a, acc)
    return acc


class Cls:
    def __init__(self, src, node):
        self.src, self.node = src, node
        self.methods = {m.name: m for m in node.body if isinstance(m, ast.FunctionDef)}
        self.reads = []        # (netattr, table, idxattr, column) in order of first use
        self.helpers = {}      # conversion_factor_* -> (params, tree)

    def method(self, name):
        if name not in self.methods:
            raise TranslationError("%s.%s not found" % (self.node.name, name))
        return self.methods[name]

    # ---- cell access
    def cell(self, node):
        """multinet['nets'][self.NET].TABLE.at[self.IDX, 'COL']   |  ...[self.TABLEATTR].at[...]
           ....loc[self.IDX, 'COL'].values  optionally followed by [:]   ->  (netattr, table, idxattr, col)"""
        n = node
        if isinstance(n, ast.Subscript) and isinstance(n.slice, ast.Slice) and n.slice.lower is None \
                and n.slice.upper is None and n.slice.step is None:
            n = n.value                                  # trailing [:]
        via = None
        if isinstance(n, ast.Attribute) and n.attr == "values":
            n = n.value
            via = "loc"
        if not (isinstance(n, ast.Subscript) and isinstance(n.value, ast.Attribute) and n.value.attr in ("at", "loc")):
            return None
        if via == "loc" and n.value.attr != "loc":
            raise TranslationError(".values on a scalar access: %s" % ast.unparse(node))
        if via is None and n.value.attr == "loc" and isinstance(node.ctx, ast.Load):
            raise TranslationError(".loc read without .values: %s" % ast.unparse(node))
        sl = n.slice
        if not (isinstance(sl, ast.Tuple) and len(sl.elts) == 2 and isinstance(sl.elts[1], ast.Constant)
                and isinstance(sl.elts[0], ast.Attribute) and ast.unparse(sl.elts[0].value) == "self"):
            raise TranslationError("cell index not understood: %s" % ast.unparse(node))
        idxattr, col = sl.elts[0].attr, sl.elts[1].value
        tab = n.value.value
        if isinstance(tab, ast.Attribute):
            table, netexpr = tab.attr, tab.value
        elif isinstance(tab, ast.Subscript) and isinstance(tab.slice, ast.Attribute) and \
                ast.unparse(tab.slice.value) == "self":
            table, netexpr = "<self.%s>" % tab.slice.attr, tab.value
        else:
            raise TranslationError("table not understood: %s" % ast.unparse(node))
        if not (isinstance(netexpr, ast.Subscript) and ast.unparse(netexpr.value) == "multinet['nets']"
                and isinstance(netexpr.slice, ast.Attribute) and ast.unparse(netexpr.slice.value) == "self"):
            raise TranslationError("net not understood: %s" % ast.unparse(node))
        return (netexpr.slice.attr, table, idxattr, col), n.value.attr

    def var_of_cell(self, c):
        if c not in self.reads:
            self.reads.append(c)
        t = c[1].replace("<self.", "").replace(">", "")
        return "%s_%s" % (t, c[3])

    # ---- expressions
    def tr(self, node, env):
        c = self.cell(node) if isinstance(node, (ast.Subscript, ast.Attribute)) else None
        if c is not None:
            return ("var", self.var_of_cell(c[0]))
        if isinstance(node, ast.Constant) and isinstance(node.value, (int, float)) and not isinstance(node.value, bool):
            seg = ast.get_source_segment(self.src, node)
            return ("num", Fraction(seg))
        if isinstance(node, ast.Name):
            if node.id in env:
                return env[node.id]
            raise TranslationError("unbound name %s" % node.id)
        if isinstance(node, ast.Attribute) and ast.unparse(node.value) == "self":
            key = "self." + node.attr
            if key in env:
                return env[key]
            return ("var", node.attr)
        if isinstance(node, ast.BinOp) and type(node.op) in (ast.Add, ast.Sub, ast.Mult, ast.Div):
            sym = {ast.Add: "+", ast.Sub: "-", ast.Mult: "*", ast.Div: "/"}[type(node.op)]
            return ("op", sym, self.tr(node.left, env), self.tr(node.right, env))
        if isinstance(node, ast.Call) and isinstance(node.func, ast.Attribute) and ast.unparse(node.func.value) == "self" \
                and not node.args and not node.keywords and node.func.attr.startswith("conversion_factor"):
            name = node.func.attr
            if name not in self.helpers:
                m = self.method(name)
                body = [s for s in m.body if not is_doc(s)]
                if len(body) != 1 or not isinstance(body[0], ast.Return):
                    raise TranslationError("%s: expected a single return" % name)
                tree = self.tr(body[0].value, {})
                self.helpers[name] = (canonical(free_vars(tree, [])), tree)
            params = self.helpers[name][0]
            return ("call", name, [("var", p) for p in params])
        raise TranslationError("unsupported expression %s" % ast.unparse(node))

    # ---- statements
    def block(self, stmts, env, writes):
        for st in stmts:
            if is_doc(st):
                continue
            if isinstance(st, ast.Try):
                self.try_pair(st, env, writes)
                continue
            if isinstance(st, ast.Assign) and len(st.targets) == 1:
                self.assign(st, env, writes)
                continue
            if isinstance(st, ast.Expr) and ast.unparse(st.value) == "self.write_to_net(multinet)":
                self.block(self.method("write_to_net").body, env, writes)
                continue
            raise TranslationError("unsupported statement %s" % ast.unparse(st)[:100])

    def assign(self, st, env, writes):
        tgt = st.targets[0]
        if isinstance(tgt, ast.Name):
            env[tgt.id] = self.tr(st.value, env)
        elif isinstance(tgt, ast.Attribute) and ast.unparse(tgt.value) == "self":
            if tgt.attr == "applied":
                if not (isinstance(st.value, ast.Constant) and st.value.value is True):
                    raise TranslationError("self.applied set to %s" % ast.unparse(st.value))
                env["<applied>"] = True
            else:
                env["self." + tgt.attr] = self.tr(st.value, env)
        else:
            c = self.cell(tgt)
            if c is None:
                raise TranslationError("assignment target %s" % ast.unparse(tgt))
            writes.append((c[0], self.tr(st.value, env), c[1]))

    def try_pair(self, st, env, writes):
        if len(st.handlers) != 1 or st.orelse or st.finalbody:
            raise TranslationError("try statement shape")
        h = st.handlers[0]
        if ast.unparse(h.type) != "(ValueError, TypeError, InvalidIndexError)":
            raise TranslationError("except clause catches %s" % ast.unparse(h.type))
        ea, eb, wa, wb = dict(env), dict(env), [], []
        ra, rb = list(self.reads), list(self.reads)
        self.reads = ra
        self.block(st.body, ea, wa)
        self.reads = rb
        self.block(h.body, eb, wb)
        strip = lambda ws: [(c, t) for c, t, _ in ws]  # noqa: E731
        if ea != eb or strip(wa) != strip(wb) or ra != rb:
            raise TranslationError("scalar-index (.at) and vector-index (.loc) paths differ in %s: %r vs %r"
                                   % (self.node.name, (ea, strip(wa)), (eb, strip(wb))))
        if [k for _, _, k in wa] not in ([], ["at"]) or [k for _, _, k in wb] not in ([], ["loc"]):
            raise TranslationError("try/except does not pair .at with .loc")
        self.reads = ra
        env.clear()
        env.update(ea)
        writes.extend(wa)


def is_doc(st):
    return isinstance(st, ast.Expr) and isinstance(st.value, ast.Constant) and isinstance(st.value.value, str)


def calorific_keys(cls):
    """self.X_calorific_value = <fluid>.get_property('KEY') in __init__ -> {attr: KEY}"""
    out = {}
    for st in ast.walk(cls.method("__init__")):
        if isinstance(st, ast.Assign) and isinstance(st.targets[0], ast.Attribute) and \
                st.targets[0].attr.endswith("calorific_value"):
            v = st.value
            if not (isinstance(v, ast.Call) and isinstance(v.func, ast.Attribute) and v.func.attr == "get_property"
                    and len(v.args) == 1 and isinstance(v.args[0], ast.Constant)):
                raise TranslationError("calorific value taken from %s" % ast.unparse(v))
            out[st.targets[0].attr] = (v.args[0].value, ast.unparse(v.func.value))
    if not out:
        raise TranslationError("%s.__init__ sets no calorific value" % cls.node.name)
    return out


def net_names_order(cls):
    m = cls.method("get_all_net_names")
    body = [s for s in m.body if not is_doc(s)]
    if len(body) != 1 or not isinstance(body[0], ast.Return) or not isinstance(body[0].value, ast.List):
        raise TranslationError("get_all_net_names shape")
    return [e.attr for e in body[0].value.elts]


def translate_class(src, tree, name):
    node = [n for n in tree.body if isinstance(n, ast.ClassDef) and n.name == name]
    if len(node) != 1:
        raise TranslationError("class %s not found" % name)
    cls = Cls(src, node[0])
    cs = cls.method("control_step")
    body = [s for s in cs.body if not is_doc(s)]
    variants = []
    if isinstance(body[0], ast.If) and ast.unparse(body[0].test) == "self.el_power_led":
        rest = body[1:]
        wt = [s for s in cls.method("write_to_net").body if not is_doc(s)]
        if not (len(wt) == 1 and isinstance(wt[0], ast.If) and ast.unparse(wt[0].test) == "self.el_power_led"):
            raise TranslationError("write_to_net does not branch on el_power_led")
        for tag, b, w in (("power_led", body[0].body, wt[0].body), ("gas_led", body[0].orelse, wt[0].orelse)):
            c = Cls(src, node[0])
            env, writes = {}, []
            c.block(b, env, writes)
            for s in rest:
                if ast.unparse(s) == "self.write_to_net(multinet)":
                    c.block(w, env, writes)
                else:
                    c.block([s], env, writes)
            variants.append((tag, c, env, writes))
    else:
        env, writes = {}, []
        cls.block(body, env, writes)
        variants.append(("", cls, env, writes))
    out = []
    for tag, c, env, writes in variants:
        if len(writes) != 1 or not env.get("<applied>"):
            raise TranslationError("%s %s: expected exactly one written cell and applied = True" % (name, tag))
        conv = c.method("is_converged")
        if ast.unparse([s for s in conv.body if not is_doc(s)][0]) != "return self.applied":
            raise TranslationError("%s.is_converged changed" % name)
        out.append((tag, c, writes[0]))
    return out, calorific_keys(cls), net_names_order(cls)


SPEC = [("P2GControlMultiEnergy", "p2g"), ("G2PControlMultiEnergy", "g2p"), ("GasToGasConversion", "g2g")]


def extract():
    src = open(src_path()).read()
    tree = ast.parse(src)
    res = {}
    for cname, short in SPEC:
        res[short] = translate_class(src, tree, cname)
    return res


def generate():
    res = extract()
    out = ["(* GENERATED by tools/translate/multinet.py from pandapipes/multinet/control/controller/multinet_control.py"
           " - do not edit *)", "From Coq Require Import String List Reals QArith.", "Import ListNotations.", ""]
    wiring, helpers_done = [], {}
    bodyR, bodyQ = [], []
    for short in ("p2g", "g2p", "g2g"):
        variants, keys, names = res[short]
        for tag, c, (cell, tree, _) in variants:
            nm = short + ("_" + tag if tag == "power_led" else "") + "_written"
            for h, (params, htree) in c.helpers.items():
                if h in helpers_done:
                    if helpers_done[h] != (params, htree):
                        raise TranslationError("helper %s differs between variants" % h)
                    continue
                helpers_done[h] = (params, htree)
                for mode, acc in (("R", bodyR), ("Q", bodyQ)):
                    acc.append("Definition %s %s : %s := %s." % (h, " ".join("(%s : %s)" % (p, mode) for p in params),
                                                                 mode, pr(htree, mode)))
            fv = canonical(free_vars(tree, []))
            for mode, acc in (("R", bodyR), ("Q", bodyQ)):
                acc.append("(* %s: value stored into %s.%s[%s, %r] *)" % (nm, cell[0], cell[1], cell[2], cell[3]))
                acc.append("Definition %s %s : %s := %s." % (nm, " ".join("(%s : %s)" % (p, mode) for p in fv), mode,
                                                             pr(tree, mode)))
            wiring.append((nm, c.reads, cell, fv))
        out.append("Definition %s_calorific : list (string * (string * string)) := %s." % (short, clist(
            ["(%s, (%s, %s))" % (cstr(a), cstr(k), cstr(src)) for a, (k, src) in sorted(keys.items())])))
        out.append("Definition %s_net_names : list string := %s." % (short, clist([cstr(n) for n in names])))
    for nm, reads, cell, fv in wiring:
        out.append("Definition %s_reads : list (string * string * string * string) := %s." % (nm, clist(
            ["(%s, %s, %s, %s)" % tuple(cstr(x) for x in r) for r in reads])))
        out.append("Definition %s_writes : string * string * string * string := (%s, %s, %s, %s)."
                   % ((nm,) + tuple(cstr(x) for x in cell)))
        out.append("Definition %s_params : list string := %s." % (nm, clist([cstr(v) for v in fv])))
    out.append("\nOpen Scope R_scope.")
    out += bodyR
    out.append("Close Scope R_scope.\n\nModule KConvQ.\nOpen Scope Q_scope.")
    out += bodyQ
    out.append("End KConvQ.")
    return "\n".join(out) + "\n"


if __name__ == "__main__":
    print(generate())
